"""C04 -- delimited-text record files round-trip values and structure."""
import ast

from vcheck import cfront, rules
from vcheck.core import PyRepo, AnalysisError, call_name, dotted_name, kwarg, norm, walk_no_nested
from vcheck.cstr import c_string_literal, printf_directives
from vcheck.rules import cfg_of

MANIFEST = dict(
    text="Table/format agreement from the clang AST plus structural rules (not a behavioural proof of libc): the print and scan "
         "format tables are obtained by abstract evaluation of the table-building code (string appends with enumerator indices, the "
         "%Ld repair loop, the delimiter suffix) and checked per numpy type: print length modifier/conversion matches the C type "
         "dereferenced in the matching switch arm (cast agrees with case label), scan length modifier matches the destination element "
         "size, float precisions are >= 7 (f4) and >= 16 (f8) significant digits with g, every type of the property's list has an arm, "
         "a print and a scan format; fixed-width strings are written and read as exactly size/nel raw bytes on both sides; the writer "
         "emits the delimiter between elements and fields and a newline per row, the reader consumes exactly one delimiter/EOL after each "
         "string element and the delimiter through the scan suffix (or one fgetc in whitespace mode) after each number; text output "
         "converts a copy to native order before Write; the reader dtype and the header _DTYPE are byte-order-stripped exactly for text "
         "files and _DELIM is recorded. A scan suffix that begins with a whitespace directive is reported as a hazard for a following "
         "fixed-width string field with leading blanks.",
    note="Not decided: libc printf/scanf numeric round trip, NaN/inf spellings. Assumes LP64. The whitespace-directive hazard is a recorded known finding.",
    technique="static analysis: abstract evaluation of format-table building code from the clang AST, printf/scanf directive parsing and type agreement, structural reader/writer pairing",
)

CTYPE_OF = {  # printf (length, conv) -> accepted C types of the promoted-from argument
    ("hh", "d"): {"signed char", "char"}, ("hh", "u"): {"unsigned char"}, ("h", "d"): {"short"}, ("h", "u"): {"unsigned short"},
    ("", "d"): {"int"}, ("", "u"): {"unsigned int"}, ("l", "d"): {"long"}, ("l", "u"): {"unsigned long"},
    ("ll", "d"): {"long long"}, ("ll", "u"): {"unsigned long long"},
}
SCAN_SIZE = {("hh", "d"): 1, ("hh", "u"): 1, ("h", "d"): 2, ("h", "u"): 2, ("", "d"): 4, ("", "u"): 4, ("l", "d"): 8, ("l", "u"): 8,
             ("ll", "d"): 8, ("ll", "u"): 8, ("", "f"): 4, ("l", "f"): 8}
SIZEOF = {"signed char": 1, "char": 1, "unsigned char": 1, "short": 2, "unsigned short": 2, "int": 4, "unsigned int": 4, "long": 8,
          "unsigned long": 8, "long long": 8, "unsigned long long": 8, "float": 4, "double": 8}
NEEDED = {"NPY_BYTE": "i1", "NPY_UBYTE": "u1", "NPY_SHORT": "i2", "NPY_USHORT": "u2", "NPY_INT": "i4", "NPY_UINT": "u4", "NPY_LONG": "i8",
          "NPY_ULONG": "u8", "NPY_FLOAT": "f4", "NPY_DOUBLE": "f8"}
W = "esutil/recfile/records.cpp"


# rules that keep their verdict however the code is laid out (decided by term equality, effect analysis or dominance over
# resolved calls); every other rule of this check is a template rule (vcheck.core.Check.obt)
SEMANTIC = ('R04.1', 'R04.3', 'R04.3n', 'R04.4')


def run(chk):
    repo = PyRepo()
    chk.set_templates(repo, semantic=SEMANTIC)
    chk.explanation = MANIFEST["text"]
    chk.trusted = ["clang 14 AST", "C99 printf/scanf directive semantics", "LP64"]
    chk.assume("LP64: long and npy_int64 are 8 bytes")
    chk.floor = 70
    cfun = cfront.functions(cfront.load_tu("records"))
    for nm in ("Records::make_scan_formats", "Records::make_print_formats", "Records::WriteNumberAsAscii", "Records::WriteField", "Records::WriteRows",
               "Records::WriteStringAsAscii", "Records::read_ascii_bytes", "Records::scan_column_values", "Records::read_from_text_column"):
        if nm not in cfun:
            raise AnalysisError("C++ anchor %s missing" % nm)
        chk.analysed_unit(nm)
    scan, suffix = eval_scan_table(chk, cfun["Records::make_scan_formats"])
    prt = eval_print_table(chk, cfun["Records::make_print_formats"], scan)
    arms = switch_arms(chk, cfun["Records::WriteNumberAsAscii"])
    tables(chk, scan, prt, arms)
    strings(chk, cfun)
    delimiters(chk, cfun, suffix)
    python_side(chk, repo)
    # the converter used before a text write decides on every field with a byte order (shared rule with C16)
    from checks import C16
    C16.r16_6(chk, repo, rule="R04.3n", only="esutil.recfile.Util.to_native_inplace")


# ---------------------------------------------------------------------------
def eval_scan_table(chk, fn):
    """abstract evaluation of make_scan_formats with add_delim=true in non-whitespace mode.
    returns ({index: format without suffix}, suffix template)"""
    body = cfront.body_of(fn)
    base = None
    table = {}
    suffix = None
    for st in body.get("inner", []):
        k = st.get("kind")
        txt = cfront.render(st)
        if "resize" in txt and base is None:
            lits = [c_string_literal(x) for x in cfront.walk(st) if x.get("kind") == "StringLiteral"]
            base = lits[0] if lits else None
        elif k == "CXXOperatorCallExpr" and cfront.callee_name(st) in ("operator+=", "operator="):
            args = cfront.call_args(st)
            lhs = cfront.strip(args[0])
            if lhs.get("kind") == "CXXOperatorCallExpr" and cfront.callee_name(lhs) == "operator[]":
                idx = cfront.render(cfront.call_args(lhs)[1])
                lit = c_string_literal(args[1])
                if lit is None:
                    raise AnalysisError("non-literal format fragment in make_scan_formats: %s" % txt)
                cur = table.get(idx, base)
                table[idx] = (cur + lit) if cfront.callee_name(st) == "operator+=" else lit
        elif k == "ForStmt":
            # %Ld -> %lld repair loop: formats[i] == "lit" -> formats[i] = "lit2"
            for iff in [x for x in cfront.walk(st) if x.get("kind") == "IfStmt"]:
                lits = [c_string_literal(x) for x in cfront.walk(iff) if x.get("kind") == "StringLiteral"]
                if len(lits) == 2:
                    for kx, v in list(table.items()):
                        if v == lits[0]:
                            table[kx] = lits[1]
        elif k == "IfStmt":
            cond = cfront.render(st["inner"][0])
            if "add_delim" in cond and "mReadAsWhitespace" in cond:
                # formats[i] += ' ' + mDelim   for entries that are not the bare "%"
                adds = [x for x in cfront.walk(st) if x.get("kind") == "CXXOperatorCallExpr" and cfront.callee_name(x) == "operator+="]
                if adds:
                    rhs = cfront.render(cfront.call_args(adds[0])[1])
                    suffix = rhs
    chk.ob("R04.1", "scan-table::evaluated", base == "%" and len(table) >= 10, W, "scan table evaluated: base %r, %d entries %s" % (base, len(table), table))
    return table, suffix


def eval_print_table(chk, fn, scan):
    body = cfront.body_of(fn)
    table = None
    for st in body.get("inner", []):
        txt = cfront.render(st)
        if "make_scan_formats(" in txt:
            ok = txt.replace(" ", "") == "make_scan_formats(formats,false)"
            chk.ob("R04.1", "print-table::starts-from-scan-table-without-delimiter", ok, W, "print formats start as the scan formats without the delimiter suffix (%s)" % txt)
            table = dict(scan)
        elif st.get("kind") == "CXXOperatorCallExpr" and cfront.callee_name(st) == "operator=" and table is not None:
            args = cfront.call_args(st)
            lhs = cfront.strip(args[0])
            idx = cfront.render(cfront.call_args(lhs)[1])
            table[idx] = c_string_literal(args[1])
    if table is None:
        raise AnalysisError("make_print_formats does not start from make_scan_formats")
    return table


def switch_arms(chk, fn):
    sw = [x for x in cfront.walk(cfront.body_of(fn)) if x.get("kind") == "SwitchStmt"]
    if len(sw) != 1:
        raise AnalysisError("switch over the numpy type not found in WriteNumberAsAscii")
    arms = {}
    for c in sw[0]["inner"][-1].get("inner", []):
        if c.get("kind") != "CaseStmt":
            continue
        lab = [y.get("referencedDecl", {}).get("name") for y in cfront.walk(c["inner"][0]) if y.get("kind") == "DeclRefExpr"]
        # the dereference `*(T*)buffer` carries the desugared element type
        casts = [(x.get("type", {}).get("desugaredQualType") or x.get("type", {}).get("qualType")) for x in cfront.walk(c)
                 if x.get("kind") == "UnaryOperator" and x.get("opcode") == "*" and x.get("inner") and cfront.strip(x["inner"][0]).get("kind") == "CStyleCastExpr"
                 or (x.get("kind") == "UnaryOperator" and x.get("opcode") == "*" and any(y.get("kind") == "CStyleCastExpr" for y in cfront.walk(x)))]
        idx = [cfront.render(cfront.call_args(y)[1]) for y in cfront.walk(c) if y.get("kind") == "CXXOperatorCallExpr" and cfront.callee_name(y) == "operator[]"]
        if lab:
            arms[lab[0]] = {"cast": [t.replace(" *", "").replace("*", "").strip() for t in casts], "fmt_index": idx}
    sibs = sw[0]["inner"][-1].get("inner", [])
    di = [i for i, c in enumerate(sibs) if c.get("kind") == "DefaultStmt"]
    throws = len(di) == 1 and any(x.get("kind") == "CXXThrowExpr" for c in sibs[di[0]:] for x in cfront.walk(c))
    chk.ob("R04.2", "switch::unsupported-type-raises", bool(throws), W, "a type without an arm raises instead of writing garbage")
    return arms


def tables(chk, scan, prt, arms):
    for idx, code in NEEDED.items():
        tag = "%s(%s)" % (code, idx)
        # coverage
        chk.ob("R04.2", tag + "::has-arm-print-scan", idx in arms and idx in prt and idx in scan, W, "type %s has a switch arm, a print and a scan format" % code)
        if not (idx in arms and idx in prt and idx in scan):
            continue
        arm = arms[idx]
        chk.ob("R04.2", tag + "::arm-uses-own-format", arm["fmt_index"] == ["type"] or arm["fmt_index"] == [idx], W, "the arm formats with the table entry of its own type (%s)" % arm["fmt_index"])
        pd = printf_directives(prt[idx])
        sd = printf_directives(scan[idx])
        ok1 = len(pd["directives"]) == 1 and pd["literal_prefix"] == "" and pd["suffix"] == ""
        ok2 = len(sd["directives"]) == 1 and sd["literal_prefix"] == "" and sd["suffix"] == ""
        chk.ob("R04.1", tag + "::single-directive", ok1 and ok2, W, "print %r and scan %r consist of exactly one conversion" % (prt[idx], scan[idx]))
        if not (ok1 and ok2):
            continue
        p, s = pd["directives"][0], sd["directives"][0]
        ctype = arm["cast"][0] if arm["cast"] else None
        if code.startswith(("i", "u")):
            okp = ctype in CTYPE_OF.get((p["length"], p["conv"]), set())
            chk.ob("R04.1", tag + "::print-matches-dereferenced-type", okp, W, "print %r formats a %s (the arm dereferences %s)" % (prt[idx], sorted(CTYPE_OF.get((p["length"], p["conv"]), [])), ctype))
            chk.ob("R04.1", tag + "::cast-size-matches-field", SIZEOF.get(ctype) == int(code[1]), W, "the arm reads %s bytes (%s) for a %s field" % (SIZEOF.get(ctype), ctype, code))
            chk.ob("R04.1", tag + "::signedness", (p["conv"] == "d") == code.startswith("i") and (s["conv"] == "d") == code.startswith("i"), W, "signed types use d, unsigned u (print %s, scan %s)" % (p["conv"], s["conv"]))
            chk.ob("R04.1", tag + "::no-width-or-precision", p["width"] is None and p["prec"] is None and s["width"] is None, W, "integers are written in full and scanned without a width limit")
        else:
            okp = p["conv"] in "gGe" and p["length"] in ("", "l") and ctype == ("float" if code == "f4" else "double")
            chk.ob("R04.1", tag + "::print-matches-dereferenced-type", okp, W, "print %r formats a %s (promoted to double)" % (prt[idx], ctype))
            need = 7 if code == "f4" else 16
            chk.ob("R04.1", tag + "::significant-digits", p["prec"] is not None and p["prec"] >= need, W, "%s significant digits requested, >= %d needed for %s" % (p["prec"], need, code))
        okz = SCAN_SIZE.get((s["length"], s["conv"])) == int(code[1])
        chk.ob("R04.1", tag + "::scan-writes-field-size", okz, W, "scan %r stores %s bytes into a %s-byte element" % (scan[idx], SCAN_SIZE.get((s["length"], s["conv"])), code[1]))
        chk.ob("R04.1", tag + "::scan-not-suppressed", not s["suppress"], W, "the scan conversion assigns (no *)")
    chk.ob("R04.2", "NPY_STRING::print-format", prt.get("NPY_STRING") == "%s", W, "strings have a print format entry (they are written byte-wise by WriteStringAsAscii)")


def strings(chk, cfun):
    ws = cfun["Records::WriteStringAsAscii"]
    rows = [(cfront.render(x["inner"][0]) if x.get("kind") == "BinaryOperator" else x.get("name"), x) for x in cfront.walk(cfront.body_of(ws))
            if x.get("kind") == "VarDecl" or (x.get("kind") == "BinaryOperator" and x.get("opcode") == "=")]
    slen = [cfront.render([c for c in x.get("inner", []) if isinstance(c, dict) and c.get("kind")][-1]) for n, x in rows if n == "slen" and x.get("kind") == "VarDecl"]
    chk.ob("R04.1", "string::written-width", slen == ["(mSizes[fnum] / mNel[fnum])"], W, "each string element is written as size/nel bytes (%s)" % slen)
    fors = [x for x in cfront.walk(cfront.body_of(ws)) if x.get("kind") == "ForStmt"]
    ok = len(fors) == 1 and cfront.render(fors[0]["inner"][2]) == "(i < slen)"
    chk.ob("R04.1", "string::writes-every-byte", ok, W, "one byte is written per position i < slen")
    # only the opt-in flags may shorten / alter the bytes
    ccfg = cfront.CCFG(ws)
    view = ccfg.view()
    brk = [n for n in ccfg.nodes if n.kind == "stmt" and n.label == "break"]
    okb = all(any("mIgnoreNull" in cfront.render(b.c) for b, lab in view.controlling_branches(n)) for n in brk)
    chk.ob("R04.1", "string::early-stop-only-with-ignorenull", okb, W, "the byte loop stops early only under the opt-in ignorenull flag")
    alt = [n for n in ccfg.nodes if n.kind == "stmt" and isinstance(n.c, dict) and cfront.render(n.c) == "(c = ' ')"]
    oka = all(any("mPadNull" in cfront.render(b.c) for b, lab in view.controlling_branches(n)) for n in alt)
    chk.ob("R04.1", "string::bytes-altered-only-with-padnull", oka, W, "a byte is replaced only under the opt-in padnull flag")
    rb = cfun["Records::read_ascii_bytes"]
    sz = [cfront.render([c for c in x.get("inner", []) if isinstance(c, dict) and c.get("kind")][-1]) for x in cfront.walk(cfront.body_of(rb)) if x.get("kind") == "VarDecl" and x.get("name") == "size_per_el"]
    chk.ob("R04.1", "string::read-width-equals-written-width", sz == ["(mSizes[colnum] / mNel[colnum])"], W, "each string element is read as size/nel raw bytes: the same expression as the writer (%s)" % sz)
    fors = [x for x in cfront.walk(cfront.body_of(rb)) if x.get("kind") == "ForStmt"]
    ok = len(fors) == 2 and cfront.render(fors[0]["inner"][2]) == "(el < mNel[colnum])" and cfront.render(fors[1]["inner"][2]) == "(i < size_per_el)"
    chk.ob("R04.1", "string::read-loops", ok, W, "for each element, size_per_el bytes are read")
    # exactly one separator consumed per element: one fgetc at the element loop level after the byte loop
    outer = fors[0]["inner"][-1] if fors else {}
    top = [cfront.render(s) for s in outer.get("inner", []) if s.get("kind") != "ForStmt"]
    chk.ob("R04.4", "string::one-separator-consumed-per-element", top == ["(c = fgetc(mFptr))"], W, "after each string element exactly one character (delimiter or end of line) is consumed (%s)" % top)
    st = [cfront.render(x) for x in cfront.walk(fors[1]["inner"][-1]) if x.get("kind") == "BinaryOperator" and x.get("opcode") == "="] if len(fors) == 2 else []
    chk.ob("R04.1", "string::bytes-stored-unmodified", "(*buff = c)" in st, W, "the bytes read are stored as they are")


def delimiters(chk, cfun, suffix):
    wf = cfun["Records::WriteField"]
    ifs = [(cfront.render(x["inner"][0]), [cfront.render(c) for c in cfront.calls_in(x["inner"][1])]) for x in cfront.walk(cfront.body_of(wf)) if x.get("kind") == "IfStmt"]
    ifs = [(cond, [c for c in cs if c.startswith("fprintf")]) for cond, cs in ifs]
    el = [c for cond, c in ifs if cond == "(el < (nel - 1))"]
    fd = [c for cond, c in ifs if cond == "(fnum < (mNfields - 1))"]
    want = ['fprintf(mFptr, "%s", mDelim.c_str())']
    chk.ob("R04.4", "writer::delimiter-between-elements", el == [want], W, "the delimiter is written between the elements of a sub-array field, not after the last (%s)" % el)
    chk.ob("R04.4", "writer::delimiter-between-fields", fd == [want], W, "the delimiter is written between fields, not after the last (%s)" % fd)
    adv = [cfront.render(x) for x in cfront.walk(cfront.body_of(wf)) if x.get("kind") == "CompoundAssignOperator"]
    chk.ob("R04.4", "writer::cursor-advances-by-element-size", adv == ["(mData += elsize)"], W, "the data cursor advances by one element per element written (%s)" % adv)
    es = [cfront.render([c for c in x.get("inner", []) if isinstance(c, dict) and c.get("kind")][-1]) for x in cfront.walk(cfront.body_of(wf)) if x.get("kind") == "VarDecl" and x.get("name") == "elsize"]
    chk.ob("R04.4", "writer::element-size", es == ["(mSizes[fnum] / nel)"], W, "element size is field size / number of elements")
    wr = cfun["Records::WriteRows"]
    fors = [x for x in cfront.walk(cfront.body_of(wr)) if x.get("kind") == "ForStmt"]
    ok = len(fors) == 2 and cfront.render(fors[0]["inner"][2]) == "(row < mNrows)" and cfront.render(fors[1]["inner"][2]) == "(fnum < mNfields)"
    chk.ob("R04.4", "writer::all-rows-all-fields", ok, W, "every field of every row is written")
    if fors:
        top = [cfront.render(s) for s in fors[0]["inner"][-1].get("inner", []) if s.get("kind") not in ("ForStmt",)]
        chk.ob("R04.4", "writer::newline-per-row", top == ["fputc('\\n', mFptr)"], W, "one newline ends each row (%s)" % top)
    # reader for numbers
    rt = cfun["Records::read_from_text_column"]
    ccfg = cfront.CCFG(rt)
    view = ccfg.view()
    fg = [n for n in ccfg.nodes for c in cfront.node_calls(n) if cfront.callee_name(c) == "fgetc"]
    ok = len(fg) == 1 and [cfront.render(b.c) for b, lab in view.controlling_branches(fg[0]) if lab == "T"][:1] == ["mReadAsWhitespace"]
    chk.ob("R04.4", "reader::whitespace-mode-consumes-one-separator", ok, W, "in whitespace mode one separator is consumed after a number (the scan format has no suffix there)")
    disp = [(cfront.render(b.c), lab, cfront.callee_name(c)) for n in ccfg.nodes for c in cfront.node_calls(n) if cfront.callee_name(c) in ("read_ascii_bytes", "scan_column_values") for b, lab in view.controlling_branches(n)[:1]]
    chk.ob("R04.4", "reader::string-vs-number-dispatch", sorted(disp) == sorted([("(mTypeNums[colnum] == NPY_STRING)", "T", "read_ascii_bytes"), ("(mTypeNums[colnum] == NPY_STRING)", "F", "scan_column_values")]), W, "strings are read byte-wise, everything else by formatted scan (%s)" % disp)
    sc = cfun["Records::scan_column_values"]
    scans = [cfront.render(c) for c in cfront.calls_in(cfront.body_of(sc)) if cfront.callee_name(c) == "fscanf"]
    chk.ob("R04.4", "reader::scan-uses-type-format", scans == ["fscanf(mFptr, mScanFormats[type_num].c_str(), buff)"], W, "numbers are scanned with the scan format of their type into the output element (%s)" % scans)
    adv = [cfront.render(x) for x in cfront.walk(cfront.body_of(sc)) if x.get("kind") == "CompoundAssignOperator"]
    chk.ob("R04.4", "reader::cursor-advances-by-element-size", adv == ["(buff += (mSizes[fnum] / mNel[fnum]))"], W, "the output cursor advances by one element per scanned element (%s)" % adv)
    # the suffix
    txt = (suffix or "").replace(" ", "")
    has_delim = "mDelim" in txt
    chk.ob("R04.4", "reader::scan-suffix-consumes-delimiter", has_delim, W, "outside whitespace mode the scan format ends with the delimiter so that it is consumed with the number (suffix expression: %s)" % suffix)
    leading_ws = txt.startswith("(''+") or txt.startswith("''+") or "' '" in (suffix or "").split("mDelim")[0]
    chk.ob("R04.5", "reader::scan-suffix-whitespace-directive", not leading_ws, W,
           "the scan suffix is `%s`: a whitespace directive before the delimiter also consumes the end of line after the last number of a row *and* any leading "
           "blanks of the next row, so a fixed-width string field with leading spaces that starts a row is read shifted" % suffix)


def python_side(chk, repo):
    fi = repo.func("esutil.recfile.Util.Recfile.write")
    chk.analysed_unit(fi.qualname)
    cfg = cfg_of(fi)
    view = cfg.view()
    conv = [n for n in cfg.nodes for c in rules.stmts_calls(n) if call_name(c) in ("to_native_inplace", "to_native")]
    wr = [n for n in cfg.nodes for c in rules.stmts_calls(n) if call_name(c) == "Write"]
    ok = len(conv) == 1 and len(wr) == 1 and dict(rules.controlling_tests(view, conv[0])).get("self.is_ascii") == "T" and view.reaches(conv[0], wr[0])
    chk.ob("R04.3", "Recfile.write::native-order-before-text-write", ok, fi.where(), "for text files the data are converted to native order before Records::Write (and only then)")
    cp = [n for n in cfg.nodes if n.kind == "stmt" and isinstance(n.ast, ast.Assign) and isinstance(n.ast.value, ast.Call) and call_name(n.ast.value) == "copy"]
    okc = bool(cp) and bool(conv) and any(view.dominates(c, conv[0]) and dict(rules.controlling_tests(view, c)).get("self.is_ascii") == "T" for c in cp)
    chk.ob("R04.3", "Recfile.write::converts-a-copy", okc, fi.where(), "the in-place conversion is applied to a copy (the effect analysis of C15 decides that the caller's buffer is unreachable)")
    op = repo.func("esutil.recfile.Util.Recfile.open")
    cfg = cfg_of(op)
    view = cfg.view()
    st = [(norm(n.ast.value), dict(rules.controlling_tests(view, n, skip_reject_guards=True))) for n in cfg.nodes if n.kind == "stmt" and isinstance(n.ast, ast.Assign) and norm(n.ast.targets[0]) == "self.dtype"]
    ok = ("numpy.dtype(nbo)", {"self.mode[0] == 'r'": "T", "self.is_ascii": "T"}) in st and any(v == "numpy.dtype(dtype)" for v, _ in st)
    chk.ob("R04.3", "Recfile.open::reader-dtype-stripped-for-text-only", ok, op.where(), "the reader's dtype loses its byte order exactly for text files (%s)" % st)
    nbo = [norm(a.value) for a in walk_no_nested(op.node) if isinstance(a, ast.Assign) and norm(a.targets[0]) == "nbo"]
    chk.ob("R04.3", "Recfile.open::stripper", nbo == ["remove_dtype_byteorder(self.dtype)"], op.where(), "stripping uses remove_dtype_byteorder (checked by C16 R16.5)")
    asc = [(norm(n.ast.value), rules.controlling_tests(view, n)[:1]) for n in cfg.nodes if n.kind == "stmt" and isinstance(n.ast, ast.Assign) and norm(n.ast.targets[0]) == "self.is_ascii"]
    chk.ob("R04.3", "Recfile.open::text-iff-delimiter", sorted(asc) == sorted([("True", [("self.delim is not None", "T")]), ("False", [("self.delim is not None", "F")])]), op.where(), "a file is text exactly when a delimiter is given (%s)" % asc)
    mh = repo.func("esutil.sfile.SFile._make_header")
    chk.analysed_unit(mh.qualname)
    cfg = cfg_of(mh)
    view = cfg.view()
    st = {norm(n.ast.targets[0]): (norm(n.ast.value), dict(rules.controlling_tests(view, n))) for n in cfg.nodes if n.kind == "stmt" and isinstance(n.ast, ast.Assign) and norm(n.ast.targets[0]).startswith("head[")}
    chk.ob("R04.3", "SFile._make_header::delimiter-recorded", st.get("head['_DELIM']") == ("self._delim", {"self._delim is not None": "T"}), mh.where(), "_DELIM is recorded for text files")
    ds = [(norm(n.ast.value), dict(rules.controlling_tests(view, n))) for n in cfg.nodes if n.kind == "stmt" and isinstance(n.ast, ast.Assign) and norm(n.ast.targets[0]) == "descr"]
    ok = ("data.dtype.descr", {}) in ds and ("self._remove_byteorder(descr)", {"self._delim is not None": "T"}) in ds and st.get("head['_DTYPE']", ("",))[0] == "descr"
    chk.ob("R04.3", "SFile._make_header::dtype-stripped-for-text-only", ok, mh.where(), "_DTYPE is data.dtype.descr, byte-order-free exactly for text files (%s)" % ds)
    so = repo.func("esutil.sfile.SFile.open")
    env = {norm(a.targets[0]): norm(a.value) for a in walk_no_nested(so.node) if isinstance(a, ast.Assign)}
    chk.ob("R04.3", "SFile.open::delimiter-from-header-on-read", env.get("self._delim") in ("delim",) and any(norm(a.value) == "_match_key(self._hdr, '_delim')" for a in walk_no_nested(so.node) if isinstance(a, ast.Assign)), so.where(), "when reading, the delimiter comes from the stored header")
