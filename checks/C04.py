"""C04 -- delimited-text record files round-trip values and structure."""
import ast

from vcheck import cfront
from vcheck.core import PyRepo, AnalysisError, norm
from vcheck.cstr import c_string_literal, printf_directives

MANIFEST = dict(
    text="Table/format agreement plus reader/writer pairing, decided by running the C++ code of the clang AST on small shapes (not a behavioural "
         "proof of libc): the print and scan format tables are obtained by executing the table-building functions (string appends with "
         "enumerator indices, the %Ld repair, the delimiter suffix, stringstream) and checked per numpy type: print length modifier/"
         "conversion matches the C type the number writer reads from the buffer for that type, scan length modifier matches the destination "
         "element size, float precisions are >= 7 (f4) and >= 16 (f8) significant digits with g, every type of the property's list has an "
         "arm, a print and a scan format; the string writer, the string reader, WriteField, WriteRows, read_from_text_column and "
         "scan_column_values are executed with symbolic data and streams on shapes such as 3 elements of 8 bytes / 3 fields / 2 rows, every "
         "outcome of a test on data explored, and the trace of stdio calls and stores is compared with the expected one: fixed-width strings "
         "are written and read as exactly size/nel raw bytes, the delimiter stands between elements and fields and a newline ends each row, "
         "the reader consumes exactly one delimiter/EOL after each string element and the delimiter through the scan suffix (or one fgetc in "
         "whitespace mode) after each number. Python side, by path-sensitive evaluation over terms with private helpers followed: text "
         "output converts a fresh copy to native order before Write (and binary output does not), the reader dtype and the header _DTYPE are "
         "byte-order-stripped exactly for text files, _DELIM is recorded and read back from the header. A scan suffix that begins with a "
         "whitespace directive is reported as a hazard for a following fixed-width string field with leading blanks. Added: (a) every path of "
         "the float arms of the number writer is classified; the tests on the value that select a path are evaluated over the partition "
         "{NaN, -inf, negative, -0, +0, positive, +inf} of all values (IEEE-754 comparisons and arithmetic on intervals, isnan/isinf/"
         "isfinite/signbit), and a path that writes a constant text instead of handing the value to printf must be reachable by a single "
         "value only, which the text scans back to (C99 strtod grammar); (b) after the last number of a field exactly one separator is "
         "consumed, decided for {mode} x {blank / non-blank delimiter} x {separator is the delimiter / the newline ending a row} from the "
         "C99 meaning of the scan suffix's directives plus the single-character reads after the last fscanf; (c) the results of "
         "remove_dtype_byteorder and SFile._remove_byteorder cannot carry the argument's byte order: each type string (<entry>[1]) reaches "
         "the result only without its first character, a result made by newbyteorder uses a code that means native; (d) a member table that is not part of the "
         "run configuration but is filled from it where the descriptor is ingested (a cached element size) is resolved by data flow: its single "
         "element store is evaluated at the index at hand, provided every change of the tables it reads precedes that store in the same block; "
         "(e) 'the delimiter comes from the stored header' accepts _match_key as well as a lookup in a dict built from the header's entries with "
         "folded keys; (f) the single-character reads that take the separator after a number are followed over every outcome of their tests on "
         "the characters read (loops over blanks, look-ahead with ungetc; runs longer than a bound are cut and then give no verdict): on every "
         "run that some stream content <separator><bytes of a following fixed-width string, blanks included> makes possible -- decided over the "
         "whole domain of a character -- reads minus pushbacks must amount to exactly the one separator; (g) on every text path of "
         "Recfile.write the array handed to Records::Write is contiguous by construction (copy / ascontiguousarray / a tested flag), given that "
         "Records::Write takes PyArray_DATA and consults no strides; a path that knows <array>.dtype.isnative counts as native order; tests "
         "joined by and / or are decided operand by operand; (h) the layout of a row is decided on the trace of the whole writer (Records::WriteRows "
         "with every helper followed -- records of a plain struct type and work tables of them are modelled -- and only the two element writers kept as "
         "calls) on tables with fields of different shapes; the element writers are then run with the arguments their caller hands them, whatever "
         "the parameter list is; fwrite(p, a, b) writes the a*b bytes at p and memchr has its C99 meaning, one test per byte; (i) what a true test "
         "says about an array -- native order, contiguous rows -- is also derived from predicates of the repository: a summary 'a true result implies "
         "...' is computed over every path of the function (recursive predicates over the fields of a dtype by induction, all(...) over every field "
         "without a filter); (j) module-level constants bound once and named tuples made on the path are read through; whether a path opens the "
         "file for reading is decided by evaluating the path's tests on the mode over the finite set of modes; (k) a stripper may hand its work to "
         "another function of the repository, which is then judged the same way and reported under its own name; (l) R04.6: on every path of "
         "Recfile.read, recfile.read, SFile.read and sfile.read that obtains an array from the record reader (an attribute assigned from Recfile(...) / "
         "Records(...), or an object made by such a call) the returned value derives from that array, nothing is stored into it or a view of it after "
         "the read, no in-place method rewrites it and no value-changing operation (strip family, case, padding, rounding, sorting ...) lies between the "
         "reader and the caller; (m) R04.7: the function whose result Recfile.open stores as the row count adds exactly one per line of a text file on "
         "every outcome of every test on the line (len(readlines()), sum(1 for ...) without a filter are equivalent); (n) R04.8: the offset "
         "Records::read_sfile_header returns is, by abstract interpretation of the stream position over {integer, end of the END line + k, depends on the "
         "bytes read, unknown}, the end of the END line plus exactly the number of bytes SFile._write_header puts after it, so it cannot depend on what "
         "the first row begins with; (o) in the header SFile._make_header returns, after the _DTYPE entry (for a text file also the _DELIM entry) is set, "
         "no store under a key that can be that name -- the facts of the path are evaluated with the key bound to the name -- and no update() puts an "
         "entry of the caller's header= there; (p) no path of Recfile.write / SFile.write, or of a function of the repository they call on a path not known "
         "to be binary, that ends in raise is taken because of the type of a field of the property's list: the tests on <dtype>[name] / .fields[name][0] / "
         "an entry of .descr and its kind / str / char / itemsize / base ... are evaluated over the finite domain {i1..u8, f4, f8, S} x {scalar, 1-d, 2-d} "
         "x {'<', '>'} of abstract dtype records (module-level collections of literals that are never changed are read through).",
    note="Not decided: libc printf/scanf numeric round trip and libc's own spellings of NaN/inf (special values the code spells itself are decided). "
         "Assumes LP64 and that stdio calls succeed. Bounded shapes, not a proof for all sizes. The whitespace-directive hazard is a recorded known finding.",
    technique="static analysis: bounded symbolic execution of the C++ reader/writer and format-table code over the clang AST (trace comparison), "
              "printf/scanf directive parsing and type agreement, path-sensitive term evaluation of the Python wrappers",
)

CTYPE_OF = {  # printf (length, conv) -> accepted C types of the promoted-from argument
    ("hh", "d"): {"signed char", "char"}, ("hh", "u"): {"unsigned char"}, ("h", "d"): {"short"}, ("h", "u"): {"unsigned short"},
    ("", "d"): {"int"}, ("", "u"): {"unsigned int"}, ("l", "d"): {"long"}, ("l", "u"): {"unsigned long"},
    ("ll", "d"): {"long long"}, ("ll", "u"): {"unsigned long long"},
}
SCAN_SIZE = {("hh", "d"): 1, ("hh", "u"): 1, ("h", "d"): 2, ("h", "u"): 2, ("", "d"): 4, ("", "u"): 4, ("l", "d"): 8, ("l", "u"): 8,
             ("ll", "d"): 8, ("ll", "u"): 8, ("", "f"): 4, ("l", "f"): 8}
SIZEOF = {"signed char": 1, "char": 1, "unsigned char": 1, "short": 2, "unsigned short": 2, "int": 4, "unsigned int": 4, "long": 8,
          "unsigned long": 8, "long long": 8, "unsigned long long": 8, "float": 4, "double": 8}
NEEDED = {"NPY_BYTE": "i1", "NPY_UBYTE": "u1", "NPY_SHORT": "i2", "NPY_USHORT": "u2", "NPY_INT": "i4", "NPY_UINT": "u4", "NPY_LONG": "i8",
          "NPY_ULONG": "u8", "NPY_FLOAT": "f4", "NPY_DOUBLE": "f8"}
W = "esutil/recfile/records.cpp"


# rules that keep their verdict however the code is laid out: the C++ rules compare the trace of a bounded execution (calls into helpers
# followed), the Python rules compare path summaries over terms (private helpers followed); a construct neither evaluator models gives
# ok=None (no verdict), never a violation.  No rule of this check recognises its construct by statement shape any more.
SEMANTIC = ('R04.1', 'R04.2', 'R04.3', 'R04.3n', 'R04.4', 'R04.5', 'R04.6', 'R04.7', 'R04.8')


def run(chk):
    repo = PyRepo()
    chk.set_templates(repo, semantic=SEMANTIC)
    chk.explanation = MANIFEST["text"]
    chk.trusted = ["clang 14 AST", "C99 printf/scanf directive semantics", "LP64", "numpy NPY_TYPES enumerator values (cross-checked against the case labels)"]
    chk.assume("LP64: long and npy_int64 are 8 bytes")
    chk.floor = 70
    cfun = cfront.functions(cfront.load_tu("records"))
    for nm in ("Records::make_scan_formats", "Records::make_print_formats", "Records::WriteNumberAsAscii", "Records::WriteField", "Records::WriteRows",
               "Records::WriteStringAsAscii", "Records::read_ascii_bytes", "Records::scan_column_values", "Records::read_from_text_column"):
        if nm not in cfun:
            raise AnalysisError("C++ anchor %s missing" % nm)
        chk.analysed_unit(nm)
    chk.assume("stdio calls succeed while a table is read or written (no end of file, no write error, one item converted per fscanf)")
    tu = _TU(cfun)
    scan, prt, suffix = format_tables(chk, tu)
    arms = switch_arms(chk, tu)
    tables(chk, scan, prt, arms)
    strings(chk, tu)
    delimiters(chk, tu, suffix)
    engine_delimiter(chk, tu)
    python_side(chk, repo, tu)
    data_start(chk, repo, tu)
    # the converter used before a text write decides on every field with a byte order (shared rule with C16)
    from checks import C16
    C16.r16_6(chk, repo, rule="R04.3n", only="esutil.recfile.Util.to_native_inplace")
    # Check.finish lets *any* failing instance -- also one that is a recorded known finding, and R04.5 is one -- stand for "a real violation was
    # found elsewhere", which would turn every "construct not recognised" of this check into a silent pass.  Only unknown failures may do that.
    from vcheck.core import load_known
    known = {(k.get("rule"), k.get("key")) for k in load_known()["open"] if k.get("property") == chk.pid}
    if chk.only is None and chk.unrecognised and all(o["ok"] or (o["rule"], o["key"]) in known for o in chk.obl):
        u = chk.unrecognised
        raise AnalysisError("%s: %d rule instance(s) could not recognise the construct they are about (no verdict): %s"
                            % (chk.pid, len(u), "; ".join("%s %s [%s] %s" % (x["rule"], x["key"], x["where"], x["msg"][:160]) for x in u[:4])))

# ---------------------------------------------------------------------------
# bounded execution of the C++ reader / writer over the clang AST (R04.1, R04.2, R04.4, R04.5)
#
# The functions are *run* on small concrete shapes (3 elements of 8 bytes, 3 fields, 2 rows ...) with every byte of data, every
# stream and every flag that is not fixed by the configuration kept symbolic; the rules are statements about the sequence of
# stdio calls and memory stores that results (e.g. element, delimiter, element, delimiter, element -- and nothing after the
# last).  A test on symbolic data forks the run (both outcomes are explored, depth first); stdio is assumed to succeed.
# Because only the observable trace is compared, for/while, hoisted or inlined locals, swapped if/else arms, guard clauses,
# `el > 0` before vs `el < nel-1` after, fputs vs fprintf("%s"), and helpers that were extracted or inlined (calls into other
# functions of the translation unit are followed) give the same verdict.  Code the interpreter does not model -> no verdict.
# ---------------------------------------------------------------------------
NPY_TYPES = {n: i for i, n in enumerate(
    "NPY_BOOL NPY_BYTE NPY_UBYTE NPY_SHORT NPY_USHORT NPY_INT NPY_UINT NPY_LONG NPY_ULONG NPY_LONGLONG NPY_ULONGLONG NPY_FLOAT NPY_DOUBLE "
    "NPY_LONGDOUBLE NPY_CFLOAT NPY_CDOUBLE NPY_CLONGDOUBLE NPY_OBJECT NPY_STRING NPY_UNICODE NPY_VOID NPY_DATETIME NPY_TIMEDELTA NPY_HALF".split())}
_CASTS = ("ImplicitCastExpr", "ParenExpr", "CStyleCastExpr", "ConstantExpr", "ExprWithCleanups", "MaterializeTemporaryExpr", "CXXBindTemporaryExpr",
          "CXXStaticCastExpr", "CXXReinterpretCastExpr", "CXXConstCastExpr", "CXXFunctionalCastExpr")
_WRITERS = ("fputc", "putc", "fputs", "fprintf", "fwrite", "fflush", "putc_unlocked", "fputc_unlocked", "fwrite_unlocked")


class _CUnrec(Exception):
    """the code uses a construct the interpreter does not model: no verdict"""


class _Flow(Exception):
    def __init__(self, value=None):
        self.value = value


class _Break(_Flow):
    pass


class _Continue(_Flow):
    pass


class _Return(_Flow):
    pass


class _Throw(_Flow):
    pass


class _Cut(Exception):
    """a run made more tests on symbolic data than the exploration allows (a loop whose end depends on the input): the path is cut short"""


class _Ref:
    def __init__(self, loc):
        self.loc = loc


class _Vec:
    """std::vector with concrete length (the format tables); elements are values"""
    def __init__(self, items=()):
        self.items = list(items)


class _Arr:
    """a member array of the configuration: every index holds the same value unless listed"""
    def __init__(self, default, **special):
        self.default, self.special = default, {int(k[1:]): v for k, v in special.items()}

    def get(self, i):
        return self.special.get(i, self.default)


class _SymTab(_Arr):
    """a member table of texts whose length is known (what the table-building function leaves) and whose entries stay symbolic: entry i
    reads as ("idx", ("sym", name), i), the same term an unknown table gives"""
    def __init__(self, name, n):
        self.tname, self.n = name, n

    def get(self, i):
        if not 0 <= i < self.n:
            raise _CUnrec("entry %d of %s, which has %d" % (i, self.tname, self.n))
        return ("idx", ("sym", self.tname), i)


class _SStream:
    def __init__(self):
        self.value = ""


class _Obj:
    """an object of a plain record type (struct) with identity: its fields are set and read by name"""
    def __init__(self, type_=""):
        self.type, self.f = type_, {}

    def __repr__(self):
        return "<%s %s>" % (self.type or "struct", ", ".join("%s=%s" % (k, _show(v) if not isinstance(v, _Obj) else "...") for k, v in sorted(self.f.items())))


def _elem_default(vec_type):
    """a value-initialised element of std::vector<T> (None: T is not modelled)"""
    t = vec_type.replace("const ", "").replace("std::", "").strip().rstrip("&").strip()
    if not t.startswith("vector<") or not t.endswith(">"):
        return None
    el = t[len("vector<"):-1].strip()
    if "," in el and el.split(",", 1)[1].strip().startswith("allocator"):
        el = el.split(",", 1)[0].strip()
    if el in SIZEOF or el in ("bool", "size_t", "npy_intp", "long long", "unsigned long long"):
        return lambda: 0
    if el in ("string", "basic_string<char>") or el.startswith("basic_string"):
        return lambda: ""
    if el.endswith("*"):
        return lambda: 0
    if el.startswith("vector<"):
        return lambda: _Vec()
    if el.replace("::", "").replace("_", "").isalnum():
        return lambda: _Obj(el)
    return None


def _kids(n):
    return [c for c in (n.get("inner") or []) if isinstance(c, dict) and c.get("kind")]


def _qt(n):
    t = n.get("type") or {}
    return t.get("desugaredQualType") or t.get("qualType") or ""


def _ct(n):
    """the C type an lvalue is read as, qualifiers dropped"""
    return " ".join(w for w in _qt(n).split() if w not in ("const", "volatile"))


def _stride(qual):
    """size of the pointee of a pointer type (None: not a pointer, 0: a pointer this check does no arithmetic on)"""
    q = qual.replace("const ", "").replace("__restrict", "").strip()
    if not q.endswith("*"):
        return None
    p = q[:-1].strip()
    if p.endswith("*"):
        return 8
    if p == "void":
        return 1
    return SIZEOF.get(p, 0)


def _cat(a, b):
    """concatenation of two string values (python str = known text; other terms = unknown text)"""
    pa = list(a[1]) if isinstance(a, tuple) and a[0] == "cat" else [a]
    pb = list(b[1]) if isinstance(b, tuple) and b[0] == "cat" else [b]
    out = []
    for p in pa + pb:
        if isinstance(p, int):
            p = chr(p)
        if isinstance(p, str) and out and isinstance(out[-1], str):
            out[-1] += p
        elif p != "":
            out.append(p)
    if not out:
        return ""
    return out[0] if len(out) == 1 else ("cat", tuple(out))


def _aff(v):
    """(base, byte offset) of a pointer value"""
    if isinstance(v, tuple) and v[0] == "aff":
        return v[1], v[2]
    return v, 0


def _mkaff(base, off):
    return ("aff", base, off)


class _CX:
    def __init__(self, funcs, mem, opaque=(), prefix=(), cls="Records", maxsteps=20000, by_id=None, maxdec=None):
        self.funcs, self.mem, self.opaque, self.cls, self.by_id, self.maxdec = funcs, dict(mem), set(opaque), cls, by_id or {}, maxdec
        self.prefix, self.dec, self.decided = list(prefix), [], {}
        self.events, self.nret, self.steps, self.maxsteps, self.depth = [], 0, 0, maxsteps, 0
        self.followed, self.foreign = [], set()

    # -- values -----------------------------------------------------------------
    def truth(self, v):
        if isinstance(v, bool) or isinstance(v, int):
            return bool(v)
        if isinstance(v, float):
            return v != 0
        if isinstance(v, str) or (isinstance(v, tuple) and v[0] in ("aff", "fn", "cat", "this")):
            return True
        if not isinstance(v, tuple):
            raise _CUnrec("truth value of %r" % (v,))
        if (v[0] == "op" and v[1] in ("==", "!=", "<", ">", "<=", ">=")) or (v[0] == "un" and v[1] == "!"):
            return self.decide(v)
        return not self.decide(("op", "==", v, 0))          # `if (c)` and `if (c != 0)` are the same test

    def decide(self, t):
        if t[0] == "un" and t[1] == "!":
            return not self.truth(t[2])
        if t[0] == "op" and t[1] == "!=":
            return not self.decide(("op", "==", t[2], t[3]))
        if t[0] == "op" and t[1] in ("==", "<", ">", "<=", ">=") and isinstance(t[2], int) and not isinstance(t[3], int):
            t = ("op", {"==": "==", "<": ">", ">": "<", "<=": ">=", ">=": "<="}[t[1]], t[3], t[2])
        o = self.oracle(t)
        if o is not None:
            return o
        if t in self.decided:
            return self.decided[t]
        i = len(self.dec)
        if self.maxdec is not None and i >= self.maxdec:
            raise _Cut()
        r = self.prefix[i] if i < len(self.prefix) else True
        self.dec.append(r)
        self.decided[t] = r
        return r

    @staticmethod
    def oracle(t):
        """stdio succeeds: no end of file, no write error, one item converted per scan directive"""
        if t[0] == "op" and isinstance(t[2], tuple) and t[2][0] == "ret" and isinstance(t[3], int):
            f, op, c = t[2][1], t[1], t[3]
            if f in ("fgetc", "getc", "getc_unlocked") and op == "==" and c == -1:
                return False
            if f in _WRITERS and ((op == "==" and c == -1) or (op == "<" and c <= 0) or (op == "<=" and c < 0)):
                return False
            if f in ("fscanf", "sscanf") and c == 1:
                return {"==": True, "<": False, ">=": True, ">": False, "<=": True}.get(op)
            if f in ("feof", "ferror") and c == 0:
                return {"==": True, ">": False}.get(op)
        return None

    def binop(self, op, a, b, n=None):
        if isinstance(a, bool):
            a = int(a)
        if isinstance(b, bool):
            b = int(b)
        num = (int, float)
        if isinstance(a, num) and isinstance(b, num):
            if op == "/":
                if b == 0:
                    raise _CUnrec("division by zero")
                if isinstance(a, int) and isinstance(b, int):
                    q = abs(a) // abs(b)
                    return q if (a >= 0) == (b >= 0) else -q
                return a / b
            if op == "%":
                if b == 0:
                    raise _CUnrec("division by zero")
                return abs(a) % abs(b) * (1 if a >= 0 else -1)
            f = {"+": lambda: a + b, "-": lambda: a - b, "*": lambda: a * b, "<": lambda: int(a < b), ">": lambda: int(a > b), "<=": lambda: int(a <= b),
                 ">=": lambda: int(a >= b), "==": lambda: int(a == b), "!=": lambda: int(a != b), "&": lambda: a & b, "|": lambda: a | b, "^": lambda: a ^ b,
                 "<<": lambda: a << b, ">>": lambda: a >> b}.get(op)
            if f is None:
                raise _CUnrec("operator %s" % op)
            return f()
        ks = _kids(n) if n is not None else []
        lt = _stride(_qt(ks[0])) if len(ks) == 2 else None
        rt = _stride(_qt(ks[1])) if len(ks) == 2 else None
        if op in ("+", "-") and 0 in (lt, rt):
            raise _CUnrec("pointer arithmetic on %s" % _qt(ks[0 if lt == 0 else 1]))
        if op in ("+", "-") and isinstance(b, int) and isinstance(a, tuple) and (lt is not None or a[0] == "aff"):
            base, off = _aff(self.ptr(a))
            return _mkaff(base, off + (b if op == "+" else -b) * (lt or 1))
        if op == "+" and isinstance(a, int) and isinstance(b, tuple) and (rt is not None or b[0] == "aff"):
            base, off = _aff(self.ptr(b))
            return _mkaff(base, off + a * (rt or 1))
        if isinstance(a, tuple) and isinstance(b, tuple) and _aff(a)[0] == _aff(b)[0] and (a[0] == "aff" or b[0] == "aff") and op in ("-", "<", ">", "<=", ">=", "==", "!="):
            return self.binop(op, _aff(a)[1], _aff(b)[1])
        fp = any(_ct(x) in _FP_MAX for x in ks)          # x == x is not a tautology for a floating-point x (NaN)
        if op in ("==", "!=") and a == b and not (isinstance(a, tuple) and a[0] == "undef") and not (fp and isinstance(a, tuple)):
            return int(op == "==")
        if op in ("==", "!=") and ((isinstance(a, tuple) and a[0] == "aff" and b == 0) or (isinstance(b, tuple) and b[0] == "aff" and a == 0)):
            return int(op == "!=")
        if op in ("==", "!=") and isinstance(a, str) and isinstance(b, str):
            return int((a == b) == (op == "=="))
        return ("op", op, a, b)

    # -- locations -----------------------------------------------------------------
    def load(self, loc):
        k = loc[0]
        if k == "var":
            v = loc[1][loc[2]] if loc[2] in loc[1] else self.mem.get(loc[2], ("sym", loc[2]))      # not a local: a global / static member
            return self.load(v.loc) if isinstance(v, _Ref) else v
        if k == "mem":
            return self.mem.get(loc[1], ("sym", loc[1]))
        if k == "elem":
            c, i = loc[1], loc[2]
            if isinstance(c, _Vec) and isinstance(i, int) and 0 <= i < len(c.items):
                return c.items[i]
            if isinstance(c, _Arr) and isinstance(i, int):
                return c.get(i)
            if isinstance(c, str) and isinstance(i, int) and 0 <= i < len(c):
                return ord(c[i])
            if isinstance(c, (_Vec, _Arr)):
                raise _CUnrec("index %r into a table" % (i,))
            if isinstance(c, tuple) and len(c) == 2 and c[0] == "sym" and isinstance(c[1], str) and c[1] not in self.mem and isinstance(i, int):
                d = _derived_element(self, c[1], i)          # a member table filled from the tables of the configuration (a cached mSizes[i]/mNel[i] ...)
                if d is not _NODEF:
                    return d
            return ("idx", c, i)
        if k == "ptr":
            return ("load", loc[1], loc[2])
        if k == "val":
            return loc[1]
        if k == "fld":
            return loc[1].f.get(loc[2], ("undef", loc[2]))
        raise _CUnrec("load from %r" % (loc,))

    def store(self, loc, v):
        k = loc[0]
        if k == "var":
            cur = loc[1].get(loc[2])
            if isinstance(cur, _Ref):
                return self.store(cur.loc, v)
            loc[1][loc[2]] = v
        elif k == "mem":
            self.mem[loc[1]] = v
        elif k == "elem" and isinstance(loc[1], _Vec) and isinstance(loc[2], int) and 0 <= loc[2] < len(loc[1].items):
            loc[1].items[loc[2]] = v
        elif k == "ptr":
            self.events.append(("store", loc[1], v))
        elif k == "fld":
            loc[1].f[loc[2]] = v
        elif k == "elem" and not isinstance(loc[1], (_Vec, _Arr)):
            self.events.append(("store", ("idx", loc[1], loc[2]), v))
        else:
            raise _CUnrec("store to %r" % (loc,))

    def lv(self, n, env):
        k = n.get("kind")
        ks = _kids(n)
        if k in _CASTS:
            return self.lv(ks[-1] if k == "CXXFunctionalCastExpr" else ks[0], env)
        if k == "DeclRefExpr":
            rd = n.get("referencedDecl") or {}
            if rd.get("kind") in ("VarDecl", "ParmVarDecl"):
                return ("var", env, rd.get("name"))
            return ("val", self.rv(n, env))
        if k == "MemberExpr":
            if not ks or cfront.strip(ks[0]).get("kind") == "CXXThisExpr":
                return ("mem", n.get("name"))
            b = self.rv(ks[0], env)
            if n.get("isArrow") and isinstance(b, tuple) and b[0] == "aff" and b[2] == 0 and isinstance(b[1], tuple) and b[1][0] == "addrobj":
                b = b[1][1]
            if isinstance(b, _Obj):
                return ("fld", b, n.get("name"))
            return ("val", ("field", b, n.get("name")))
        if k == "UnaryOperator" and n.get("opcode") == "*":
            return ("ptr", self.ptr(self.rv(ks[0], env)), _ct(n))
        if k == "ArraySubscriptExpr":
            p, i = self.rv(ks[0], env), self.rv(ks[1], env)
            st = _stride(_qt(ks[0]))
            if st is None:
                p, i, st = i, p, _stride(_qt(ks[1]))
            if st == 0:
                raise _CUnrec("indexing a %s" % _qt(ks[0]))
            if not isinstance(i, int):
                raise _CUnrec("symbolic array index")
            base, off = _aff(self.ptr(p))
            return ("ptr", _mkaff(base, off + i * (st or 1)), _ct(n))
        if k == "CXXOperatorCallExpr" and cfront.callee_name(n) == "operator[]":
            a = cfront.call_args(n)
            c = self.rv(a[0], env)
            return ("elem", c, self.rv(a[1], env))
        if k == "CXXOperatorCallExpr" and cfront.callee_name(n) in ("operator=", "operator+=", "operator<<"):
            self.rv(n, env)
            return self.lv(cfront.call_args(n)[0], env)
        if k in ("BinaryOperator", "CompoundAssignOperator") and (n.get("opcode") == "=" or k == "CompoundAssignOperator"):
            self.rv(n, env)
            return self.lv(ks[0], env)
        if k == "UnaryOperator" and n.get("opcode") in ("++", "--") and not n.get("isPostfix"):
            self.rv(n, env)
            return self.lv(ks[0], env)
        return ("val", self.rv(n, env))

    def ptr(self, v):
        if isinstance(v, tuple) and v[0] in ("aff", "sym", "addr", "load", "idx", "ret", "field", "undef", "buf", "obj", "mcall"):
            return _mkaff(*_aff(v))
        raise _CUnrec("dereference of %r" % (v,))

    # -- expressions ---------------------------------------------------------------
    def rv(self, n, env):
        self.steps += 1
        if self.steps > self.maxsteps:
            raise _CUnrec("more than %d evaluation steps" % self.maxsteps)
        k = n.get("kind")
        ks = _kids(n)
        if k in _CASTS:
            if k == "ImplicitCastExpr" and n.get("castKind") == "LValueToRValue":
                return self.load(self.lv(ks[0], env))
            v = self.rv(ks[-1] if k == "CXXFunctionalCastExpr" else ks[0], env)
            if k == "ConstantExpr" and "value" in n and isinstance(v, int) and str(v) != str(n["value"]):
                raise AnalysisError("enumerator value %s differs from the NPY_TYPES table (%s)" % (n["value"], v))
            return v
        if k == "IntegerLiteral":
            return int(n.get("value"))
        if k == "CharacterLiteral":
            return int(n.get("value"))
        if k == "CXXBoolLiteralExpr":
            return int(bool(n.get("value")))
        if k == "FloatingLiteral":
            return float(n.get("value"))
        if k == "StringLiteral":
            return c_string_literal(n)
        if k in ("GNUNullExpr", "CXXNullPtrLiteralExpr", "ImplicitValueInitExpr", "CXXScalarValueInitExpr"):
            return 0
        if k == "CXXThisExpr":
            return ("this",)
        if k == "CXXDefaultArgExpr":
            return ("default",)
        if k == "DeclRefExpr":
            rd = n.get("referencedDecl") or {}
            if rd.get("kind") == "EnumConstantDecl":
                return NPY_TYPES.get(rd.get("name"), ("enum", rd.get("name")))
            if rd.get("kind") in ("VarDecl", "ParmVarDecl"):
                return self.load(("var", env, rd.get("name")))
            return ("fn", rd.get("name"))
        if k in ("MemberExpr", "ArraySubscriptExpr"):
            return self.load(self.lv(n, env))
        if k == "UnaryOperator":
            op = n.get("opcode")
            if op == "*":
                return self.load(self.lv(n, env))
            if op == "&":
                loc = self.lv(ks[0], env)
                if loc[0] == "ptr":
                    return loc[1]
                if loc[0] == "var":
                    return _mkaff(("addr", loc[2]), 0)
                if loc[0] == "mem":
                    return _mkaff(("addr", "this." + loc[1]), 0)
                if loc[0] == "elem" and not isinstance(loc[1], (_Vec, _Arr)):
                    return _mkaff(("addr", ("idx", loc[1], loc[2])), 0)
                raise _CUnrec("address of %r" % (loc[0],))
            if op in ("++", "--"):
                loc = self.lv(ks[0], env)
                old = self.load(loc)
                st = _stride(_qt(n))
                if st == 0:
                    raise _CUnrec("pointer arithmetic on %s" % _qt(n))
                d = 1 if op == "++" else -1
                if isinstance(old, (int, float)):
                    new = old + d
                elif st is not None or (isinstance(old, tuple) and old[0] == "aff"):
                    base, off = _aff(self.ptr(old))
                    new = _mkaff(base, off + d * (st or 1))
                else:
                    new = ("op", "+", old, d)
                self.store(loc, new)
                return old if n.get("isPostfix") else new
            v = self.rv(ks[0], env)
            if op == "!":
                return int(not self.truth(v))
            if isinstance(v, (int, float)):
                return {"-": lambda: -v, "+": lambda: v, "~": lambda: ~v}[op]()
            return ("un", op, v)
        if k == "BinaryOperator":
            op = n.get("opcode")
            if op == "=":
                loc = self.lv(ks[0], env)
                v = self.rv(ks[1], env)
                self.store(loc, v)
                return v
            if op == ",":
                self.rv(ks[0], env)
                return self.rv(ks[1], env)
            if op in ("&&", "||"):
                a = self.truth(self.rv(ks[0], env))
                if a != (op == "&&"):
                    return int(a)
                return int(self.truth(self.rv(ks[1], env)))
            return self.binop(op, self.rv(ks[0], env), self.rv(ks[1], env), n)
        if k == "CompoundAssignOperator":
            loc = self.lv(ks[0], env)
            v = self.binop(n.get("opcode")[:-1], self.load(loc), self.rv(ks[1], env), n)
            self.store(loc, v)
            return v
        if k == "ConditionalOperator":
            return self.rv(ks[1] if self.truth(self.rv(ks[0], env)) else ks[2], env)
        if k == "UnaryExprOrTypeTraitExpr":
            t = (n.get("argType") or {}).get("desugaredQualType") or (n.get("argType") or {}).get("qualType") or (_qt(ks[0]) if ks else "")
            if n.get("name") == "sizeof" and t in SIZEOF:
                return SIZEOF[t]
            raise _CUnrec("sizeof(%s)" % t)
        if k == "CXXConstructExpr":
            args = [a for a in ks if a.get("kind") != "CXXDefaultArgExpr"]
            t = _qt(n)
            if not args:
                if "stringstream" in t or "basic_string" in t or "vector<" in t:
                    return _SStream() if "stringstream" in t else ("" if "basic_string" in t else _Vec())
                return _Obj(_ct(n)) if _ct(n).replace("::", "").replace("_", "").replace("struct ", "").isalnum() else ("obj", t)
            if _ct(n).startswith(("std::vector<", "vector<")):
                # vector(n) / vector(n, value): a table of concrete length; vector(other): a copy of another table
                vals = [self.rv(a, env) for a in args]
                if len(vals) == 1 and not isinstance(vals[0], (int, float)):
                    return _Vec(vals[0].items) if isinstance(vals[0], _Vec) else vals[0]
                if isinstance(vals[0], int) and len(vals) <= 2 and 0 <= vals[0] <= 64:
                    return _Vec([vals[1] if len(vals) == 2 else ("" if "basic_string" in t or "vector<string" in t.replace("std::", "") else 0)] * vals[0])
                raise _CUnrec("construction of a %s from %s" % (t, vals))
            if len(args) == 1:
                return self.rv(args[0], env)
            return ("obj", t) + tuple(self.rv(a, env) for a in args)
        if k == "CXXThrowExpr":
            try:
                v = self.rv(ks[0], env) if ks else None
            except _CUnrec:
                v = None
            raise _Throw(v)
        if k in ("CallExpr", "CXXMemberCallExpr"):
            return self.call(n, env)
        if k == "CXXOperatorCallExpr":
            return self.opcall(n, env)
        if k == "InitListExpr" and len(ks) == 1:
            return self.rv(ks[0], env)
        raise _CUnrec("expression %s" % k)

    def opcall(self, n, env):
        op = cfront.callee_name(n)
        a = cfront.call_args(n)
        if op == "operator[]":
            return self.load(self.lv(n, env))
        if op == "operator=":
            loc = self.lv(a[0], env)
            v = self.rv(a[1], env)
            self.store(loc, _Vec(v.items) if isinstance(v, _Vec) else v)
            return v
        if op == "operator+=":
            loc = self.lv(a[0], env)
            v = _cat(self.load(loc), self.rv(a[1], env))
            self.store(loc, v)
            return v
        if op == "operator+":
            return _cat(self.rv(a[0], env), self.rv(a[1], env))
        if op in ("operator==", "operator!="):
            x, y = self.rv(a[0], env), self.rv(a[1], env)
            if isinstance(x, str) and isinstance(y, str):
                return int((x == y) == (op == "operator=="))
            if x == y:
                return int(op == "operator==")
            # texts with an unknown part: different when the known prefixes already differ
            px = x if isinstance(x, str) else (x[1][0] if isinstance(x, tuple) and x[0] == "cat" and isinstance(x[1][0], str) else "")
            py = y if isinstance(y, str) else (y[1][0] if isinstance(y, tuple) and y[0] == "cat" and isinstance(y[1][0], str) else "")
            m = min(len(px), len(py))
            if px[:m] != py[:m] or (isinstance(x, str) and len(py) > len(x)) or (isinstance(y, str) and len(px) > len(y)):
                return int(op == "operator!=")
            return ("op", "==" if op == "operator==" else "!=", x, y)
        if op == "operator<<":
            x = self.rv(a[0], env)
            y = self.rv(a[1], env)
            if isinstance(x, _SStream):
                x.value = _cat(x.value, str(y) if isinstance(y, (int, float)) and "char" not in _qt(a[1]) else y)
            return x
        raise _CUnrec("overloaded %s" % op)

    def call(self, n, env):
        ks = _kids(n)
        callee = cfront.strip(ks[0])
        name = cfront.callee_name(n)
        args = ks[1:]
        if n.get("kind") == "CXXMemberCallExpr" and callee.get("kind") == "MemberExpr":
            base = _kids(callee)
            if base and cfront.strip(base[0]).get("kind") != "CXXThisExpr":
                return self.method(name, base[0], args, env, n)
            fn = self.funcs.get("%s::%s" % (self.cls, name))
        else:
            fn = self.funcs.get(name) if name and "::" not in (name or "") else None
            if fn is not None and fn.get("kind") == "CXXMethodDecl":
                fn = None
            if fn is None and callee.get("kind") == "DeclRefExpr":
                fn = self.by_id.get((callee.get("referencedDecl") or {}).get("id"))      # a helper outside the cached dump (template instance ...)
        if name is None:
            raise _CUnrec("indirect call")
        vals = [self.rv(a, env) for a in args]
        if fn is not None and name not in self.opaque and cfront.body_of(fn) is not None:
            return self.run(fn, vals)
        if name in ("memchr", "__builtin_memchr") and fn is None and len(vals) == 3 and isinstance(vals[1], int) and isinstance(vals[2], int) and 0 <= vals[2] <= 64:
            # C99 7.21.5.1: the first of the n bytes that equals c, or a null pointer -- one test per byte, every outcome explored
            base, off = _aff(self.ptr(vals[0]))
            for i in range(vals[2]):
                if self.decide(("op", "==", ("load", _mkaff(base, off + i), "char"), vals[1])):
                    return _mkaff(base, off + i)
            return 0
        if fn is None and name not in self.opaque and name not in _LIBC and _fp_pure(name) is None and not name.startswith(("Py", "_Py", "__builtin", "operator")):
            self.foreign.add(name)          # neither the C library nor a function of the dump at hand
        return self.external(name, vals)

    def external(self, name, vals):
        self.nret += 1
        r = ("ret", name, self.nret)
        self.events.append(("call", name, tuple(vals), self.mem.get("mData", ("sym", "mData")), r))
        if name in ("fwrite", "fwrite_unlocked") and len(vals) == 4:
            return vals[2]                  # stdio succeeds: every item is written (C99 7.19.8.2: the count is returned)
        return r

    def method(self, name, base, args, env, n):
        loc = self.lv(base, env)
        o = self.load(loc)
        vals = [self.rv(a, env) for a in args if a.get("kind") != "CXXDefaultArgExpr"]
        if isinstance(o, _Vec):
            if name == "clear":
                o.items = []
                return 0
            if name == "resize" and isinstance(vals[0], int):
                fill = vals[1] if len(vals) > 1 else ""
                o.items = (o.items + [fill] * vals[0])[:vals[0]]
                return 0
            if name == "size":
                return len(o.items)
            if name == "push_back":
                o.items.append(vals[0])
                return 0
            raise _CUnrec("vector::%s" % name)
        if isinstance(o, _SymTab) and name == "size" and not vals:
            return o.n
        if isinstance(o, _SStream):
            if name == "str" and not vals:
                return o.value
            raise _CUnrec("stringstream::%s" % name)
        if name in ("c_str", "data"):
            return o
        if name in ("size", "length") and isinstance(o, str):
            return len(o)
        if name == "empty" and isinstance(o, str):
            return int(o == "")
        mk = _elem_default(_ct(base)) if name in ("resize", "assign", "clear") and loc[0] in ("var", "mem") and not isinstance(o, str) else None
        if mk is not None and (name == "clear" or (vals and isinstance(vals[0], int) and 0 <= vals[0] <= 64)):
            # a std::vector that is not part of the configuration (a per-call work table): it gets a concrete length here
            n_el = 0 if name == "clear" else vals[0]
            self.store(loc, _Vec([vals[1] if len(vals) > 1 else mk() for _ in range(n_el)]))
            return 0
        if name in ("resize", "reserve", "assign", "clear", "append", "push_back") and loc[0] in ("var", "mem"):
            if name == "clear":
                self.store(loc, "")
            elif name in ("append", "push_back"):
                self.store(loc, _cat(o, vals[0]))
            elif name != "reserve":
                self.nret += 1
                self.store(loc, ("buf", self.nret))
            return 0
        return ("mcall", name, o) + tuple(vals)

    def run(self, fn, vals):
        self.depth += 1
        if self.depth > 12:
            raise _CUnrec("call depth")
        params = [c for c in fn.get("inner", []) if c.get("kind") == "ParmVarDecl"]
        if len(params) != len(vals):
            raise _CUnrec("arity of %s" % fn.get("name"))
        env = {p.get("name"): v for p, v in zip(params, vals)}
        if fn.get("name") not in self.followed:
            self.followed.append(fn.get("name"))
        try:
            self.exec(cfront.body_of(fn), env)
            r = 0
        except _Return as e:
            r = e.value
        finally:
            self.depth -= 1
        return r

    # -- statements ------------------------------------------------------------------
    def exec(self, n, env):
        k = n.get("kind")
        ks = _kids(n)
        if k == "CompoundStmt":
            for s in ks:
                self.exec(s, env)
        elif k == "DeclStmt":
            for d in ks:
                if d.get("kind") != "VarDecl":
                    continue
                init = [c for c in _kids(d) if not c.get("kind", "").endswith("Attr")]
                q = (d.get("type") or {}).get("qualType", "")
                if init and d.get("init"):
                    if q.rstrip().endswith("&") and not q.rstrip().endswith("&&"):
                        loc = self.lv(init[-1], env)
                        env[d["name"]] = _Ref(loc) if loc[0] != "val" else loc[1]
                    else:
                        v = self.rv(init[-1], env)
                        env[d["name"]] = _Vec(v.items) if isinstance(v, _Vec) else v
                else:
                    t = _qt(d)
                    env[d["name"]] = _SStream() if "stringstream" in t else ("" if "basic_string" in t else ("undef", d["name"]))
        elif k == "IfStmt":
            if n.get("hasInit") or n.get("hasVar"):
                raise _CUnrec("if with initialiser")
            if self.truth(self.rv(ks[0], env)):
                self.exec(ks[1], env)
            elif len(ks) > 2:
                self.exec(ks[2], env)
        elif k in ("ForStmt", "WhileStmt", "DoStmt"):
            inner = n.get("inner") or []
            if k == "ForStmt":
                init, _cv, cond, inc, body = (list(inner) + [{}] * 5)[:5]
                if init and init.get("kind"):
                    self.exec(init, env)
            elif k == "WhileStmt":
                init, cond, inc, body = None, ks[0], None, ks[-1]
                if len(ks) != 2:
                    raise _CUnrec("while with a condition variable")
            else:
                init, cond, inc, body = None, ks[1], None, ks[0]
            first = k == "DoStmt"
            for it in range(400):
                if not first and cond and cond.get("kind") and not self.truth(self.rv(cond, env)):
                    break
                first = False
                try:
                    self.exec(body, env)
                except _Break:
                    break
                except _Continue:
                    pass
                if inc and inc.get("kind"):
                    self.rv(inc, env)
            else:
                raise _CUnrec("loop does not end within 400 passes on the test shape")
        elif k == "SwitchStmt":
            v = self.rv(ks[0], env)
            if not isinstance(v, int):
                raise _CUnrec("switch on a symbolic value")
            seq = []
            for s in _kids(ks[-1]):
                labels = []
                while s.get("kind") in ("CaseStmt", "DefaultStmt"):
                    labels.append(s)
                    s = _kids(s)[-1]
                seq.append((labels, s))
            start = None
            for i, (labels, s) in enumerate(seq):
                if any(l.get("kind") == "CaseStmt" and self.rv(_kids(l)[0], env) == v for l in labels):
                    start = i
                    break
            if start is None:
                for i, (labels, s) in enumerate(seq):
                    if any(l.get("kind") == "DefaultStmt" for l in labels):
                        start = i
            if start is not None:
                try:
                    for labels, s in seq[start:]:
                        self.exec(s, env)
                except _Break:
                    pass
        elif k == "BreakStmt":
            raise _Break()
        elif k == "ContinueStmt":
            raise _Continue()
        elif k == "ReturnStmt":
            raise _Return(self.rv(ks[0], env) if ks else 0)
        elif k == "NullStmt":
            pass
        elif k == "CXXTryStmt":
            self.exec(ks[0], env)
        elif k in ("GotoStmt", "LabelStmt", "CXXForRangeStmt"):
            raise _CUnrec("statement %s" % k)
        else:
            self.rv(n, env)


# ---------------------------------------------------------------------------
# member tables that are derived from the tables of the test configuration
#
# The configuration of a run fixes mSizes, mNel, mTypeNums ... (what the descriptor ingest leaves behind).  Code may keep a value
# computed from them in a further member table (`mElSizes[i] = mSizes[i]/mNel[i]` where the descriptor is ingested) and read that in
# the reader / writer.  Such a table is resolved by data flow over the whole translation unit, not by its name: the single
# element store `M[i] = E` is looked up, E may read nothing but member tables at the same index i and literals, and every
# change of a table E reads has to come before the store in the same function with no jump in between (so M is recomputed
# whenever its inputs change and cannot be stale); then M[k] is E evaluated at i = k in the configuration at hand.  Anything
# else (several stores, a store under a condition its inputs' stores are not under, an alias, an unknown use) -> no verdict.
# ---------------------------------------------------------------------------
_NODEF = object()
_MEMBER_USES = {}
_JUMPS = ("ContinueStmt", "BreakStmt", "ReturnStmt", "GotoStmt", "CXXThrowExpr")


def _is_this_member(n):
    if n.get("kind") != "MemberExpr":
        return False
    ks = _kids(n)
    return not ks or cfront.strip(ks[0]).get("kind") == "CXXThisExpr"


def _member_uses(funcs):
    """{member: [use]} for every data member named through `this` in the functions at hand; use = dict(kind=read|store|init|other, ...)"""
    hit = _MEMBER_USES.get(id(funcs))
    if hit is not None and hit[0] is funcs:
        return hit[1]
    uses, seen = {}, set()

    def climb(chain, j):
        rval = False
        while j >= 0 and chain[j].get("kind") in _CASTS:
            # read access: the value is loaded, or the lvalue is bound as const (an argument taken by const reference)
            rval = rval or chain[j].get("castKind") == "LValueToRValue" or (chain[j].get("castKind") == "NoOp" and ((chain[j].get("type") or {}).get("qualType") or "").startswith("const "))
            j -= 1
        return j, rval

    def classify(n, chain):
        j, rval = climb(chain, len(chain) - 1)
        if rval:
            return dict(kind="read")
        p = chain[j] if j >= 0 else None
        if p is None:
            return dict(kind="other", what="statement")
        if p.get("kind") == "CXXOperatorCallExpr" and cfront.callee_name(p) == "operator[]" and len(cfront.call_args(p)) == 2 and cfront.strip(cfront.call_args(p)[0]) is n:
            j2, rval2 = climb(chain, j - 1)
            if rval2:
                return dict(kind="read")
            q = chain[j2] if j2 >= 0 else None
            if q is not None and q.get("kind") == "BinaryOperator" and q.get("opcode") == "=" and cfront.strip(_kids(q)[0]) is p:
                return dict(kind="store", idx=cfront.call_args(p)[1], rhs=_kids(q)[1], stmt=q, chain=list(chain[:j2]))
            return dict(kind="other", what="element used as %s" % (q or {}).get("kind"))
        if p.get("kind") == "MemberExpr" and j >= 1 and chain[j - 1].get("kind") == "CXXMemberCallExpr":
            m = p.get("name")
            if m in ("size", "empty", "length", "c_str"):
                return dict(kind="read")
            if m in ("assign", "resize", "clear", "reserve"):
                return dict(kind="init", what=m)
            return dict(kind="other", what="." + str(m))
        return dict(kind="other", what=p.get("kind"))

    for q, fn in funcs.items():
        body = cfront.body_of(fn)
        if body is None or id(fn) in seen:
            continue
        seen.add(id(fn))
        pos, chain = [0], []

        def rec(n):
            pos[0] += 1
            if _is_this_member(n) and "function type" not in _qt(n):
                u = classify(n, chain)
                u.update(fn=fn, fname=q, pos=pos[0])
                uses.setdefault(n.get("name"), []).append(u)
            chain.append(n)
            for c in _kids(n):
                rec(c)
            chain.pop()
        rec(body)
    _MEMBER_USES.clear()
    _MEMBER_USES[id(funcs)] = (funcs, uses)
    return uses


def _index_var(n):
    n = cfront.strip(n)
    rd = n.get("referencedDecl") or {}
    return rd.get("name") if n.get("kind") == "DeclRefExpr" and rd.get("kind") in ("VarDecl", "ParmVarDecl") else None


def _derived_element(cx, name, k):
    uses = _member_uses(cx.funcs).get(name, [])
    stores = [u for u in uses if u["kind"] == "store"]
    if not stores:
        return _NODEF
    why = "member table %s is not in the test configuration and " % name
    if len(stores) != 1:
        raise _CUnrec(why + "its elements are stored at %d places" % len(stores))
    st = stores[0]
    for u in uses:
        if u["kind"] == "other" or (u["kind"] == "init" and (u["fn"] is not st["fn"] or u["pos"] > st["pos"])):
            raise _CUnrec(why + "%s uses it in a way that is not followed (%s)" % (u["fname"], u.get("what")))
    iv = _index_var(st["idx"])
    if iv is None:
        raise _CUnrec(why + "is stored at a computed index")
    reads, nmem, nsub = set(), 0, 0
    for x in cfront.walk(st["rhs"]):
        kd = x.get("kind")
        rd = x.get("referencedDecl") or {}
        if kd == "DeclRefExpr" and rd.get("kind") in ("VarDecl", "ParmVarDecl") and rd.get("name") != iv:
            raise _CUnrec(why + "its defining expression reads the local %s" % rd.get("name"))
        if kd in ("CallExpr", "CXXMemberCallExpr", "CXXConstructExpr", "UnaryExprOrTypeTraitExpr") or (kd == "CXXOperatorCallExpr" and cfront.callee_name(x) != "operator[]"):
            raise _CUnrec(why + "its defining expression contains a %s" % kd)
        if kd == "MemberExpr":
            if not _is_this_member(x):
                raise _CUnrec(why + "its defining expression reads a field of another object")
            nmem += 1
        if kd == "CXXOperatorCallExpr":
            a = cfront.call_args(x)
            if len(a) != 2 or not _is_this_member(cfront.strip(a[0])) or _index_var(a[1]) != iv:
                raise _CUnrec(why + "its defining expression indexes something else than a member table at the same index")
            nsub += 1
            reads.add(cfront.strip(a[0]).get("name"))
    if nmem != nsub or name in reads:
        raise _CUnrec(why + "its defining expression reads a member that is not a table at the same index")
    comp = next((c for c in reversed(st["chain"]) if c.get("kind") == "CompoundStmt"), None)
    if comp is None:
        raise _CUnrec(why + "its store is not a statement of a block")
    sibs = _kids(comp)
    here = next((j for j, s in enumerate(sibs) if s is st["stmt"] or any(y is st["stmt"] for y in cfront.walk(s))), None)
    if here is None or sibs[here] is not st["stmt"] and cfront.strip(sibs[here]) is not st["stmt"]:
        raise _CUnrec(why + "its store is part of a larger statement")
    all_uses = _member_uses(cx.funcs)
    for r in sorted(reads):
        for u in all_uses.get(r, []):
            if u["kind"] == "read":
                continue
            if u["kind"] == "other" or u["fn"] is not st["fn"] or u["pos"] > st["pos"]:
                raise _CUnrec(why + "%s, which it is computed from, is changed in %s where %s is not recomputed afterwards" % (r, u["fname"], name))
            if u["kind"] == "store":
                if _index_var(u["idx"]) != iv or not any(c is comp for c in u["chain"]):
                    raise _CUnrec(why + "%s, which it is computed from, is stored at another index or outside the block that computes %s" % (r, name))
                first = next(j for j, s in enumerate(sibs) if s is u["stmt"] or any(y is u["stmt"] for y in cfront.walk(s)))
                if first >= here or any(y.get("kind") in _JUMPS for s in sibs[first:here] for y in cfront.walk(s)):
                    raise _CUnrec(why + "a path stores %s without reaching the statement that computes %s" % (r, name))
    return cx.rv(st["rhs"], {iv: k})


class _Trace:
    def __init__(self, cx, end, value):
        self.events, self.end, self.value, self.mem, self.dec, self.followed = cx.events, end, value, cx.mem, list(cx.dec), cx.followed
        self.decided = dict(cx.decided)

    def calls(self, *names):
        return [e for e in self.events if e[0] == "call" and (not names or e[1] in names)]

    def stores(self):
        return [e for e in self.events if e[0] == "store"]


_FP_MAX = {"float": 3.4028234663852886e+38, "double": 1.7976931348623157e+308, "long double": 1.7976931348623157e+308}
_FP_TINY = {"float": 1e-45, "double": 5e-324, "long double": 5e-324}
# classification functions of <math.h> / <cmath> / npy_math.h: no effect, the result is a function of the argument's value class
_FP_PURE = {"isnan": "isnan", "isinf": "isinf", "isfinite": "isfinite", "finite": "isfinite", "signbit": "signbit", "fabs": "fabs", "abs": "fabs",
            "copysign": "copysign", "isinf_sign": "isinf_sign", "inf": "inf", "huge_val": "inf", "nan": "nan"}


def _fp_pure(name):
    """canonical name of a pure floating-point classification function (std::isnan, __builtin_isnanf, npy_isnan, __isinfl ...) or None"""
    n = (name or "").split("::")[-1]
    for pre in ("__builtin_", "npy_", "__"):
        if n.startswith(pre):
            n = n[len(pre):]
    if n in _FP_PURE:
        return _FP_PURE[n]
    if n[-1:] in ("f", "l") and n[:-1] in _FP_PURE:
        return _FP_PURE[n[:-1]]
    return None


_LIBC = {"isnan", "isinf", "isfinite", "finite", "signbit", "fabs", "fabsf", "copysign", "copysignf", "fgetc", "getc", "ungetc", "fputc", "putc", "fputs", "fprintf", "fscanf", "sscanf", "fwrite", "fread", "fflush", "feof", "ferror", "fseek", "ftell",
         "rewind", "snprintf", "sprintf", "printf", "strlen", "memcpy", "memset", "memmove", "memchr", "strcmp", "strncmp", "strncpy", "isspace", "malloc", "free"}


class _TU:
    """the functions of the records translation unit.  It starts from the cached dump (the Records class only, declaration ids dropped); when
    a run meets a call that leaves it -- a file-local helper, an instance of a function template: the call site names those by clang's
    declaration id only, and ids are comparable only within one clang run -- the whole TU is dumped once more, decoded declaration by
    declaration, and every function of the repository's files is taken from there, with ids (`by_id`)."""

    def __init__(self, cached):
        self.funcs, self.by_id, self.tried = cached, {}, False

    def upgrade(self):
        if self.tried:
            return False
        self.tried = True
        try:
            decls, by_id = _raw_universe()
            funcs = cfront.functions(decls)
        except (_CUnrec, AnalysisError, OSError):
            return False
        if any(k not in funcs for k in self.funcs if k.startswith("Records::")):
            return False
        self.funcs, self.by_id = funcs, by_id
        return True


def _raw_universe():
    import json
    import os
    import subprocess
    from vcheck.core import REPO
    spec = cfront.TUS["records"]
    np_inc, py_inc = cfront._py_includes()
    cmd = ["clang++", "-std=c++11", "-fsyntax-only", "-w", "-Xclang", "-ast-dump=json", "-I" + np_inc, "-I" + py_inc]
    cmd += ["-I" + os.path.join(REPO, d) for d in spec["inc"]] + [os.path.join(REPO, spec["path"])]
    pr = subprocess.run(cmd, capture_output=True, text=True)
    if pr.returncode != 0:
        raise _CUnrec("clang reported errors: %s" % pr.stderr[-300:])
    out = pr.stdout
    root = os.path.abspath(REPO)
    decls, by_id, cur = [], {}, None
    dec = json.JSONDecoder()
    try:
        i = out.index("[", out.index('"inner"')) + 1
        while True:
            while out[i] in " \n\r\t,":
                i += 1
            if out[i] == "]":
                break
            doc, i = dec.raw_decode(out, i)
            cur = cfront._loc_file(doc) or cur          # clang prints the file only where it changes
            if cur and os.path.abspath(cur).startswith(root):
                decls.append(doc)
                for x in cfront.walk(doc):
                    if x.get("kind") in cfront.FUNC_KINDS and cfront.has_body(x):
                        by_id[x.get("id")] = x
    except (ValueError, IndexError) as e:
        raise _CUnrec("clang's dump could not be decoded: %s" % e)
    return decls, by_id


def c_paths(tu, fname, args, mem, opaque=(), max_paths=400, maxdec=None):
    """every run of fname(*args) over the outcomes of the tests on symbolic data (depth first, `true` first).  With `maxdec` a run that
    makes more than that many tests is cut there (its trace ends in "cut") and the exploration goes on with the other outcomes"""
    prefix = []
    n = 0
    while n < max_paths:
        cx = _CX(tu.funcs, mem, opaque, prefix, by_id=tu.by_id, maxdec=maxdec)
        try:
            v = cx.run(tu.funcs[fname], list(args))
            tr = _Trace(cx, "return", v)
        except _Throw as e:
            tr = _Trace(cx, "throw", e.value)
        except _Cut:
            tr = _Trace(cx, "cut", None)
        except (_Break, _Continue):
            raise _CUnrec("break/continue outside a loop")
        if n == 0 and cx.foreign and tu.upgrade():
            continue                                    # the run left the cached dump: once more on the full translation unit
        n += 1
        yield tr
        dec = tr.dec
        i = len(dec) - 1
        while i >= 0 and not dec[i]:
            i -= 1
        if i < 0:
            return
        prefix = dec[:i] + [False]
    raise _CUnrec("more than %d paths" % max_paths)


_SYM = lambda n: ("sym", n)      # noqa: E731
_D, _S = NPY_TYPES["NPY_DOUBLE"], NPY_TYPES["NPY_STRING"]
_FPTR, _DATA = _mkaff(_SYM("mFptr"), 0), _mkaff(_SYM("mData"), 0)      # the open stream and the data cursor: pointers, not null


_TABLE_LEN = {}          # {member table of formats: its length}, known once the table-building functions were evaluated


def _mem(**kw):
    m = dict(mDebug=0, mBracketArrays=0, mReadAsWhitespace=0, mIgnoreNull=0, mPadNull=0, mNfields=3, mNrows=2, mFptr=_FPTR, mData=_DATA,
             mNel=_Arr(3), mSizes=_Arr(24), mTypeNums=_Arr(_D), mNdim=_Arr(0))
    for name, n in _TABLE_LEN.items():
        m[name] = _SymTab(name, n)
    m.update(kw)
    return m


def _group(chk, rule_keys, fn):
    """run fn(); when the interpreter gives up, every instance of the group is reported as not recognised"""
    try:
        return fn()
    except AnalysisError:
        raise
    except Exception as e:          # _CUnrec, or an AST shape the interpreter trips over: no verdict for this group
        for rule, key, msg in rule_keys:
            chk.ob(rule, key, None, W, "%s [bounded execution gave up: %s%s]" % (msg, "" if isinstance(e, _CUnrec) else type(e).__name__ + " ", e))
        return None


def _one(tu, fname, args, mem, opaque=()):
    trs = list(c_paths(tu, fname, args, mem, opaque, max_paths=4))
    if len(trs) != 1:
        raise _CUnrec("%s forks on symbolic data" % fname)
    return trs[0]


def _split(v):
    """(known text, unknown pieces) of a string value"""
    if isinstance(v, str):
        return v, ()
    if isinstance(v, tuple) and v[0] == "cat" and isinstance(v[1][0], str):
        return v[1][0], tuple(v[1][1:])
    return None, (v,)


def format_tables(chk, tu):
    """the scan table without the suffix, the print table ({enumerator: text}) and the suffix [blank text, pieces]"""
    keys = [("R04.1", "scan-table::evaluated", "the scan format table is evaluated"),
            ("R04.1", "print-table::starts-from-scan-table-without-delimiter", "print formats start as the scan formats without the delimiter suffix"),
            ("R04.4", "reader::scan-suffix-consumes-delimiter", "outside whitespace mode the scan format ends with the delimiter so that it is consumed with the number"),
            ("R04.5", "reader::scan-suffix-whitespace-directive", "the scan suffix has no whitespace directive before the delimiter")]

    def table(fname, args, **mem):
        v = _Vec()
        tr = _one(tu, fname, [v] + args, _mem(**mem))
        if tr.end != "return":
            raise _CUnrec("%s throws" % fname)
        return v.items

    def go():
        return (table("Records::make_scan_formats", [0]), table("Records::make_scan_formats", [1]), table("Records::make_scan_formats", [1], mReadAsWhitespace=1),
                table("Records::make_print_formats", []), table("Records::make_print_formats", [], mReadAsWhitespace=1))
    r = _group(chk, keys, go)
    if r is None:
        raise AnalysisError("the format tables could not be evaluated")
    plain, full, ws, prt, prt_ws = r
    _TABLE_LEN.clear()
    _TABLE_LEN.update({"mScanFormats": len(full), "mPrintFormats": len(prt)})          # what the constructor leaves in the members
    idx = {n: NPY_TYPES[n] for n in NEEDED}
    okt = all(len(t) > max(idx.values()) for t in (plain, full, ws, prt)) and all(isinstance(plain[i], str) for i in idx.values())
    chk.ob("R04.1", "scan-table::evaluated", okt, W, "scan table evaluated: %d entries %s" % (len(plain), {n: plain[i] for n, i in idx.items()} if okt else plain))
    if not okt:
        raise AnalysisError("the scan format table has no text for the types of the property")
    okp = all(isinstance(prt[i], str) for i in idx.values()) and prt == prt_ws
    chk.ob("R04.1", "print-table::starts-from-scan-table-without-delimiter", okp, W,
           "print formats are plain texts: no delimiter suffix, the same in whitespace mode (%s)" % {n: prt[i] for n, i in idx.items()})
    sufs = set()
    for n, i in idx.items():
        t, rest = _split(full[i])
        sufs.add((t[len(plain[i]):] if t is not None and t.startswith(plain[i]) else None, rest))
    suf = next(iter(sufs)) if len(sufs) == 1 else (None, ())
    has_delim = suf[0] is not None and suf[1] == (_SYM("mDelim"),) and all(ws[i] == plain[i] for i in idx.values())
    if not has_delim and len(sufs) == 1 and all(ws[i] == plain[i] for i in idx.values()):
        # another spelling that, by the C99 meaning of its directives, consumes the delimiter whatever character it is (e.g. %*c)
        dirs = _suffix_directives(suf)
        has_delim = dirs is not None and all(_suffix_consumes(dirs, blank, "D") == 1 for blank in (False, True))
    shown = "%r + %s" % (suf[0], " + ".join("mDelim" if p == _SYM("mDelim") else str(p) for p in suf[1])) if len(sufs) == 1 else str(sorted(sufs, key=str))
    chk.ob("R04.4", "reader::scan-suffix-consumes-delimiter", has_delim, W,
           "outside whitespace mode every scan format is the plain format followed by the delimiter, so that it is consumed with the number; in whitespace mode "
           "there is no suffix (suffix: %s)" % shown)
    leading_ws = bool(suf[0]) and suf[0][:1].isspace()
    chk.ob("R04.5", "reader::scan-suffix-whitespace-directive", not leading_ws, W,
           "the scan suffix is `%s`: a whitespace directive before the delimiter also consumes the end of line after the last number of a row *and* any leading "
           "blanks of the next row, so a fixed-width string field with leading spaces that starts a row is read shifted" % shown)
    names = {i: n for n, i in NPY_TYPES.items()}
    # the suffix of the scan formats in whitespace mode (none today), found the same way
    wsufs = set()
    for n, i in idx.items():
        t, rest = _split(ws[i])
        wsufs.add((t[len(plain[i]):] if t is not None and t.startswith(plain[i]) else None, rest))
    suffix = {"delim": suf if len(sufs) == 1 else None, "ws": next(iter(wsufs)) if len(wsufs) == 1 else None}
    return ({names[i]: v for i, v in enumerate(plain) if i in names}, {names[i]: v for i, v in enumerate(prt) if i in names}, suffix)



# ---------------------------------------------------------------------------
# value classes of a floating-point number (R04.1 ...::special-values-keep-their-identity)
#
# The property wants NaN, +inf and -inf preserved.  A writer may leave that to printf (the value is handed to the conversion of its
# type) or spell special values itself; in the second case the text it writes is a constant, so it can stand for one value only.
# Every path of the writer is taken (the interpreter forks on each test on the value), and the tests that select the path are
# evaluated over the finite partition {NaN, -inf, negative finite, -0, +0, positive finite, +inf} of ALL values of the type
# (IEEE-754 arithmetic and comparisons on intervals; what the table below does not decide is "unknown").  A path that writes a
# constant text is right only if every class that can reach it is a single value and the text scans back (C99 strtod) to that value.
# ---------------------------------------------------------------------------
_INF = float("inf")
_NAN = ("nan",)


def _iv(lo, hi, neg):
    return ("iv", lo, hi, neg)


def _fp_classes(ctype):
    m, t = _FP_MAX[ctype], _FP_TINY[ctype]
    return [("NaN", _NAN), ("-inf", _iv(-_INF, -_INF, True)), ("negative finite", _iv(-m, -t, True)), ("-0", _iv(0.0, 0.0, True)), ("+0", _iv(0.0, 0.0, False)),
            ("positive finite", _iv(t, m, False)), ("+inf", _iv(_INF, _INF, False))]


def _fp_const(x):
    if isinstance(x, bool):
        x = int(x)
    if x != x:
        return _NAN
    import math
    return _iv(float(x), float(x), math.copysign(1.0, float(x)) < 0)


def _fp_arith(op, a, b, m):
    """IEEE-754 + - * / on abstract values; None = not decided by this table"""
    if a is None or b is None:
        return None
    if a == _NAN or b == _NAN:
        return _NAN
    if op == "-":
        b = _iv(-b[2], -b[1], None if b[3] is None else not b[3])
        op = "+"
    exact = lambda v: v[1] == v[2]      # noqa: E731
    if op == "+":
        if exact(a) and exact(b) and abs(a[1]) == _INF and abs(b[1]) == _INF:
            return _NAN if a[1] != b[1] else a
        if (_INF in (abs(a[1]), abs(a[2]))) and (_INF in (abs(b[1]), abs(b[2]))):
            return None
        lo, hi = a[1] + b[1], a[2] + b[2]
        lo, hi = (-_INF if lo < -m else lo), (_INF if hi > m else hi)      # the sum of two finite numbers can overflow
        return _iv(lo, hi, a[3] if a[3] == b[3] else None)
    if op == "*":
        zero = lambda v: v[1] == 0 and v[2] == 0      # noqa: E731
        for x, y in ((a, b), (b, a)):
            if zero(x):
                if exact(y) and abs(y[1]) == _INF:
                    return _NAN
                if abs(y[1]) != _INF and abs(y[2]) != _INF:
                    return _iv(0.0, 0.0, None)
                return None
        if exact(a) and exact(b) and abs(a[1]) != _INF and abs(b[1]) != _INF and abs(a[1] * b[1]) <= m:
            return _fp_const(a[1] * b[1])
        return None
    return None


def _fp_cmp(op, a, b):
    if a is None or b is None:
        return None
    if a == _NAN or b == _NAN:
        return op == "!="
    if op == "<":
        return True if a[2] < b[1] else (False if a[1] >= b[2] else None)
    if op == "<=":
        return True if a[2] <= b[1] else (False if a[1] > b[2] else None)
    if op == ">":
        return _fp_cmp("<", b, a)
    if op == ">=":
        return _fp_cmp("<=", b, a)
    if op in ("==", "!="):
        eq = True if (a[1] == a[2] == b[1] == b[2]) else (False if (a[2] < b[1] or b[2] < a[1]) else None)
        return eq if op == "==" or eq is None else (not eq)
    return None


class _FpEval:
    """value of a term of the interpreter when the number read from the buffer belongs to one class"""

    def __init__(self, value, cls, ctype, rets):
        self.value, self.cls, self.m, self.rets = value, cls, _FP_MAX[ctype], rets

    def mentions(self, t):
        if t == self.value:
            return True
        if isinstance(t, tuple) and t and t[0] == "ret" and t in self.rets:
            return any(self.mentions(x) for x in self.rets[t][1])
        return isinstance(t, tuple) and any(self.mentions(x) for x in t[1:] if isinstance(x, tuple))

    def num(self, t):
        """abstract number, or None"""
        if t == self.value:
            return self.cls
        if isinstance(t, (int, float)):
            return _fp_const(t)
        if not isinstance(t, tuple) or not t:
            return None
        if t[0] == "un" and t[1] in ("-", "+"):
            v = self.num(t[2])
            if v is None or v == _NAN or t[1] == "+":
                return v
            return _iv(-v[2], -v[1], None if v[3] is None else not v[3])
        if t[0] == "op" and t[1] in ("+", "-", "*", "/"):
            if t[1] == "-" and t[2] == t[3]:
                v = self.num(t[2])              # x - x: 0 for a finite x, NaN otherwise
                if v is None or v == _NAN:
                    return v
                if abs(v[1]) != _INF and abs(v[2]) != _INF:
                    return _iv(0.0, 0.0, False)
                return _NAN if v[1] == v[2] else None
            return _fp_arith(t[1], self.num(t[2]), self.num(t[3]), self.m)
        if t[0] == "ret" and t in self.rets:
            f, args = self.rets[t]
            a = [self.num(x) for x in args]
            if f == "inf":
                return _iv(_INF, _INF, False)
            if f == "nan":
                return _NAN
            if f in ("fabs", "copysign") and a and a[0] is not None:
                v = a[0]
                if v != _NAN:
                    v = _iv(-v[2], -v[1], False) if v[2] <= 0 else (_iv(v[1], v[2], False) if v[1] >= 0 else _iv(0.0, max(-v[1], v[2]), False))
                if f == "fabs" or v == _NAN:
                    return v
                s = a[1] if len(a) > 1 else None
                if s is None or s == _NAN or s[3] is None:
                    return None
                return _iv(-v[2], -v[1], True) if s[3] else v
            if f == "isinf_sign" and a and a[0] is not None:
                v = a[0]
                if v == _NAN or (abs(v[1]) != _INF and abs(v[2]) != _INF):
                    return _fp_const(0)
                return _fp_const(1 if v[1] > 0 else -1) if v[1] == v[2] else None
        b = self.truth(t, _number=False)
        return None if b is None else _fp_const(int(b))

    def truth(self, t, _number=True):
        """True / False / None (not decided)"""
        if isinstance(t, (int, float)):
            return t != 0
        if not isinstance(t, tuple) or not t:
            return None
        if t[0] == "un" and t[1] == "!":
            r = self.truth(t[2])
            return None if r is None else (not r)
        if t[0] == "op" and t[1] in ("==", "!=", "<", ">", "<=", ">="):
            if t[2] == t[3]:                    # one and the same number on both sides: decided by whether it is a NaN
                v = self.num(t[2])
                return None if v is None else ((t[1] == "!=") if v == _NAN else (t[1] in ("==", "<=", ">=")))
            return _fp_cmp(t[1], self.num(t[2]), self.num(t[3]))
        if t[0] == "ret" and t in self.rets:
            f, args = self.rets[t]
            v = self.num(args[0]) if args else None
            if v is None:
                return None
            if f == "isnan":
                return v == _NAN
            if f == "isinf":
                return False if v == _NAN else (True if (v[1] == v[2] and abs(v[1]) == _INF) else (False if (abs(v[1]) != _INF and abs(v[2]) != _INF) else None))
            if f == "isfinite":
                return False if v == _NAN else (True if (abs(v[1]) != _INF and abs(v[2]) != _INF) else (False if (v[1] == v[2]) else None))
            if f == "signbit":
                return None if v == _NAN else v[3]
        if _number:
            v = self.num(t)
            return None if v is None else _fp_cmp("!=", v, _fp_const(0))
        return None


def _strtod_value(text):
    """what a C99 scanf floating conversion reads from `text` when the whole of it is the number: NaN / +-inf / a float; None: it is not
    a number in its entirety (the rest would be left in the stream)"""
    import re
    t = text.strip(_WSCH)
    m = re.fullmatch(r"([+-]?)(?:(inf(?:inity)?)|(nan(?:\([0-9A-Za-z_]*\))?)|((?:\d+\.?\d*|\.\d+)(?:[eE][+-]?\d+)?))", t, re.I)
    if not m:
        return None
    neg = m.group(1) == "-"
    if m.group(2):
        return _iv(-_INF, -_INF, True) if neg else _iv(_INF, _INF, False)
    if m.group(3):
        return _NAN
    x = float(m.group(4))
    return _fp_const(-x if neg else x)


def _const_output(c):
    """the text a stdio call writes to the open stream when that text is a constant of the source; None otherwise"""
    n, a = c[1], c[2]
    f = _FPTR
    if n == "fputs" and len(a) == 2 and a[1] == f and isinstance(a[0], str):
        return a[0]
    if n in ("fputc", "putc") and len(a) == 2 and a[1] == f and isinstance(a[0], int):
        return chr(a[0])
    if n == "fprintf" and len(a) >= 2 and a[0] == f and isinstance(a[1], str):
        if len(a) == 2 and not printf_directives(a[1])["directives"]:
            return a[1].replace("%%", "%")
        if len(a) == 3 and a[1] == "%s" and isinstance(a[2], str):
            return a[2]
        if len(a) == 3 and a[1] == "%c" and isinstance(a[2], int):
            return chr(a[2])
    if n == "fwrite" and len(a) == 4 and a[3] == f and isinstance(a[0], str) and isinstance(a[1], int) and isinstance(a[2], int) and a[1] * a[2] == len(a[0]):
        return a[0]
    return None


def _float_arm(buf, trs, names):
    """the arm of a floating-point type, every path of it: the C type read, the format entry used, and whether each value class is
    written in a way that can be read back -> dict(cast, fmt_index, unrec, special=(verdict, text))"""
    a = {"cast": [], "fmt_index": [], "unrec": None, "special": (None, "")}
    loads = set()

    def find(t):
        if isinstance(t, tuple):
            if t and t[0] == "load" and len(t) == 3 and t[1] == buf:
                loads.add(t)
            for x in t:
                find(x)
    for tr in trs:
        for e in tr.events:
            find(e)
        for t in tr.decided:
            find(t)
    if len(loads) != 1 or next(iter(loads))[2] not in _FP_MAX:
        a["unrec"] = "the arm reads the buffer as %s" % (sorted(_show(x) + ":" + str(x[2]) for x in loads) or "nothing")
        return a
    value = next(iter(loads))
    ctype = value[2]
    a["cast"] = [ctype]
    verdicts, notes, kinds = [], [], []
    for tr in trs:
        rets = {c[4]: (_fp_pure(c[1]), c[2]) for c in tr.calls() if _fp_pure(c[1])}
        out = [c for c in tr.calls() if not _fp_pure(c[1])]
        fmt_call = len(out) == 1 and out[0][1] == "fprintf" and len(out[0][2]) == 3 and out[0][2][0] == _FPTR and out[0][2][2] == value
        texts = [_const_output(c) for c in out]
        if tr.end == "return" and fmt_call:
            kind = "fmt"
            fmt = out[0][2][1]
            idx = [names.get(fmt[2], fmt[2])] if isinstance(fmt, tuple) and fmt[0] == "idx" and fmt[1] == _SYM("mPrintFormats") else [_show(fmt)]
            if a["fmt_index"] and a["fmt_index"] != idx:
                a["unrec"] = "the paths of the arm format with different entries: %s, %s" % (a["fmt_index"], idx)
            a["fmt_index"] = a["fmt_index"] or idx
        elif tr.end == "return" and out and all(t is not None for t in texts) and not tr.stores():
            kind = "text"
        elif tr.end == "throw" and not [c for c in out if c[1] in _WRITERS]:
            kind = "throw"
        else:
            kind = "other"
        kinds.append(kind)
        if kind == "fmt":
            verdicts.append(True)
            continue
        if kind == "other":
            verdicts.append(None)
            a["unrec"] = a["unrec"] or "a path of the arm makes the calls %s" % ["%s(%s)" % (c[1], ", ".join(_show(x) for x in c[2])) for c in out][:4]
            continue
        # which classes of values reach this path
        reach = []
        for cname, cls in _fp_classes(ctype):
            ev = _FpEval(value, cls, ctype, rets)
            st = "yes"
            for t, outcome in tr.decided.items():
                if not ev.mentions(t):
                    if any(isinstance(x, tuple) for x in t[2:]) and _CX.oracle(t) is None:
                        st = "maybe" if st == "yes" else st        # a test on something else selects the path, too
                    continue
                r = ev.truth(t)
                if r is None:
                    st = "maybe" if st == "yes" else st
                elif r != outcome:
                    st = "no"
                    break
            if st != "no":
                reach.append((cname, cls, st))
        tests = ", ".join("%s is %s" % (_show(t), str(r).lower()) for t, r in tr.decided.items() if _FpEval(value, _NAN, ctype, rets).mentions(t))
        if kind == "throw":
            if not tests:
                continue                       # not selected by the value (a failed stdio call ...)
            sure = [c for c, _v, st in reach if st == "yes"]
            verdicts.append(False if sure else None)
            if sure:
                notes.append("values of the class(es) %s are rejected with an exception (path: %s)" % (sure, tests))
            continue
        text = "".join(texts)
        tv = _strtod_value(text)
        for cname, cls, st in reach:
            single = cls == _NAN or cls[1] == cls[2]
            same = tv is not None and single and ((cls == _NAN) == (tv == _NAN)) and (cls == _NAN or (tv[1] == cls[1] and tv[2] == cls[2]))
            if same:
                verdicts.append(True)
            else:
                verdicts.append(False if st == "yes" else None)
                if st == "yes":
                    notes.append("the fixed text %r is written for %s values (path: %s), but it %s" % (
                        text, cname, tests or "unconditional", "is not a number for scanf" if tv is None else "reads back as %s" % ("NaN" if tv == _NAN else tv[1])))
    if "fmt" not in kinds and not a["unrec"]:
        a["unrec"] = "no path of the arm hands the value to fprintf with the format of the type"
    v = False if any(x is False for x in verdicts) else (None if (not verdicts or any(x is None for x in verdicts)) else True)
    shown = "%d path(s): %s" % (len(kinds), ", ".join(kinds))
    a["special"] = (v, shown + ("; " + "; ".join(notes[:3]) if notes else ""))
    return a


def switch_arms(chk, tu):
    """{enumerator: {'cast': [C type read from the buffer], 'fmt_index': [enumerator of the format entry]}} from running the number writer once per type"""
    names = {i: n for n, i in NPY_TYPES.items()}
    entry = "Records::WriteNumberAsAscii"
    nparams = len([c for c in tu.funcs[entry].get("inner", []) if c.get("kind") == "ParmVarDecl"])

    def call_of(typ):
        """(buffer, arguments): how the writer calls the number writer for an element of this type -- taken from the caller (a table with
        one field of one element of the type), so that a changed parameter list (a format pointer handed in ...) is followed; the
        historical (buffer, type) when the caller cannot be followed"""
        args = _leaf_args(tu, "WriteNumberAsAscii", typ, 1, 8)
        if args is not None and len(args) == nparams:
            return _DATA, args
        b = _mkaff(_SYM("buffer"), 0)
        return b, [b, typ]
    arms, followed = {}, []
    for name in NEEDED:
        try:
            buf, args = call_of(NPY_TYPES[name])
            trs = list(c_paths(tu, entry, args, _mem(mTypeNums=_Arr(NPY_TYPES[name]), mNel=_Arr(1), mSizes=_Arr(8)), max_paths=64 if NEEDED[name].startswith("f") else 8))
        except AnalysisError:
            raise
        except Exception as e:
            arms[name] = {"cast": [], "fmt_index": [], "unrec": "bounded execution gave up: %s" % e}
            continue
        every = trs
        trs = [t for t in trs if t.end == "return"]
        if not trs:
            continue                    # no arm: the type falls through to the part that raises
        pr = [t.calls() for t in trs]
        followed += [f for t in trs for f in t.followed if f not in followed]
        if NEEDED[name].startswith("f"):
            try:
                arms[name] = _float_arm(buf, every, names)
            except AnalysisError:
                raise
            except Exception as e:
                arms[name] = {"cast": [], "fmt_index": [], "unrec": "the paths of the arm could not be classified: %s %s" % (type(e).__name__, e)}
            continue
        a = {"cast": [], "fmt_index": [], "unrec": None}
        if len(trs) != 1 or len(pr[0]) != 1 or pr[0][0][1] != "fprintf" or len(pr[0][0][2]) != 3:
            a["unrec"] = "the arm does not make exactly one fprintf call with one value: %s" % [[c[1] for c in p] for p in pr]
        else:
            f, fmt, val = pr[0][0][2]
            if isinstance(val, tuple) and val[0] == "load" and val[1] == buf:
                a["cast"] = [val[2]]
            else:
                a["unrec"] = "the value printed is %s" % _show(val)
            if isinstance(fmt, tuple) and fmt[0] == "idx" and fmt[1] == _SYM("mPrintFormats"):
                a["fmt_index"] = [names.get(fmt[2], fmt[2])]
        arms[name] = a
    for f in followed:
        chk.analysed_unit("Records::" + f if "Records::" + f in tu.funcs else f)

    def bogus():
        buf, args = call_of(99)
        trs = list(c_paths(tu, entry, args, _mem(mTypeNums=_Arr(99), mNel=_Arr(1), mSizes=_Arr(8)), max_paths=8))
        return all(t.end == "throw" and not t.calls(*_WRITERS) for t in trs)
    r = _group(chk, [("R04.2", "switch::unsupported-type-raises", "a type without an arm raises instead of writing garbage")], bogus)
    if r is not None:
        chk.ob("R04.2", "switch::unsupported-type-raises", r, W, "a type without an arm raises instead of writing garbage")
    return arms


def tables(chk, scan, prt, arms):
    for idx, code in NEEDED.items():
        tag = "%s(%s)" % (code, idx)
        # coverage
        have = idx in arms and isinstance(prt.get(idx), str) and isinstance(scan.get(idx), str)
        chk.ob("R04.2", tag + "::has-arm-print-scan", have, W, "type %s has a switch arm, a print and a scan format (print %r, scan %r)" % (code, prt.get(idx), scan.get(idx)))
        if not have:
            for k in ("single-directive", "print-matches-dereferenced-type", "scan-writes-field-size", "scan-not-suppressed"):
                chk.ob("R04.1", tag + "::" + k, None, W, "not evaluated: type %s has no arm or no print / scan format text" % code)
            continue
        arm = arms[idx]
        un = arm.get("unrec")
        chk.ob("R04.2", tag + "::arm-uses-own-format", (arm["fmt_index"] == [idx]) if (arm["fmt_index"] or not un) else None, W,
               "the arm formats with the table entry of its own type (%s)" % (arm["fmt_index"] or un))
        pd = printf_directives(prt[idx])
        sd = printf_directives(scan[idx])
        ok1 = len(pd["directives"]) == 1 and pd["literal_prefix"] == "" and pd["suffix"] == ""
        ok2 = len(sd["directives"]) == 1 and sd["literal_prefix"] == "" and sd["suffix"] == ""
        chk.ob("R04.1", tag + "::single-directive", ok1 and ok2, W, "print %r and scan %r consist of exactly one conversion" % (prt[idx], scan[idx]))
        if not (ok1 and ok2):
            continue
        p, s = pd["directives"][0], sd["directives"][0]
        ctype = arm["cast"][0] if arm["cast"] else None
        known = ctype is not None or not un          # False: the arm was not recognised, no verdict on what it dereferences
        if code.startswith(("i", "u")):
            okp = ctype in CTYPE_OF.get((p["length"], p["conv"]), set())
            chk.ob("R04.1", tag + "::print-matches-dereferenced-type", okp if known else None, W,
                   "print %r formats a %s (the arm dereferences %s)" % (prt[idx], sorted(CTYPE_OF.get((p["length"], p["conv"]), [])), ctype or un))
            chk.ob("R04.1", tag + "::cast-size-matches-field", (SIZEOF.get(ctype) == int(code[1])) if known else None, W,
                   "the arm reads %s bytes (%s) for a %s field" % (SIZEOF.get(ctype), ctype or un, code))
            chk.ob("R04.1", tag + "::signedness", (p["conv"] == "d") == code.startswith("i") and (s["conv"] == "d") == code.startswith("i"), W, "signed types use d, unsigned u (print %s, scan %s)" % (p["conv"], s["conv"]))
            chk.ob("R04.1", tag + "::no-width-or-precision", p["width"] is None and p["prec"] is None and s["width"] is None, W, "integers are written in full and scanned without a width limit")
        else:
            okf = p["conv"] in "gGe" and p["length"] in ("", "l")
            okp = okf and ctype == ("float" if code == "f4" else "double")
            chk.ob("R04.1", tag + "::print-matches-dereferenced-type", okp if (known or not okf) else None, W, "print %r formats a %s (promoted to double)" % (prt[idx], ctype or un))
            sv, stext = arm.get("special", (None, un or ""))
            chk.ob("R04.1", tag + "::special-values-keep-their-identity", sv, W,
                   "every value either goes to the printf conversion of its type or is written as a fixed text that belongs to exactly that value and that scanf "
                   "reads back as it: NaN, +inf and -inf are not merged with each other or with finite values (Records::WriteNumberAsAscii, %s)" % stext)
            need = 7 if code == "f4" else 16
            chk.ob("R04.1", tag + "::significant-digits", p["prec"] is not None and p["prec"] >= need, W, "%s significant digits requested, >= %d needed for %s" % (p["prec"], need, code))
        okz = SCAN_SIZE.get((s["length"], s["conv"])) == int(code[1])
        chk.ob("R04.1", tag + "::scan-writes-field-size", okz, W, "scan %r stores %s bytes into a %s-byte element" % (scan[idx], SCAN_SIZE.get((s["length"], s["conv"])), code[1]))
        chk.ob("R04.1", tag + "::scan-not-suppressed", not s["suppress"], W, "the scan conversion assigns (no *)")
    chk.ob("R04.2", "NPY_STRING::print-format", prt.get("NPY_STRING") == "%s", W, "strings have a print format entry (they are written byte-wise by WriteStringAsAscii)")


def _all(vs):
    vs = list(vs)
    return bool(vs) and all(vs)


def _bytes_out(calls):
    """the bytes a sequence of stdio calls puts on the open stream, one value per byte: fputc / putc give their argument, fwrite(p, a, b)
    with known a and b gives the a*b bytes at p, p+1, ... as they are.  None: a call whose output is not known byte by byte (fputs and
    %s stop at a NUL byte: they do not write a fixed width)"""
    out = []
    for c in calls:
        n, a = c[1], c[2]
        if n in ("fputc", "putc", "putc_unlocked", "fputc_unlocked") and len(a) == 2 and a[1] == _FPTR:
            out.append(a[0])
        elif n == "fprintf" and len(a) == 3 and a[0] == _FPTR and a[1] == "%c":
            out.append(a[2])
        elif n in ("fwrite", "fwrite_unlocked") and len(a) == 4 and a[3] == _FPTR and isinstance(a[1], int) and isinstance(a[2], int) and 0 <= a[1] * a[2] <= 4096 \
                and isinstance(a[0], tuple) and a[0][0] == "aff":
            base, off = _aff(a[0])
            out += [("load", _mkaff(base, off + i), "char") for i in range(a[1] * a[2])]
        else:
            return None
    return out


def strings(chk, tu):
    # ---- writer: run on two shapes (12 bytes / 4 elements = 3 per element, 10 / 2 = 5) with the NUL flags off and on
    wkeys = [("R04.1", "string::written-width", "each string element is written as size/nel bytes"),
             ("R04.1", "string::writes-every-byte", "one byte is written per position i < slen"),
             ("R04.1", "string::early-stop-only-with-ignorenull", "the byte loop stops early only under the opt-in ignorenull flag"),
             ("R04.1", "string::bytes-altered-only-with-padnull", "a byte is replaced only under the opt-in padnull flag")]
    data = _SYM("mData")
    nparams = len([c for c in tu.funcs["Records::WriteStringAsAscii"].get("inner", []) if c.get("kind") == "ParmVarDecl"])

    def writer():
        res = {}
        for size, nel in ((12, 4), (10, 2)):
            for ign in (0, 1):
                for pad in (0, 1):
                    runs = []
                    # how the writer calls the byte writer for the first element of a string field of this shape (the field number, or the
                    # cursor and the width ...): taken from the caller; the historical (field number) when the caller cannot be followed
                    args = _leaf_args(tu, "WriteStringAsAscii", _S, nel, size, mIgnoreNull=ign, mPadNull=pad)
                    if args is None or len(args) != nparams:
                        args = [1]
                    for tr in c_paths(tu, "Records::WriteStringAsAscii", args, _mem(mSizes=_Arr(size), mNel=_Arr(nel), mTypeNums=_Arr(_S), mIgnoreNull=ign, mPadNull=pad), max_paths=300):
                        if tr.end != "return":
                            continue
                        out = tr.calls(*_WRITERS)
                        bts = _bytes_out(out)
                        if bts is None or tr.stores() or tr.calls() != out:
                            raise _CUnrec("the string writer does something else than writing bytes with fputc / fwrite: %s" % sorted({c[1] for c in tr.calls()}))
                        runs.append((bts, tr))
                        if not ign and len(bts) != size // nel:
                            break               # one run of the wrong width decides; the other outcomes of the data tests need not be enumerated
                    res[(size // nel, ign, pad)] = runs
        return res
    res = _group(chk, wkeys, writer)
    if res is not None:
        byte = lambda i: ("load", _mkaff(data, i), "char")      # noqa: E731
        nul = lambda tr, i: tr.decided.get(("op", "==", byte(i), 0))      # noqa: E731
        full = {k: _all(len(b) == k[0] for b, tr in runs) for k, runs in res.items()}
        widths = sorted({len(b) for k, runs in res.items() if not k[1] for b, tr in runs})
        chk.ob("R04.1", "string::written-width", _all(v for k, v in full.items() if not k[1]), W,
               "each string element is written as size/nel bytes (bytes written on the shapes 12/4 and 10/2: %s)" % widths)
        inorder = _all(all(v in (byte(i), 32) for i, v in enumerate(b)) for k, runs in res.items() for b, tr in runs)
        chk.ob("R04.1", "string::writes-every-byte", inorder and _all(v for k, v in full.items() if not k[1]), W, "the i-th byte written is the i-th byte of the element, for every i < size/nel")
        # with ignorenull the output may stop, but only at a NUL byte
        stops = _all(len(b) == k[0] or nul(tr, len(b)) is True for k, runs in res.items() if k[1] for b, tr in runs)
        chk.ob("R04.1", "string::early-stop-only-with-ignorenull", _all(v for k, v in full.items() if not k[1]) and stops, W,
               "the byte loop stops early only under the opt-in ignorenull flag, and then only at a NUL byte")
        plain = _all(all(v == byte(i) for i, v in enumerate(b)) for k, runs in res.items() if not k[2] for b, tr in runs)
        padded = _all(all(v == byte(i) or (v == 32 and nul(tr, i) is True) for i, v in enumerate(b)) for k, runs in res.items() if k[2] for b, tr in runs)
        chk.ob("R04.1", "string::bytes-altered-only-with-padnull", plain and padded, W, "a byte is replaced (by a blank) only under the opt-in padnull flag, and then only a NUL byte")
    # ---- reader
    rkeys = [("R04.1", "string::read-width-equals-written-width", "each string element is read as size/nel raw bytes: the same width as the writer"),
             ("R04.1", "string::read-loops", "for each element, size_per_el bytes are read"),
             ("R04.4", "string::one-separator-consumed-per-element", "after each string element exactly one character (delimiter or end of line) is consumed"),
             ("R04.1", "string::bytes-stored-unmodified", "the bytes read are stored as they are")]
    buf = _SYM("buff")

    def reader():
        out = []
        for size, nel in ((12, 4), (10, 2)):
            for tr in c_paths(tu, "Records::read_ascii_bytes", [1, _mkaff(buf, 0)], _mem(mSizes=_Arr(size), mNel=_Arr(nel)), max_paths=60):
                if tr.end != "return":
                    continue                # a path that raises returns no data
                if any(c[1] not in ("fgetc", "getc") for c in tr.calls()):
                    raise _CUnrec("the string reader calls %s" % sorted({c[1] for c in tr.calls()}))
                out.append((size, nel, tr))
                if len(out) >= 40:
                    return out
        return out
    res = _group(chk, rkeys, reader)
    if res is None:
        return
    v_width, v_loops, v_sep, v_raw, notes = [], [], [], [], []
    for size, nel, tr in res:
        spe = size // nel
        stores = [(_aff(e[1]), e[2]) for e in tr.stores()]
        offs = [o if b == buf else None for (b, o), v in stores]
        # per character read: how often it was stored before the next one was read; a store must write the character read last
        reads, raw, last = [], True, None
        for e in tr.events:
            if e[0] == "call":
                reads.append(0)
                last = e[4]
            elif e[0] == "store":
                raw = raw and e[2] == last and bool(reads) and reads[-1] == 0
                if reads:
                    reads[-1] += 1
        segs, cur = [], 0                                                    # characters kept between two dropped ones
        for r in reads:
            if r:
                cur += 1
            else:
                segs.append(cur)
                cur = 0
        v_loops.append(offs == list(range(size)))
        v_width.append(segs == [spe] * nel and cur == 0)
        v_sep.append(len(segs) == nel and cur == 0 and len(reads) == nel * (spe + 1))
        v_raw.append(raw)
        if not (v_loops[-1] and v_width[-1] and v_sep[-1] and v_raw[-1]):
            notes.append("shape %d/%d, data tests %s: stored at offsets %s, characters kept between dropped ones %s (+%d), %d read"
                         % (size, nel, [(_show(t), r) for t, r in tr.decided.items()][:3], offs[:14], segs, cur, len(reads)))
    extra = (" (%s)" % "; ".join(notes[:2])) if notes else ""
    chk.ob("R04.1", "string::read-width-equals-written-width", _all(v_width), W, "each string element is read as size/nel raw bytes, the width the writer uses" + extra)
    chk.ob("R04.1", "string::read-loops", _all(v_loops), W, "for each element, size/nel bytes are read into consecutive positions of the output" + extra)
    chk.ob("R04.4", "string::one-separator-consumed-per-element", _all(v_sep), W, "after each string element exactly one character (delimiter or end of line) is consumed" + extra)
    chk.ob("R04.1", "string::bytes-stored-unmodified", _all(v_raw), W, "the bytes read are stored as they are" + extra)


def _show(t):
    if isinstance(t, tuple):
        if t[0] == "op":
            return "%s %s %s" % (_show(t[2]), t[1], _show(t[3]))
        if t[0] == "aff":
            return "%s+%d" % (_show(t[1]), t[2])
        if t[0] in ("sym", "addr"):
            return str(t[1])
        if t[0] == "load":
            return "*(%s)" % _show(t[1])
        if t[0] == "ret":
            return "%s#%d" % (t[1], t[2])
        if t[0] == "idx":
            return "%s[%s]" % (_show(t[1]), _show(t[2]))
        return "%s(%s)" % (t[0], ", ".join(_show(x) for x in t[1:]))
    return repr(t) if isinstance(t, str) else str(t)

def _is_delim_out(c):
    """a stdio call that writes exactly the delimiter string"""
    d, f = _SYM("mDelim"), _FPTR
    n, a = c[1], c[2]
    size = (("mcall", "size", d), ("mcall", "length", d))
    return (n == "fprintf" and a == (f, "%s", d)) or (n == "fputs" and a == (d, f)) or (n in ("fputc", "putc") and a == (("idx", d, 0), f)) or \
        (n == "fwrite" and len(a) == 4 and a[0] == d and a[3] == f and ((a[1] == 1 and a[2] in size) or (a[2] == 1 and a[1] in size)))


def _is_newline_out(c):
    f = _FPTR
    n, a = c[1], c[2]
    return (n in ("fputc", "putc") and a == (10, f)) or (n == "fputs" and a == ("\n", f)) or (n == "fprintf" and a in ((f, "\n"), (f, "%c", 10), (f, "%s", "\n")))


_LEAVES = ("WriteStringAsAscii", "WriteNumberAsAscii")          # the element writers (anchors of this check): one call writes one element


def _shape_mem(nrows, fields, **kw):
    """the configuration of a table with the given fields [(elements, bytes, type number)]"""
    def arr(i):
        return _Arr(fields[0][i], **{"i%d" % f: fld[i] for f, fld in enumerate(fields) if f})
    return _mem(mNrows=nrows, mNfields=len(fields), mNel=arr(0), mSizes=arr(1), mTypeNums=arr(2), **kw)


def _writer_tokens(tu, nrows, fields, **kw):
    """the whole text writer (Records::WriteRows, every helper followed, the two element writers kept as calls) on one table shape:
    the sequence of E (an element writer is called: kind, data cursor at the call, arguments), D (the delimiter is written) and
    N (a newline is written), and where the data cursor ends"""
    tr = _one(tu, "Records::WriteRows", [], _shape_mem(nrows, fields, **kw), opaque=_LEAVES)
    if tr.end != "return" or tr.stores():
        raise _CUnrec("WriteRows throws or stores on the test shape")
    toks = []
    for c in tr.calls():
        if c[1] in _LEAVES:
            toks.append(("E", "str" if c[1] == _LEAVES[0] else "num", _aff(c[3]), c[2]))
        elif _is_delim_out(c):
            toks.append(("D",))
        elif _is_newline_out(c):
            toks.append(("N",))
        else:
            raise _CUnrec("the row writer calls %s(%s), which is neither an element writer nor an output of the delimiter / the newline" % (c[1], ", ".join(_show(a) for a in c[2])))
    return toks, _aff(tr.mem.get("mData"))


def _leaf_args(tu, leaf, typ, nel, size, **kw):
    """the arguments the writer hands to an element writer for the first element of a table with one field of the given shape (how the
    function is called is taken from its caller, not from its parameter list); None when that cannot be followed"""
    try:
        toks, _end = _writer_tokens(tu, 1, [(nel, size, typ)], **kw)
    except AnalysisError:
        raise
    except Exception:
        return None
    first = next((t for t in toks if t[0] == "E"), None)
    if first is None or first[1] != ("str" if leaf == _LEAVES[0] else "num") or first[2] != (_SYM("mData"), 0):
        return None
    if any(isinstance(a, _Obj) for a in first[3]):
        return None
    return list(first[3])


_WHOLE_SHAPES = ((2, ((3, 24, _D), (1, 8, _S), (2, 12, _S))), (3, ((4, 12, _S),)), (1, ((1, 5, _S), (1, 8, _D))), (2, ((2, 4, NPY_TYPES["NPY_SHORT"]), (1, 8, _D), (3, 24, _D))))


def _whole_writer(tu):
    """the seven statements about the layout of a row, decided on the trace of the whole writer: {key: (verdict, note)}"""
    data = _SYM("mData")
    v = {k: [] for k in ("el", "fd", "cur", "sz", "disp", "all", "nl")}
    notes = []
    for nrows, fields in _WHOLE_SHAPES:
        toks, end = _writer_tokens(tu, nrows, list(fields))
        rowsize = sum(f[1] for f in fields)
        exp = []
        for r in range(nrows):
            off = r * rowsize
            for f, (nel, size, typ) in enumerate(fields):
                for e in range(nel):
                    exp.append((r, f, e, off + e * (size // nel), typ, size // nel))
                off += size
        es = [t for t in toks if t[0] == "E"]
        kinds = "".join(t[0] for t in toks)
        shown = "%d row(s) of fields %s: output %s" % (nrows, ["%dx%d bytes %s" % (n, s // n, "string" if t == _S else "number") for n, s, t in fields], kinds)
        if len(es) != len(exp):
            v["all"].append(False)
            for k in ("el", "fd", "cur", "sz", "disp", "nl"):
                v[k].append(None)
            notes.append(shown + ": %d elements written, the table has %d" % (len(es), len(exp)))
            continue
        gaps, cur = [], ""
        for t in toks:
            if t[0] == "E":
                gaps.append(cur)
                cur = ""
            else:
                cur += t[0]
        head, gaps, tail = gaps[0], gaps[1:] + [cur], None
        ok = {k: True for k in v}
        ok["fd"] = head == ""
        for i, (a, g) in enumerate(zip(exp, gaps)):
            b = exp[i + 1] if i + 1 < len(exp) else None
            if b is not None and b[0] == a[0] and b[1] == a[1]:
                ok["el"] = ok["el"] and g == "D"                     # next element of the same field
            elif b is not None and b[0] == a[0]:
                ok["fd"] = ok["fd"] and g == "D"                     # first element of the next field
            else:
                ok["nl"] = ok["nl"] and g.count("N") == 1 and g.endswith("N")          # the row ends
                ok["fd"] = ok["fd"] and "D" not in g
        for (r, f, e, off, typ, elsize), t in zip(exp, es):
            ptrs = [_aff(a) for a in t[3] if isinstance(a, tuple) and a[0] == "aff" and _aff(a)[0] == data]
            ints = [a for a in t[3] if isinstance(a, int) and not isinstance(a, bool)]
            fmts = [a[2] for a in t[3] if isinstance(a, tuple) and a[0] == "idx" and a[1] == _SYM("mPrintFormats")]
            ok["all"] = ok["all"] and t[2] == (data, off)
            ok["cur"] = ok["cur"] and t[2] == (data, off) and all(p == (data, off) for p in ptrs)
            ok["sz"] = ok["sz"] and t[2][1] - (r * rowsize + sum(x[1] for x in fields[:f])) == e * elsize
            if typ == _S:
                d = t[1] == "str" and (all(a in (f, elsize) for a in ints) if ptrs else ints == [f])
                d = d if d or t[1] != "str" else None               # a byte writer called in a way this rule does not know
            else:
                d = t[1] == "num" and typ in ints and all(x == typ for x in fmts)
            ok["disp"] = d if ok["disp"] is True or d is False else ok["disp"]
        ok["cur"] = ok["cur"] and end == (data, nrows * rowsize)
        for k in v:
            v[k].append(ok[k])
        if not all(ok.values()):
            notes.append(shown + ", elements at offsets %s, cursor ends at +%s" % ([t[2][1] for t in es][:12], end[1]))
    extra = (" (%s)" % "; ".join(notes[:2])) if notes else ""
    return {k: (_verdict(x), extra) for k, x in v.items()}


def delimiters(chk, tu, suffix=None):
    data, fptr = _SYM("mData"), _FPTR
    whole = why_not = None
    try:
        whole = _whole_writer(tu)
    except AnalysisError:
        raise
    except Exception as e:          # the interpreter gave up on the whole writer: the functions are looked at one by one below
        why_not = "%s%s" % ("" if isinstance(e, _CUnrec) else type(e).__name__ + " ", e)
    if whole is not None:
        shapes = "on tables of %s" % "; ".join("%d row(s) x %s" % (n, "+".join("%dx%d" % (a, b // a) for a, b, _t in f)) for n, f in _WHOLE_SHAPES)
        for key, k, msg in (("writer::delimiter-between-elements", "el", "the delimiter is written between the elements of a sub-array field, not before the first or after the last"),
                            ("writer::delimiter-between-fields", "fd", "the delimiter is written between fields, not before the first or after the last"),
                            ("writer::cursor-advances-by-element-size", "cur", "the data cursor advances by one element per element written"),
                            ("writer::element-size", "sz", "element size is field size / number of elements"),
                            ("writer::string-vs-number-dispatch", "disp", "string elements go to the byte writer, all others to the formatted writer of their type"),
                            ("writer::all-rows-all-fields", "all", "every element of every field of every row is written, in order"),
                            ("writer::newline-per-row", "nl", "one newline ends each row")):
            chk.ob("R04.4", key, whole[k][0], W, "%s [the whole row writer, Records::WriteRows with its helpers followed, %s]%s" % (msg, shapes, whole[k][1]))
    else:
        _delimiters_by_function(chk, tu, why_not)
    _delimiters_reader(chk, tu, suffix)


def engine_delimiter(chk, tu):
    """The C++ half of "for every single-character delimiter": the engine keeps the delimiter string it is given, character for
    character (process_delim, for a symbolic string -- so for every delimiter), and a file with any delimiter of the property is a
    text file while the empty delimiter means binary (set_file_type, constant evaluation of its test for each delimiter of the finite
    domain).  Functions are found by what they do to the members mDelim / mFileType; when they are not there under these names or
    fork in a way that is not modelled: no verdict."""
    keys = [("R04.4", "engine::delimiter-taken-unchanged", "the engine's delimiter (mDelim) is the string it was given, unchanged"),
            ("R04.4", "engine::text-for-every-delimiter", "every single-character delimiter of the property makes the file a text file (mFileType), the empty one a binary file")]

    def go():
        obj = _SYM("delim_obj")
        vs, notes = [], []
        if "Records::process_delim" not in tu.funcs:
            vs.append(None)
            notes.append("no Records::process_delim")
        else:
            for br in (0, 1):
                trs = list(c_paths(tu, "Records::process_delim", [obj], _mem(mBracketArrays=br, mDelim=_SYM("mDelim0"), mArrayDelim=_SYM("mArrayDelim0"),
                                                                              mReadAsWhitespace=_SYM("ws0")),
                                   opaque=("is_python_string", "get_object_as_string"), max_paths=64))
                seen = False
                for tr in trs:
                    made = [c for c in tr.calls() if obj in c[2]]
                    if tr.end != "return" or not made:
                        continue                    # no delimiter object / None (binary), or refused
                    got = tr.mem.get("mDelim")
                    texts = [c[4] for c in made if "string" in c[1] and "is_" not in c[1]]
                    if not texts:
                        vs.append(None)
                        notes.append("the delimiter object goes through %s: not recognised as its text" % sorted({c[1] for c in made}))
                    elif any(got == t for t in texts):
                        vs.append(True)
                        seen = True
                    elif isinstance(got, str) or (isinstance(got, tuple) and got and got[0] == "cat") or got == _SYM("mDelim0"):
                        vs.append(False)
                        notes.insert(0, "with a delimiter string given, mDelim ends as %s instead of the text of the object (%s)" % (_show(got), made[-1][1]))
                    else:
                        vs.append(None)
                        notes.append("mDelim ends as %s" % (_show(got),))
                if not seen:
                    vs.append(None)
        chk.ob("R04.4", keys[0][1], _verdict(vs), W, keys[0][2] + ((" (%s)" % "; ".join(notes[:3])) if notes else ""))

    def go2():
        vs, notes = [], []
        if "Records::set_file_type" not in tu.funcs:
            vs.append(None)
            notes.append("no Records::set_file_type")
        else:
            kind = {}
            for d in _DELIMS + ("",):
                tr = _one(tu, "Records::set_file_type", [], _mem(mDelim=d, mFileType=_SYM("mFileType0")))
                kind[d] = tr.mem.get("mFileType") if tr.end == "return" else ("throw",)
            binary = kind[""]
            text = {repr(kind[d]) for d in _DELIMS}
            if binary == _SYM("mFileType0") or repr(_SYM("mFileType0")) in text:
                vs.append(None)
                notes.append("mFileType is not set by set_file_type")
            else:
                for d in _DELIMS:
                    vs.append(kind[d] != binary)
                    if kind[d] == binary:
                        notes.append("delimiter %r gives file type %s, the same as the empty delimiter (binary)" % (d, _show(kind[d])))
                if len(text) != 1 and all(vs):
                    vs.append(None)
                    notes.append("more than one kind of text file: %s" % sorted(text))
        chk.ob("R04.4", keys[1][1], _verdict(vs), W, keys[1][2] + ((" (%s)" % "; ".join(notes[:3])) if notes else ""))

    _group(chk, keys[:1], go)
    _group(chk, keys[1:], go2)


def _delimiters_by_function(chk, tu, why_not=None):
    """the layout of a row, function by function: WriteField for the elements and the delimiter behind a field, WriteRows for fields and newlines"""
    data, fptr = _SYM("mData"), _FPTR
    wkeys = [("R04.4", "writer::delimiter-between-elements", "the delimiter is written between the elements of a sub-array field, not after the last"),
             ("R04.4", "writer::delimiter-between-fields", "the delimiter is written between fields, not after the last"),
             ("R04.4", "writer::cursor-advances-by-element-size", "the data cursor advances by one element per element written"),
             ("R04.4", "writer::element-size", "element size is field size / number of elements"),
             ("R04.4", "writer::string-vs-number-dispatch", "string elements go to the byte writer, all others to the formatted writer of their type")]
    if why_not:
        wkeys = [(r, k, m + " [the whole row writer could not be followed: %s]" % why_not) for r, k, m in wkeys]

    def field():
        out = []
        for size, nel in ((24, 3), (12, 4)):
            for typ in (_D, _S):
                for fnum in (0, 1, 2):
                    tr = _one(tu, "Records::WriteField", [fnum], _mem(mSizes=_Arr(size), mNel=_Arr(nel), mTypeNums=_Arr(typ)),
                              opaque=("WriteStringAsAscii", "WriteNumberAsAscii"))
                    if tr.end != "return" or tr.stores():
                        raise _CUnrec("WriteField throws or stores on the test shape")
                    toks = []
                    for c in tr.calls():
                        if c[1] == "WriteNumberAsAscii" and len(c[2]) == 2:
                            toks.append(("E", "num", _aff(c[2][0]), c[2][1], _aff(c[3])))
                        elif c[1] == "WriteStringAsAscii" and len(c[2]) == 1:
                            toks.append(("E", "str", _aff(c[3]), c[2][0], _aff(c[3])))
                        elif _is_delim_out(c):
                            toks.append(("D",))
                        else:
                            raise _CUnrec("WriteField calls %s(%s), which is neither an element writer nor an output of the delimiter" % (c[1], ", ".join(_show(a) for a in c[2])))
                    out.append((size, nel, typ, fnum, toks, _aff(tr.mem.get("mData"))))
        return out
    res = _group(chk, wkeys, field)
    if res is not None:
        v_el, v_fd, v_cur, v_sz, v_disp, notes, trail = [], [], [], [], [], [], {}
        for size, nel, typ, fnum, toks, end in res:
            kinds = "".join(t[0] for t in toks)
            els = [t for t in toks if t[0] == "E"]
            body = kinds.rstrip("D")
            trail[(size, typ, fnum)] = len(kinds) - len(body)
            # E D E D E up to the last element; what follows it in the last field is a delimiter after the last element
            v_el.append(body == "D".join("E" * nel) and (fnum < 2 or kinds == body))
            v_cur.append([t[2] for t in els] == [(data, i * (size // nel)) for i in range(nel)] and all(t[2] == t[4] for t in els) and end == (data, size))
            v_sz.append([t[2][1] for t in els] == [i * (size // nel) for i in range(nel)])
            v_disp.append(all((t[1] == "str" and t[3] == fnum) if typ == _S else (t[1] == "num" and t[3] == typ) for t in els) and bool(els))
            if not (v_el[-1] and v_cur[-1] and v_sz[-1] and v_disp[-1]):
                notes.append("field %d of 3, %d elements of %d bytes, %s: output %s at offsets %s, cursor ends at +%s"
                             % (fnum, nel, size // nel, "string" if typ == _S else "double", kinds, [t[2][1] for t in els], end[1]))
        # a field that is not the last writes exactly one delimiter more than the last field does
        v_fd = [trail[(sz, ty, f)] - trail[(sz, ty, 2)] == 1 for (sz, ty, f) in trail if f < 2]
        if not all(v_fd):
            notes.insert(0, "delimiters after the last element of fields 0, 1, 2 of 3: %s" % sorted({tuple(trail[(sz, ty, f)] for f in (0, 1, 2)) for (sz, ty, _f) in trail}))
        extra = (" (%s)" % "; ".join(notes[:2])) if notes else ""
        chk.ob("R04.4", "writer::delimiter-between-elements", _all(v_el), W, "the delimiter is written between the elements of a sub-array field, not before the first or after the last" + extra)
        chk.ob("R04.4", "writer::delimiter-between-fields", _all(v_fd), W, "the delimiter is written between fields, not after the last" + extra)
        chk.ob("R04.4", "writer::cursor-advances-by-element-size", _all(v_cur), W, "the data cursor advances by one element per element written" + extra)
        chk.ob("R04.4", "writer::element-size", _all(v_sz), W, "element size is field size / number of elements" + extra)
        chk.ob("R04.4", "writer::string-vs-number-dispatch", _all(v_disp), W, "string elements go to the byte writer, all others to the formatted writer of their type" + extra)
    # ---- rows
    rkeys = [("R04.4", "writer::all-rows-all-fields", "every field of every row is written"), ("R04.4", "writer::newline-per-row", "one newline ends each row")]
    if why_not:
        rkeys = [(r, k, m + " [the whole row writer could not be followed: %s]" % why_not) for r, k, m in rkeys]

    def rows():
        out = []
        for nrows, nfields in ((2, 3), (3, 1)):
            tr = _one(tu, "Records::WriteRows", [], _mem(mNrows=nrows, mNfields=nfields), opaque=("WriteField", "WriteArrayFieldWithBrackets"))
            if tr.end != "return":
                raise _CUnrec("WriteRows throws on the test shape")
            toks = [("F", c[2][0]) if c[1] == "WriteField" and len(c[2]) == 1 else (("N",) if _is_newline_out(c) else ("X", c[1])) for c in tr.calls()]
            if any(t[0] == "X" for t in toks):
                raise _CUnrec("WriteRows calls %s, which is neither the field writer nor an output of the newline" % sorted({t[1] for t in toks if t[0] == "X"}))
            out.append((nrows, nfields, toks))
        return out
    res = _group(chk, rkeys, rows)
    if res is not None:
        v_all = [[t[1] for t in toks if t[0] == "F"] == list(range(nf)) * nr and not any(t[0] == "X" for t in toks) for nr, nf, toks in res]
        v_nl = ["".join(t[0] for t in toks) == ("F" * nf + "N") * nr for nr, nf, toks in res]
        shown = ["".join(t[0] + (str(t[1]) if t[0] == "F" else "") for t in toks) for nr, nf, toks in res]
        chk.ob("R04.4", "writer::all-rows-all-fields", _all(v_all), W, "every field of every row is written, in order (2 rows of 3 fields, 3 rows of 1: %s)" % shown)
        chk.ob("R04.4", "writer::newline-per-row", _all(v_nl), W, "one newline ends each row (%s)" % shown)


def _delimiters_reader(chk, tu, suffix=None):
    data, fptr = _SYM("mData"), _FPTR
    # ---- reader for numbers
    buf = _mkaff(_SYM("buff"), 0)
    dkeys = [("R04.4", "reader::whitespace-mode-consumes-one-separator", "in whitespace mode one separator is consumed after a number (the scan format has no suffix there)"),
             ("R04.4", "reader::string-vs-number-dispatch", "strings are read byte-wise, everything else by formatted scan")]

    def column():
        out = {}
        for typ in (_D, _S):
            for ws in (0, 1):
                mem = _mem(mTypeNums=_Arr(typ), mReadAsWhitespace=ws)
                if typ == _D and ws:
                    # what is read behind the number may depend on the characters read: every outcome of the tests on them
                    trs = list(c_paths(tu, "Records::read_from_text_column", [1, buf], mem, opaque=("read_ascii_bytes", "scan_column_values"), max_paths=3000, maxdec=10))
                    heads = {tuple((c[1],) + tuple(c[2]) for c in tr.calls()[:1]) for tr in trs}
                    if any(tr.stores() for tr in trs) or len(heads) != 1:
                        raise _CUnrec("read_from_text_column stores on the test shape, or does not start the same way on every run")
                    out["chars"] = _char_reads(trs, ("scan_column_values",), fptr, {"D": {32}, "N": {10}})
                    shortest = min([tr for tr in trs if tr.end == "return"] or trs, key=lambda tr: len(tr.calls()))
                    out[(typ, ws)] = [(c[1],) + tuple(c[2]) for c in shortest.calls()]
                    continue
                tr = _one(tu, "Records::read_from_text_column", [1, buf], mem, opaque=("read_ascii_bytes", "scan_column_values"))
                if tr.end != "return" or tr.stores():
                    raise _CUnrec("read_from_text_column throws or stores on the test shape")
                out[(typ, ws)] = [(c[1],) + tuple(c[2]) for c in tr.calls()]
        return out
    res = _group(chk, dkeys, column)
    if res is not None:
        num, st = ("scan_column_values", 1, buf), ("read_ascii_bytes", 1, buf)
        vs, why = [res[(_D, 0)] == [num], res[(_D, 1)][:1] == [num]], []
        for case, what in (("D", "the blank delimiter"), ("N", "the newline that ends a row")):
            v, w = _char_verdict(res["chars"][case], 1)
            vs.append(v)
            if v is not True:
                why.append("behind a number followed by %s: %s" % (what, w))
        if vs[0] is False:
            why.insert(0, "in delimiter mode the reader makes reads of its own behind the number")
        chk.ob("R04.4", "reader::whitespace-mode-consumes-one-separator", _verdict(vs), W,
               "in whitespace mode exactly one character, the separator, is taken from the stream after a number whatever follows it -- the next field may be a "
               "fixed-width string that begins with blanks -- (the scan format has no suffix there), otherwise none (%s%s)"
               % ([[c[0] for c in res[(_D, w)]] for w in (0, 1)], "".join("; " + x for x in why[:2])))
        okd = res[(_S, 0)] == [st] and res[(_S, 1)] == [st] and res[(_D, 0)][:1] == [num] and res[(_D, 1)][:1] == [num]
        chk.ob("R04.4", "reader::string-vs-number-dispatch", okd, W, "strings are read byte-wise, everything else by formatted scan (%s)" % {k: [c[0] for c in v] for k, v in res.items() if k != "chars"})
    skeys = [("R04.4", "reader::scan-uses-type-format", "numbers are scanned with the scan format of their type into the output element"),
             ("R04.4", "reader::cursor-advances-by-element-size", "the output cursor advances by one element per scanned element")]

    def scan():
        out = []
        for size, nel, typ in ((24, 3, _D), (8, 4, NPY_TYPES["NPY_SHORT"])):
            tr = _one(tu, "Records::scan_column_values", [1, buf], _mem(mSizes=_Arr(size), mNel=_Arr(nel), mTypeNums=_Arr(typ)))
            if tr.end != "return":
                raise _CUnrec("scan_column_values throws on the test shape")
            out.append((size, nel, typ, [(c[1],) + tuple(c[2]) for c in tr.calls()], tr.stores()))
        return out
    res = _group(chk, skeys, scan)
    if res is not None:
        v_fmt, v_cur, notes = [], [], []
        for size, nel, typ, calls, stores in res:
            sc = [c for c in calls if c[0] == "fscanf"]
            v_fmt.append(len(sc) == nel and sc == calls and not stores and all(len(c) == 4 and c[1] == fptr and c[2] == ("idx", _SYM("mScanFormats"), typ) and _aff(c[3])[0] == buf[1] for c in sc))
            v_cur.append(len(sc) == nel and [_aff(c[3]) for c in sc if len(c) == 4] == [(buf[1], i * (size // nel)) for i in range(nel)])
            if not (v_fmt[-1] and v_cur[-1]):
                notes.append("%d elements of %d bytes: %s" % (nel, size // nel, ["%s(%s)" % (c[0], ", ".join(_show(a) for a in c[1:])) for c in calls][:5]))
        extra = (" (%s)" % "; ".join(notes[:2])) if notes else ""
        chk.ob("R04.4", "reader::scan-uses-type-format", _all(v_fmt), W, "numbers are scanned with the scan format of their type into the output element, one fscanf per element" + extra)
        chk.ob("R04.4", "reader::cursor-advances-by-element-size", _all(v_cur), W, "the output cursor advances by one element (size/nel bytes) per scanned element" + extra)

    separator_after_number(chk, tu, suffix)


_WSCH = " \t\n\v\f\r"
_CHAR_READERS = ("fgetc", "getc", "getc_unlocked", "fgetc_unlocked")


def _suffix_directives(suf):
    """the scanf directives of a scan-format suffix (known text + unknown pieces), in order: 'W' a whitespace directive, ('L', ch) a
    literal character, 'D' the delimiter string, 'C' one character of any kind (%*c).  None: something this table does not model"""
    if suf is None or suf[0] is None:
        return None
    out = []
    for part in [suf[0]] + list(suf[1]):
        if part == _SYM("mDelim") or part == ("idx", _SYM("mDelim"), 0):
            out.append("D")
            continue
        if not isinstance(part, str):
            return None
        i = 0
        while i < len(part):
            ch = part[i]
            if ch in _WSCH:
                if not out or out[-1] != "W":
                    out.append("W")
                i += 1
            elif ch == "%":
                if part[i:i + 3] == "%*c":
                    out.append("C")
                    i += 3
                elif part[i:i + 4] == "%*1c":
                    out.append("C")
                    i += 4
                elif part[i:i + 2] == "%%":
                    out.append(("L", "%"))
                    i += 2
                else:
                    return None
            else:
                out.append(("L", ch))
                i += 1
    return out


def _suffix_consumes(dirs, delim_is_space, c):
    """C99 fscanf on the directives `dirs` when the next input character is the separator c ('D': the delimiter, 'N': the newline that
    ends a row): how many characters from the separator on are consumed for certain (0, 1, 2 = the separator and a byte of the next
    field), or None when that depends on the configured delimiter.  Whitespace skipped *after* the separator is the subject of R04.5."""
    pending, n = True, 0
    for d in dirs:
        if d == "D":
            d = "W" if delim_is_space else ("L", None)
        if d == "W":
            if pending and (c == "N" or delim_is_space):
                pending, n = False, 1
        elif d == "C":
            if not pending:
                return 2
            pending, n = False, 1
        else:
            if not pending or c == "N" or delim_is_space:
                return n                    # a literal against a blank / against the next field: matching stops here
            if d[1] is not None:
                return None                 # a fixed character against the configured delimiter
            pending, n = False, 1
    return n


# ---- the single-character reads after a number, for every stream content ---------------------------------------------------------
# Where the reader takes the separator after a number with single-character reads (whitespace mode: the scan format has no suffix),
# how many it takes may depend on what it reads (a loop over blanks, a look-ahead with ungetc).  The stream behind a number is
#   <separator> <first byte of the next field> <its second byte> ...
# and the next field may be a fixed-width string, whose bytes are data: any ASCII character but the newline, blanks included.  Every
# run of the reader over the outcomes of its tests on the characters read is explored; a run is possible when each character can be
# chosen from its domain (position 0: the separator of the case at hand, later positions: any string byte) so that the tests come out
# as they did on that run -- decided by evaluating the tests over the whole finite domain of a character, not on samples.  The rule:
# on every possible run the reads minus the pushbacks amount to the expected number of bytes.
_STR_BYTES = frozenset([9] + list(range(32, 127)))
_CTYPE = {"isspace": lambda c: c in (32, 9, 10, 11, 12, 13), "isblank": lambda c: c in (32, 9), "isdigit": lambda c: 48 <= c <= 57,
          "isalpha": lambda c: 65 <= c <= 90 or 97 <= c <= 122, "isalnum": lambda c: 48 <= c <= 57 or 65 <= c <= 90 or 97 <= c <= 122,
          "isprint": lambda c: 32 <= c <= 126, "isgraph": lambda c: 33 <= c <= 126, "iscntrl": lambda c: c < 32 or c == 127,
          "ispunct": lambda c: 33 <= c <= 126 and not (48 <= c <= 57 or 65 <= c <= 90 or 97 <= c <= 122)}


def _term_eval(t, env, ctype):
    """value of a term of the C interpreter under an assignment of the characters read (env: ret term -> int); KeyError / _CUnrec when
    the term reads anything else"""
    if isinstance(t, bool):
        return int(t)
    if isinstance(t, int):
        return t
    if not isinstance(t, tuple):
        raise _CUnrec("test on %r" % (t,))
    if t in env:
        return env[t]
    if t[0] == "ret" and t in ctype:
        fn, arg = ctype[t]
        return int(bool(_CTYPE[fn](_term_eval(arg, env, ctype))))
    if t[0] == "op" and len(t) == 4:
        a, b = _term_eval(t[2], env, ctype), _term_eval(t[3], env, ctype)
        f = {"==": lambda: int(a == b), "!=": lambda: int(a != b), "<": lambda: int(a < b), ">": lambda: int(a > b), "<=": lambda: int(a <= b),
             ">=": lambda: int(a >= b), "+": lambda: a + b, "-": lambda: a - b, "&": lambda: a & b, "|": lambda: a | b, "^": lambda: a ^ b}.get(t[1])
        if f is None:
            raise _CUnrec("operator %s in a test on a character read" % t[1])
        return f()
    if t[0] == "un" and len(t) == 3 and t[1] in ("!", "-", "~", "+"):
        a = _term_eval(t[2], env, ctype)
        return {"!": int(not a), "-": -a, "~": ~a, "+": a}[t[1]]
    raise _CUnrec("test on %s" % _show(t))


def _term_leaves(t, ctype, out):
    if isinstance(t, tuple):
        if t[0] == "ret":
            if t in ctype:
                _term_leaves(ctype[t][1], ctype, out)
            else:
                out.append(t)
        elif t[0] in ("op", "un"):
            for x in t[2:]:
                _term_leaves(x, ctype, out)
        else:
            out.append(t)
    return out


def _char_reads(trs, after, fptr, first):
    """`trs`: the runs of the column reader (c_paths with a limit on the tests).  `after`: names of the calls that read the number; the
    events behind the last of them are the subject.  `first`: {case: domain of the first character read}.  Result per case:
    {"sure": {net bytes taken: witness text}, "maybe": set of nets on runs whose possibility is not decided, "cut": a possible run was cut}."""
    res = {c: {"sure": {}, "maybe": set(), "cut": False} for c in first}
    for tr in trs:
        if tr.end == "throw":
            raise _CUnrec("the column reader throws on the test shape")
        idx = max([i for i, e in enumerate(tr.events) if e[0] == "call" and e[1] in after] or [-1])
        if idx < 0:
            raise _CUnrec("no call of %s in the number reader" % "/".join(after))
        gets, ungets, ctype, order = [], [], {}, []
        for e in tr.events[idx + 1:]:
            if e[0] != "call":
                raise _CUnrec("a store behind the number")
            if e[1] in _CHAR_READERS and e[2] == (fptr,):
                gets.append(e[4])
                order.append("g")
            elif e[1] == "ungetc" and len(e[2]) == 2 and e[2][1] == fptr:
                ungets.append(e[2][0])
                order.append("u")
            elif e[1] in _CTYPE and len(e[2]) == 1:
                ctype[e[4]] = (e[1], e[2][0])
            else:
                raise _CUnrec("%s(%s) behind the number is not a single-character read" % (e[1], ", ".join(_show(a) for a in e[2])))
        if tr.end != "cut" and ungets and (len(ungets) > 1 or order[-1] != "u" or not gets or ungets[0] != gets[-1]):
            raise _CUnrec("ungetc is used in a way other than pushing back the character read last")
        net = len(gets) - len(ungets)
        cons, unsure = {g: [] for g in gets}, False
        for t, val in tr.decided.items():
            leaves = set(_term_leaves(t, ctype, []))
            if len(leaves) == 1 and leaves <= set(gets):
                cons[leaves.pop()].append((t, val))
            else:
                unsure = True          # a test on something else: either outcome may be impossible
        for case, dom0 in first.items():
            wit, possible = [], True
            for pos, g in enumerate(gets):
                sat = []
                for b in sorted(dom0 if pos == 0 else _STR_BYTES):
                    try:
                        if all(bool(_term_eval(t, {g: b}, ctype)) == val for t, val in cons[g]):
                            sat.append(b)
                    except (_CUnrec, KeyError, TypeError):
                        unsure = True
                        sat.append(b)
                if not sat:
                    possible = False
                    break
                wit.append(32 if 32 in sat else sat[0])
            if not possible:
                continue
            if tr.end == "cut":
                res[case]["cut"] = True
            elif unsure:
                res[case]["maybe"].add(net)
            else:
                res[case]["sure"].setdefault(net, "the stream continues with the bytes %s: %d read, %d pushed back"
                                             % (" ".join(repr(chr(b)) for b in wit) or "-", len(gets), len(ungets)))
    return res


def _char_verdict(r, want):
    """True: every possible run takes `want` bytes; False (with the witness): a run that is certainly possible takes another number"""
    bad = sorted((n, w) for n, w in r["sure"].items() if n != want)
    if bad:
        return False, "%d byte(s) taken instead of %d when %s" % (bad[0][0], want, bad[0][1])
    if r["cut"] or r["maybe"] - {want} or not (r["sure"] or r["maybe"]):
        return None, "not every run of the single-character reads could be followed to its end"
    return True, ""


def separator_after_number(chk, tu, suffix):
    """Every field reader leaves the stream at the first byte of the next field (the string reader takes that byte as data): after the
    last number of a field the one separator that follows must be consumed, and that separator is the delimiter between fields but the
    newline after the last field of a row.  Decided for every case of the finite domain {mode} x {delimiter is a blank character or
    not} x {separator is the delimiter, the newline}: C99 semantics of the suffix of the scan format + the single-character reads the
    reader makes after the last fscanf of the field."""
    key = "reader::separator-after-number-consumed"
    msg = "after the last number of a field exactly one separator is consumed, the delimiter as well as the end of line that ends a row"
    buf = _mkaff(_SYM("buff"), 0)

    def go():
        out = {}
        for ws in (0, 1):
            mem = _mem(mTypeNums=_Arr(_D), mReadAsWhitespace=ws)
            if ws:
                # single-character reads may depend on the characters read (a loop, a look-ahead): every outcome, see _char_reads
                trs = list(c_paths(tu, "Records::read_from_text_column", [1, buf], mem, max_paths=3000, maxdec=12))
                first = {"D": {32}, "N": {10}}
            else:
                trs = [_one(tu, "Records::read_from_text_column", [1, buf], mem)]
                first = {"D": _STR_BYTES, "N": _STR_BYTES}          # the suffix of the scan format took the separator (or is charged with it below)
            names = [c[1] for c in min([tr for tr in trs if tr.end == "return"] or trs, key=lambda tr: len(tr.calls())).calls()]
            if "fscanf" not in names:
                raise _CUnrec("no fscanf in the number reader: %s" % names)
            out[ws] = (names[len(names) - names[::-1].index("fscanf"):], _char_reads(trs, ("fscanf",), _FPTR, first))
        return out
    tails = _group(chk, [("R04.4", key, msg)], go)
    if tails is None:
        return
    if suffix is None:
        chk.ob("R04.4", key, None, W, msg + " [the scan suffix was not evaluated]")
        return
    verdicts, shown, bad = [], [], []
    for ws in (0, 1):
        suf = suffix.get("ws" if ws else "delim")
        dirs = _suffix_directives(suf)
        tail, chars = tails[ws]
        text = "?" if suf is None else " + ".join([repr(suf[0])] * bool(suf[0]) + ["mDelim" if p == _SYM("mDelim") else _show(p) for p in suf[1]]) or "none"
        shown.append("%s mode: scan suffix %s, separate single-character read(s) on the straight run: %s" % ("whitespace" if ws else "delimiter", text, tail or "none"))
        for blank in ((True,) if ws else (False, True)):
            for c in ("D", "N"):
                n = None if dirs is None else _suffix_consumes(dirs, blank, c)
                if n is None:
                    verdicts.append(None)
                    continue
                # the suffix takes n bytes from the separator on; the single-character reads must take the rest of the one separator on every
                # run that some stream content makes possible
                ok, why = _char_verdict(chars[c], 1 - n)
                verdicts.append(ok)
                if ok is False:
                    tot = n + sorted(k for k in chars[c]["sure"] if k != 1 - n)[0]
                    bad.append((tot, "%s mode, %s delimiter: the %s after the last number of a field is %s (scan suffix: %d; single-character reads: %s)" % (
                        "whitespace" if ws else "delimiter", "blank (tab)" if blank and not ws else ("blank" if blank else "non-blank"),
                        "delimiter" if c == "D" else "end of line",
                        "not consumed" if tot <= 0 else "consumed together with %d byte(s) of the next field" % (tot - 1), n, why)))
    v = _verdict(verdicts)
    if v is False and all(t == 0 for t, _ in bad):
        # nothing consumes it at this level: a reader that does it once per row in the callers is a design this rule does not know
        callers = [q for q, fn in tu.funcs.items() if cfront.body_of(fn) is not None and q.split("::")[-1] not in ("read_from_text_column", "scan_column_values") and
                   any(cfront.callee_name(x) == "read_from_text_column" for x in cfront.walk(cfront.body_of(fn)) if x.get("kind") in ("CallExpr", "CXXMemberCallExpr"))]
        direct = [q for q in callers if any(cfront.callee_name(x) in _CHAR_READERS + ("fscanf", "ungetc", "fgets", "getline") for x in cfront.walk(cfront.body_of(tu.funcs[q]))
                                            if x.get("kind") in ("CallExpr", "CXXMemberCallExpr"))]
        if direct:
            v = None
            shown.append("the callers %s read from the stream themselves" % direct)
    extra = "; ".join(shown + [b for _, b in bad[:3]])
    if v is False:
        extra += " -- Records::make_scan_formats builds the suffix; a string field that starts the next row is then read from the wrong byte"
    chk.ob("R04.4", key, v, W, "%s (%s)" % (msg, extra))

# ---------------------------------------------------------------------------
# path-sensitive evaluation of small python functions (R04.3)
#
# A function is executed over a term domain along every acyclic path (loops: zero or one pass).  Every evaluated call makes
# a fresh value, so object identity (`x = y.copy(); f(x); g(x)`) is preserved; private helpers of the repository (leading
# underscore) are followed into, so extracting or inlining a helper, introducing or removing a named temporary, swapping the
# arms of an if, using a guard clause or a conditional expression all give the same path summaries.  Branch tests are
# recorded as (atom, truth) with `not`, `!=`, `is not`, `not in` normalised away; a test whose atoms are already decided on
# the path, or whose operands are constants, is folded.
# ---------------------------------------------------------------------------
class _Unrec(Exception):
    """the code uses a construct this evaluator does not model: no verdict"""


class _V:
    __slots__ = ("op", "name", "args", "kw", "node", "scope")

    def __init__(self, op, name=None, args=(), kw=None, node=None, scope=None):
        self.op, self.name, self.args, self.kw, self.node = op, name, list(args), dict(kw or {}), node
        self.scope = scope          # (function, variables) where a comprehension / a call was evaluated: what its free names mean

    def __repr__(self):
        return "<%s>" % _txt(self)


_NEG = {"is not": "is", "!=": "==", "not in": "in"}
_CMP = {ast.Eq: "==", ast.NotEq: "!=", ast.Is: "is", ast.IsNot: "is not", ast.In: "in", ast.NotIn: "not in", ast.Lt: "<", ast.LtE: "<=",
        ast.Gt: ">", ast.GtE: ">="}


def _txt(v):
    if v is None:
        return "-"
    o = v.op
    if o in ("param", "name"):
        return v.name
    if o == "const":
        return repr(v.name)
    if o == "attr":
        return "%s.%s" % (_txt(v.args[0]), v.name)
    if o == "sub":
        return "%s[%s]" % (_txt(v.args[0]), _txt(v.args[1]))
    if o == "call":
        a = [_txt(x) for x in v.args[1:]] + ["%s=%s" % (k, _txt(x)) for k, x in sorted(v.kw.items())]
        return "%s%s(%s)" % ((_txt(v.args[0]) + ".") if v.args[0] is not None else "", v.name, ", ".join(a))
    if o == "cmp":
        return "%s %s %s" % (_txt(v.args[0]), v.name, _txt(v.args[1]))
    if o == "not":
        return "not (%s)" % _txt(v.args[0])
    if o in ("bool", "binop"):
        return "(" + (" %s " % v.name).join(_txt(x) for x in v.args) + ")"
    return "%s<%s>" % (v.name, ", ".join(_txt(x) for x in v.args))


def _pure(v):
    return v.op in ("param", "name", "const") or (v.op in ("attr", "sub") and all(_pure(x) for x in v.args))


def _hkey(v):
    return _txt(v) if _pure(v) else "#%d" % id(v)


def _unbool(v):
    """bool(x) has the truth value of x"""
    while v is not None and v.op == "call" and v.name == "bool" and len(v.args) == 2 and v.args[0] is None and not v.kw:
        v = v.args[1]
    return v


def _atoms3(v, truth=True):
    """the elementary facts that follow from `v` having the given truth value: (text, truth, term)"""
    v = _unbool(v)
    if v.op == "not":
        return _atoms3(v.args[0], not truth)
    if v.op == "bool" and ((v.name == "and") == truth):
        return [a for x in v.args for a in _atoms3(x, truth)]
    if v.op == "cmp" and v.name in _NEG:
        pos = _V("cmp", _NEG[v.name], v.args)
        return [(_txt(pos), not truth, pos)]
    return [(_txt(v), truth, v)]


def _atoms(v, truth=True):
    return [(t, b) for t, b, _x in _atoms3(v, truth)]


class _St:
    __slots__ = ("env", "heap", "events", "known", "kterm")

    def __init__(self, env=None, heap=None, events=None, known=None, kterm=None):
        self.env, self.heap, self.events, self.known, self.kterm = env or {}, heap or {}, events or [], known or {}, kterm or {}

    def fork(self):
        return _St(dict(self.env), dict(self.heap), list(self.events), dict(self.known), dict(self.kterm))

    def assume(self, v, truth):
        """record the facts; False when they contradict what the path already knows"""
        for t, b, x in _atoms3(v, truth):
            if self.known.get(t, b) != b:
                return False
            self.known[t] = b
            self.kterm.setdefault(t, x)          # the fact as a term, for rules that evaluate facts rather than compare their text
        return True

    def facts(self):
        """[(term, truth)] of everything the path knows"""
        return [(self.kterm[t], b) for t, b in self.known.items() if t in self.kterm]


def _fold(v, st):
    """truth value of v on this path: True / False / None (open)"""
    v = _unbool(v)
    if v.op == "const":
        return bool(v.name)
    if v.op == "not":
        r = _fold(v.args[0], st)
        return None if r is None else (not r)
    if v.op == "bool":
        rs = [_fold(x, st) for x in v.args]
        if v.name == "and":
            return False if any(r is False for r in rs) else (True if all(r is True for r in rs) else None)
        return True if any(r is True for r in rs) else (False if all(r is False for r in rs) else None)
    if v.op == "cmp" and all(x.op == "const" for x in v.args):
        a, b = v.args[0].name, v.args[1].name
        try:
            return {"==": lambda: a == b, "!=": lambda: a != b, "is": lambda: a is b or (a == b and type(a) is type(b)),
                    "is not": lambda: not (a is b or (a == b and type(a) is type(b))), "in": lambda: a in b, "not in": lambda: a not in b,
                    "<": lambda: a < b, "<=": lambda: a <= b, ">": lambda: a > b, ">=": lambda: a >= b}[v.name]()
        except Exception:
            return None
    at = _atoms(v, True)
    if len(at) == 1 and at[0][0] in st.known:
        return st.known[at[0][0]] == at[0][1]
    return None


class _PX:
    def __init__(self, repo, stop=(), max_paths=4000, depth=3):
        self.repo, self.stop, self.max_paths, self.depth = repo, set(stop), max_paths, depth
        self.nfork = 0
        self.inlined = []

    # -- entry ---------------------------------------------------------------
    def run(self, fi):
        """[(status, return value, state)] for every path of fi; parameters are symbolic"""
        st = _St()
        for p in fi.params:
            st.env[p.lstrip("*")] = _V("param", p.lstrip("*"))
        out = []
        for status, s, ret in self.block(fi.node.body, st, (fi, self.depth)):
            out.append((status, ret if ret is not None else _V("const", None), s))
        return out

    def _forked(self):
        self.nfork += 1
        if self.nfork > self.max_paths:
            raise _Unrec("more than %d paths" % self.max_paths)

    # -- statements ------------------------------------------------------------
    def block(self, stmts, st, ctx):
        live = [st]
        done = []
        for s_ in stmts:
            nxt = []
            for s in live:
                for status, s2, ret in self.stmt(s_, s, ctx):
                    (nxt if status == "fall" else done).append(s2 if status == "fall" else (status, s2, ret))
            live = nxt
            if not live:
                break
        return [("fall", s, None) for s in live] + done

    def branch(self, test, st, ctx):
        """[(truth, state)] for the feasible outcomes of a test expression"""
        out = []
        for v, s in self.ev(test, st, ctx):
            out += self.outcomes(v, s)
        return out

    def outcomes(self, v, s):
        """the outcomes of a test term.  `a and b` / `a or b` / `not a` are decided operand by operand, left to right, as python does,
        so that every path knows the elementary facts it rests on (`a and b` false: a false, or a true and b false)"""
        v = _unbool(v)
        r = _fold(v, s)
        if r is not None:
            return [(r, s)]
        if v.op == "not":
            return [(not t, s2) for t, s2 in self.outcomes(v.args[0], s)]
        if v.op == "bool":
            goes_on = v.name == "and"          # the truth value of an operand with which evaluation goes on to the next
            out, live = [], [s]
            for x in v.args:
                nxt = []
                for s1 in live:
                    for t, s2 in self.outcomes(x, s1):
                        (nxt if t == goes_on else out).append(s2 if t == goes_on else (t, s2))
                live = nxt
            return out + [(goes_on, s1) for s1 in live]
        self._forked()
        s2 = s.fork()
        out = []
        if s.assume(v, True):
            out.append((True, s))
        if s2.assume(v, False):
            out.append((False, s2))
        return out

    def stmt(self, n, st, ctx):
        if isinstance(n, ast.If):
            out = []
            for r, s in self.branch(n.test, st, ctx):
                out += self.block(n.body if r else n.orelse, s, ctx)
            return out
        if isinstance(n, (ast.Assign, ast.AnnAssign)):
            if n.value is None:
                return [("fall", st, None)]
            tg = n.targets if isinstance(n, ast.Assign) else [n.target]
            out = []
            for v, s in self.ev(n.value, st, ctx):
                for t in tg:
                    self.assign(t, v, s, ctx)
                out.append(("fall", s, None))
            return out
        if isinstance(n, ast.AugAssign):
            load = ast.fix_missing_locations(ast.copy_location(_as_load(n.target), n.target))
            out = []
            for (a, b), s in self.ev_many([load, n.value], st, ctx):
                self.assign(n.target, _V("binop", type(n.op).__name__, [a, b]), s, ctx)
                out.append(("fall", s, None))
            return out
        if isinstance(n, ast.Expr):
            return [("fall", s, None) for _, s in self.ev(n.value, st, ctx)]
        if isinstance(n, ast.Return):
            if n.value is None:
                return [("return", st, None)]
            return [("return", s, v) for v, s in self.ev(n.value, st, ctx)]
        if isinstance(n, ast.Raise):
            return [("raise", s, None) for _, s in (self.ev(n.exc, st, ctx) if n.exc is not None else [(None, st)])]
        if isinstance(n, (ast.For, ast.While)):
            out = []
            if isinstance(n, ast.For):
                heads = []
                for it, s in self.ev(n.iter, st, ctx):
                    self._forked()
                    s0 = s.fork()
                    self.assign(n.target, _V("elem", "elem", [it]), s, ctx)
                    heads += [(True, s), (False, s0)]
            else:
                heads = self.branch(n.test, st, ctx)
            for r, s in heads:
                if not r:
                    out += self.block(n.orelse, s, ctx)
                    continue
                for status, s2, ret in self.block(n.body, s, ctx):
                    if status in ("fall", "continue"):
                        out += self.block(n.orelse, s2, ctx)
                    elif status == "break":
                        out.append(("fall", s2, None))
                    else:
                        out.append((status, s2, ret))
            return out
        if isinstance(n, (ast.Break, ast.Continue)):
            return [("break" if isinstance(n, ast.Break) else "continue", st, None)]
        if isinstance(n, ast.With):
            sts = [st]
            for it in n.items:
                nx = []
                for s in sts:
                    for v, s2 in self.ev(it.context_expr, s, ctx):
                        if it.optional_vars is not None:
                            self.assign(it.optional_vars, v, s2, ctx)
                        nx.append(s2)
                sts = nx
            return [r for s in sts for r in self.block(n.body, s, ctx)]
        if isinstance(n, ast.Try):
            self._forked()
            s0 = st.fork()
            out = []
            for status, s, ret in self.block(n.body, st, ctx):
                out += self.block(n.orelse, s, ctx) if status == "fall" else [(status, s, ret)]
            for h in n.handlers:
                s = s0.fork()
                if h.name:
                    s.env[h.name] = _V("other", "exception")
                out += self.block(h.body, s, ctx)
            if n.finalbody:
                fin = []
                for status, s, ret in out:
                    for st2, s2, r2 in self.block(n.finalbody, s, ctx):
                        fin.append((status, s2, ret) if st2 == "fall" else (st2, s2, r2))
                out = fin
            return out
        if isinstance(n, ast.Delete):
            for t in n.targets:
                if isinstance(t, (ast.Subscript, ast.Attribute)):
                    for (b, k, _i), s in self.lvalue(t, st, ctx):
                        s.heap.pop((_hkey(b), k), None)
                        s.events.append(("del", b, k))
                elif isinstance(t, ast.Name):
                    st.env.pop(t.id, None)
            return [("fall", st, None)]
        if isinstance(n, ast.Assert):
            return [("fall", s, None) for r, s in self.branch(n.test, st, ctx) if r]
        if isinstance(n, (ast.Pass, ast.Global, ast.Nonlocal)):
            return [("fall", st, None)]
        if isinstance(n, (ast.Import, ast.ImportFrom)):
            for al in n.names:
                nm = (al.asname or al.name).split(".")[0]
                st.env[nm] = _V("name", nm)
            return [("fall", st, None)]
        if isinstance(n, (ast.FunctionDef, ast.ClassDef)):
            st.env[n.name] = _V("other", "def " + n.name)
            return [("fall", st, None)]
        raise _Unrec("statement %s at line %s" % (type(n).__name__, getattr(n, "lineno", "?")))

    def lvalue(self, t, st, ctx):
        """[((base value, key, subscript term or None), state)] of an attribute / subscript target"""
        if isinstance(t, ast.Attribute):
            return [((b, t.attr, None), s) for b, s in self.ev(t.value, st, ctx)]
        return [((b, "[%s]" % _txt(i), i), s) for (b, i), s in self.ev_many([t.value, t.slice], st, ctx)]

    def assign(self, t, v, st, ctx):
        if isinstance(t, ast.Name):
            st.env[t.id] = v
        elif isinstance(t, (ast.Attribute, ast.Subscript)):
            r = self.lvalue(t, st, ctx)
            if len(r) != 1 or r[0][1] is not st:
                raise _Unrec("forking assignment target")
            b, k, i = r[0][0]
            st.heap[(_hkey(b), k)] = v
            st.events.append(("store", b, k, v, i))          # i: the subscript as a term (None for an attribute)
        elif isinstance(t, (ast.Tuple, ast.List)):
            for i, e in enumerate(t.elts):
                self.assign(e, _V("sub", None, [v, _V("const", i)]), st, ctx)
        elif isinstance(t, ast.Starred):
            self.assign(t.value, _V("other", "rest", [v]), st, ctx)
        else:
            raise _Unrec("assignment target %s" % type(t).__name__)

    # -- expressions -------------------------------------------------------------
    def ev_many(self, exprs, st, ctx):
        outs = [([], st)]
        for e in exprs:
            outs = [(vals + [v], s2) for vals, s in outs for v, s2 in self.ev(e, s, ctx)]
        return outs

    def ev(self, e, st, ctx):
        if isinstance(e, ast.Constant):
            return [(_V("const", e.value), st)]
        if isinstance(e, ast.Name):
            v = st.env.get(e.id)
            if v is None:
                v = _module_const(ctx[0].module, e.id) or _V("name", e.id)
            return [(v, st)]
        if isinstance(e, ast.Attribute):
            out = []
            for b, s in self.ev(e.value, st, ctx):
                v = s.heap.get((_hkey(b), e.attr))
                if v is None:
                    v = _record_field(b, e.attr, ctx[0].module)          # <namedtuple made on this path>.<field>: the value it was made with
                out.append((v or _V("attr", e.attr, [b]), s))
            return out
        if isinstance(e, ast.Subscript):
            out = []
            for (b, i), s in self.ev_many([e.value, e.slice], st, ctx):
                v = s.heap.get((_hkey(b), "[%s]" % _txt(i)))
                if v is None and b.op == "const" and i.op == "const":
                    try:
                        v = _V("const", b.name[i.name])
                    except Exception:
                        v = None
                out.append((v or _V("sub", None, [b, i]), s))
            return out
        if isinstance(e, ast.Call):
            return self.call(e, st, ctx)
        if isinstance(e, ast.Compare) and len(e.ops) == 1:
            return [(_V("cmp", _CMP[type(e.ops[0])], [a, b]), s) for (a, b), s in self.ev_many([e.left, e.comparators[0]], st, ctx)]
        if isinstance(e, ast.UnaryOp) and isinstance(e.op, ast.Not):
            return [(_V("not", None, [a]), s) for a, s in self.ev(e.operand, st, ctx)]
        if isinstance(e, ast.UnaryOp) and isinstance(e.op, ast.USub) and isinstance(e.operand, ast.Constant):
            return [(_V("const", -e.operand.value), st)]
        if isinstance(e, ast.BoolOp):
            return [(_V("bool", "and" if isinstance(e.op, ast.And) else "or", vs), s) for vs, s in self.ev_many(e.values, st, ctx)]
        if isinstance(e, ast.BinOp):
            out = []
            for vs, s in self.ev_many([e.left, e.right], st, ctx):
                a, b = vs
                if isinstance(e.op, ast.Add) and a.op == "const" and b.op == "const" and type(a.name) is type(b.name) and isinstance(a.name, (tuple, str)):
                    out.append((_V("const", a.name + b.name), s))          # constant tables put together from named parts
                else:
                    out.append((_V("binop", type(e.op).__name__, vs), s))
            return out
        if isinstance(e, ast.IfExp):
            out = []
            for r, s in self.branch(e.test, st, ctx):
                out += self.ev(e.body if r else e.orelse, s, ctx)
            return out
        if isinstance(e, (ast.List, ast.Tuple, ast.Set)):
            return [(_V("seq", type(e).__name__.lower(), vs), s) for vs, s in self.ev_many(e.elts, st, ctx)]
        if isinstance(e, ast.Dict):
            if any(k is None for k in e.keys):
                return [(_V("seq", "dict", []), st)]
            out = []
            for vs, s in self.ev_many([x for kv in zip(e.keys, e.values) for x in kv], st, ctx):
                d = _V("seq", "dict", vs)
                for k, v in zip(vs[0::2], vs[1::2]):            # the entries of a dict display are its first stores
                    s.heap[(_hkey(d), "[%s]" % _txt(k))] = v
                out.append((d, s))
            return out
        if isinstance(e, ast.Starred):
            return [(_V("other", "star", [v]), s) for v, s in self.ev(e.value, st, ctx)]
        if isinstance(e, ast.Slice):
            parts = [x if x is not None else ast.Constant(None) for x in (e.lower, e.upper, e.step)]
            return [(_V("other", "slice", vs), s) for vs, s in self.ev_many(parts, st, ctx)]
        if isinstance(e, (ast.UnaryOp, ast.Compare)):
            kids = [e.operand] if isinstance(e, ast.UnaryOp) else [e.left] + list(e.comparators)
            return [(_V("other", type(e).__name__ + ":" + norm(e), vs), s) for vs, s in self.ev_many(kids, st, ctx)]
        if isinstance(e, (ast.JoinedStr, ast.FormattedValue, ast.Lambda, ast.ListComp, ast.SetComp, ast.DictComp, ast.GeneratorExp)):
            return [(_V("other", type(e).__name__ + ":" + norm(e), node=e, scope=(ctx[0], dict(st.env))), st)]      # no calls are followed inside these
        raise _Unrec("expression %s at line %s" % (type(e).__name__, getattr(e, "lineno", "?")))

    def call(self, e, st, ctx):
        fi, depth = ctx
        f = e.func
        if any(k.arg is None for k in e.keywords):
            kws = [k for k in e.keywords if k.arg is not None]
            star = True
        else:
            kws, star = e.keywords, False
        star = star or any(isinstance(a, ast.Starred) for a in e.args)
        recv_e = f.value if isinstance(f, ast.Attribute) else None
        name = f.attr if isinstance(f, ast.Attribute) else (f.id if isinstance(f, ast.Name) else "<call>")
        exprs = ([recv_e] if recv_e is not None else ([f] if name == "<call>" else [])) + list(e.args) + [k.value for k in kws]
        out = []
        for vals, s in self.ev_many(exprs, st, ctx):
            recv = vals[0] if (recv_e is not None or name == "<call>") else None
            pos = vals[(1 if recv is not None else 0):len(vals) - len(kws)]
            kw = {k.arg: v for k, v in zip(kws, vals[len(vals) - len(kws):])}
            if star:
                kw["**"] = _V("other", "starargs")
            tgt = None if star else self.target(fi, recv, name, s)
            if tgt is not None and depth > 0 and tgt.name.startswith("_") and not tgt.name.startswith("__") and tgt.name not in self.stop \
                    and not any(p.startswith("*") for p in tgt.params):
                res = self.inline(tgt, recv, pos, kw, s, depth)
                if res is not None:
                    out += res
                    continue
            v = _V("call", name, [recv] + pos, kw, scope=(fi, None))
            s.events.append(("call", v))
            if name == "update" and recv is not None and not star and len(pos) <= 1 and (not pos or (pos[0].op == "seq" and pos[0].name == "dict")):
                # d.update({...}, k=v): the same stores as d[k] = v
                pairs = list(zip(pos[0].args[0::2], pos[0].args[1::2])) if pos else []
                for k, x in pairs + [(_V("const", k), x) for k, x in kw.items()]:
                    s.heap[(_hkey(recv), "[%s]" % _txt(k))] = x
            elif name == "dict" and recv is None and not star and not pos:
                for k, x in kw.items():
                    s.heap[(_hkey(v), "[%s]" % _txt(_V("const", k)))] = x
            out.append((v, s))
        return out

    def target(self, fi, recv, name, st):
        """the repository function a call resolves to, or None"""
        if recv is None:
            if name in st.env:
                return None
            return self.repo.funcs.get(self.repo.resolve_name(fi.module, name))
        if recv.op == "param" and recv.name == "self" and fi.cls:
            return self.repo.funcs.get("%s.%s.%s" % (fi.module.name, fi.cls, name))
        if recv.op in ("name", "attr") and _pure(recv):
            return self.repo.funcs.get(self.repo.resolve_name(fi.module, _txt(recv) + "." + name))
        return None

    def inline(self, tgt, recv, pos, kw, st, depth):
        params = list(tgt.params)
        env = {}
        if tgt.cls and params and recv is not None:
            env[params.pop(0)] = recv
        if len(pos) > len(params) or any(k not in params for k in kw):
            return None
        for p, v in zip(params, pos):
            env[p] = v
        for k, v in kw.items():
            if k in env:
                return None
            env[k] = v
        for p in params:
            if p not in env:
                d = tgt.defaults.get(p)
                if d is None:
                    return None
                env[p] = _V("const", d.value) if isinstance(d, ast.Constant) else _V("other", "default:" + norm(d))
        caller_env = st.env
        st.env = env
        self.inlined.append(tgt.qualname)
        out = []
        for status, s, ret in self.block(tgt.node.body, st, (tgt, depth - 1)):
            if status in ("fall", "return"):
                s.env = dict(caller_env)
                out.append((ret if ret is not None else _V("const", None), s))
        return out


_MODCONST = {}


def _literal(mod, node, depth=0):
    """the value of a module-level expression made of literals, tuples of them, `+` and names of other such constants; _NODEF otherwise"""
    if depth > 4:
        return _NODEF
    if isinstance(node, ast.Constant):
        return node.value
    if isinstance(node, ast.Tuple):
        vs = [_literal(mod, x, depth + 1) for x in node.elts]
        return _NODEF if any(v is _NODEF for v in vs) else tuple(vs)
    if isinstance(node, ast.BinOp) and isinstance(node.op, ast.Add):
        a, b = _literal(mod, node.left, depth + 1), _literal(mod, node.right, depth + 1)
        if a is not _NODEF and b is not _NODEF and type(a) is type(b) and isinstance(a, (tuple, str)):
            return a + b
        return _NODEF
    if isinstance(node, ast.Name):
        v = _module_const(mod, node.id, depth + 1)
        return v.name if v is not None else _NODEF
    return _NODEF


def _bound_once(mod, name):
    """the module binds `name` exactly once: one assignment at top level, no other binding of it anywhere outside function bodies, no `global`"""
    n = 0
    for x in ast.walk(mod.tree):
        if isinstance(x, ast.Global) and name in x.names:
            return False
        if isinstance(x, (ast.FunctionDef, ast.AsyncFunctionDef, ast.ClassDef)) and x.name == name:
            return False
        if isinstance(x, (ast.Import, ast.ImportFrom)) and any((al.asname or al.name.split(".")[0]) == name for al in x.names):
            return False

    def top(stmts):
        k = 0
        for st in stmts:
            if isinstance(st, (ast.FunctionDef, ast.AsyncFunctionDef, ast.ClassDef)):
                continue
            for x in ast.walk(st):
                if isinstance(x, ast.Name) and x.id == name and isinstance(x.ctx, (ast.Store, ast.Del)):
                    k += 1
        return k
    n = top(mod.tree.body)
    return n == 1


def _module_const(mod, name, depth=0):
    """a module-level name that stands for a constant (bound once, to a literal): the constant as a term, else None"""
    key = (id(mod), name)
    if key not in _MODCONST:
        v = None
        node = mod.consts.get(name)
        if node is not None and _bound_once(mod, name):
            lit = _literal(mod, node, depth)
            if lit is not _NODEF:
                v = lit
                _MODCONST[key] = ("c", v)
        if key not in _MODCONST:
            _MODCONST[key] = None
    hit = _MODCONST[key]
    return _V("const", hit[1]) if hit else None


def _record_fields(mod, name):
    """field names of a record type defined in the module: X = [collections.]namedtuple("X", [...]) or class X(NamedTuple) with annotated
    fields; None when `name` is nothing of the kind"""
    node = mod.consts.get(name)
    if node is not None and _bound_once(mod, name) and isinstance(node, ast.Call) and not any(k.arg is None for k in node.keywords):
        f = node.func
        fn = f.attr if isinstance(f, ast.Attribute) else (f.id if isinstance(f, ast.Name) else None)
        spec = node.args[1] if len(node.args) >= 2 else next((k.value for k in node.keywords if k.arg == "field_names"), None)
        if fn == "namedtuple" and spec is not None and not any(k.arg in ("rename", "defaults") for k in node.keywords):
            if isinstance(spec, (ast.List, ast.Tuple)) and all(isinstance(x, ast.Constant) and isinstance(x.value, str) for x in spec.elts):
                return [x.value for x in spec.elts]
            if isinstance(spec, ast.Constant) and isinstance(spec.value, str):
                return spec.value.replace(",", " ").split()
        return None
    cls = mod.classes.get(name)
    if cls is not None and any((isinstance(b, ast.Name) and b.id == "NamedTuple") or (isinstance(b, ast.Attribute) and b.attr == "NamedTuple") for b in cls.bases):
        return [x.target.id for x in cls.body if isinstance(x, ast.AnnAssign) and isinstance(x.target, ast.Name)]
    return None


def _record_field(b, attr, mod):
    """b.attr where b is a record (namedtuple) constructed on this path: the argument given for that field"""
    if b is None or b.op != "call" or b.args[0] is not None or "**" in b.kw:
        return None
    m = b.scope[0].module if b.scope and b.scope[0] is not None else mod
    fields = _record_fields(m, b.name)
    if not fields or attr not in fields:
        return None
    if attr in b.kw:
        return b.kw[attr]
    i = fields.index(attr)
    return b.args[1 + i] if 1 + i < len(b.args) else None


def _as_load(t):
    import copy as _c
    t = _c.deepcopy(t)
    for x in ast.walk(t):
        if hasattr(x, "ctx"):
            x.ctx = ast.Load()
    return t

_PY_STOP = ("_remove_byteorder", "_match_key")      # semantic handles: never followed into
_INPLACE = ("to_native_inplace",)


def _is_call(v, *names):
    return v is not None and v.op == "call" and v.name in names


def _fresh(v):
    """a new array that shares no memory with anything the caller holds"""
    if v is None or v.op != "call":
        return False
    if v.name in ("copy", "deepcopy"):
        return True
    nocopy = "copy" in v.kw and not (v.kw["copy"].op == "const" and v.kw["copy"].name is True)
    if v.name == "array" and v.args[0] is not None and _txt(v.args[0]) in ("numpy", "np"):
        return not nocopy
    if v.name == "astype" and v.args[0] is not None:
        return not nocopy
    if v.name in ("view", "reshape", "ravel", "squeeze") and v.args[0] is not None:
        return _fresh(v.args[0])
    return False


def _plain_array(v):
    """the parameter, or numpy views / copies of it: nothing a helper that was not followed could have converted"""
    if v is None:
        return False
    if v.op == "param":
        return True
    if v.op == "call" and v.name in ("view", "copy", "array", "asarray", "ascontiguousarray", "astype", "reshape", "ravel", "squeeze", "atleast_1d"):
        return any(_plain_array(x) for x in v.args if x is not None)
    return False


def _self_calls(st, known=()):
    """calls of methods on self that were not followed and are not known to leave the attributes of interest alone"""
    return sorted({e[1].name for e in st.events if e[0] == "call" and e[1].args[0] is not None and e[1].args[0].op == "param" and e[1].args[0].name == "self"
                   and e[1].name not in known})


def _paths(chk, repo, fi, keys, rule="R04.3"):
    """normal-exit paths of fi, or None after reporting `keys` as not recognised"""
    chk.analysed_unit(fi.qualname)
    try:
        px = _PX(repo, stop=_PY_STOP)
        res = px.run(fi)
    except _Unrec as e:
        for k, msg in keys:
            chk.ob(rule, k, None, fi.where(), "%s [path evaluation of %s gave up: %s]" % (msg, fi.name, e))
        return None
    for q in px.inlined:
        chk.analysed_unit(q)
    return [(ret, st) for status, ret, st in res if status in ("fall", "return")]


def _verdict(vs):
    """all paths must agree with the rule: one contradiction -> False, otherwise one unrecognised -> None"""
    vs = list(vs)
    if any(v is False for v in vs):
        return False
    if not vs or any(v is None for v in vs):
        return None
    return True


def python_side(chk, repo, tu=None):
    strippers(chk, repo)
    recfile_write(chk, repo, tu)
    recfile_open(chk, repo)
    make_header(chk, repo)
    text_types_accepted(chk, repo)
    sfile_open(chk, repo)
    read_back_unchanged(chk, repo)
    text_row_count(chk, repo)


# ---- the order strippers --------------------------------------------------------------------------------------------------------
# What Recfile.open hands to the text reader and what SFile._make_header stores as _DTYPE is the *result* of a stripper, so the
# rules above ("the dtype is stripped for text files") only mean something if the stripper's result cannot carry the byte order
# of its argument.  Dataflow over the path terms: the type string of an entry of the argument's descriptor (<entry>[1]) reaches the
# result only through the removal of its first character; a result made by numpy's newbyteorder must use a code that means
# "native".  Identified through the parameter, `.descr`, iteration / indexing and the position of the type string in a descriptor
# entry -- not through local names or statement layout (loop + append, list display, comprehension, copy-and-assign all do).
_ORDER_CODES = {"native": "=Nn", "keep": "|Ii", "fixed": "<>LlBbSs"}


def _descr_like(x):
    if x is None:
        return False
    if x.op == "param" or (x.op == "attr" and x.name == "descr"):
        return True
    return x.op == "call" and x.name in ("list", "tuple", "copy", "deepcopy") and len(x.args) >= 2 and _descr_like(x.args[1])


def _is_entry(t):
    if t.op == "elem":
        return bool(t.args) and _descr_like(t.args[0])
    if t.op != "sub" or not _descr_like(t.args[0]):
        return False
    i = t.args[1]            # <descriptor>[i] with an index (not a slice): one entry
    return (i.op == "const" and isinstance(i.name, int) and not isinstance(i.name, bool)) or i.op in ("elem", "name", "param", "binop")


def _const_is(v, value):
    return v is not None and v.op == "const" and v.name == value and type(v.name) is type(value)


def _int_or(v, default):
    if _const_is(v, None):
        return default
    if v.op == "const" and isinstance(v.name, int) and not isinstance(v.name, bool) and v.name >= 0:
        return v.name
    return "?"


def _entry_parts(t, st, depth=0, heap=True):
    """the items an entry-valued term is put together from, in order: ('one', term) or ('slice', entry, lo, hi) (hi None: to the end);
    None: not recognised (or the object had items assigned to, which the caller looks up)"""
    if t is None or depth > 10:
        return None
    if _is_entry(t):
        return [("slice", t, 0, None)]
    if t.op == "seq" and t.name in ("tuple", "list"):
        return [("one", a) for a in t.args]
    if t.op == "binop" and t.name == "Add":
        a, b = _entry_parts(t.args[0], st, depth + 1), _entry_parts(t.args[1], st, depth + 1)
        return None if a is None else a + (b if b is not None else [("unknown",)])      # what follows item 1 does not matter
    if t.op == "call" and t.name in ("list", "tuple", "copy", "deepcopy") and len(t.args) == 2 and not t.kw:
        if heap and any(k[0] == _hkey(t) for k in st.heap):
            return None
        return _entry_parts(t.args[1], st, depth + 1)
    if t.op == "sub" and _is_entry(t.args[0]) and t.args[1].op == "other" and t.args[1].name == "slice" and len(t.args[1].args) == 3:
        lo, hi, step = t.args[1].args
        lo, hi = _int_or(lo, 0), _int_or(hi, None)
        if "?" in (lo, hi) or not (_const_is(step, None) or _const_is(step, 1)):
            return None
        return [("slice", t.args[0], lo, hi)]
    return None


def _entry_ts(t, st, depth=0, heap=True):
    """'kept' / 'stripped' / None (not recognised): the state of the type string -- item 1 -- of a descriptor entry.  heap=False: as
    the entry was made (a term <x>[1] is always a read that came before any assignment to <x>[1]: later reads give the assigned value)"""
    if t is None or depth > 10:
        return None
    parts = _entry_parts(t, st, depth, heap)
    if parts is not None:
        pos = 0
        for p in parts:
            if p[0] == "unknown":
                return None
            if p[0] == "one":
                if pos == 1:
                    return _ts_state(p[1], st, depth + 1)
                pos += 1
                continue
            _k, _e, lo, hi = p
            if hi is None or pos + (hi - lo) > 1:           # item 1 of the result is item lo + (1 - pos) of the argument's entry
                k = lo + (1 - pos)
                return "kept" if k == 1 else None
            if hi > 2:
                return None                                 # an entry need not have that many items
            pos += max(hi - lo, 0)
        return None
    if t.op == "call" and t.name in ("list", "tuple", "copy", "deepcopy") and len(t.args) >= 2:
        h = st.heap.get((_hkey(t), "[1]")) if heap else None         # <copy>[1] = ... replaced the type string
        if h is not None:
            return _ts_state(h, st, depth + 1)
        if heap and any(k[0] == _hkey(t) for k in st.heap):
            return _entry_ts(t, st, depth + 1, heap=False)          # other items were assigned to
        return _entry_ts(t.args[1], st, depth + 1)
    return None


def _ts_state(t, st, depth=0):
    """'kept': a type string of the argument with its order character, 'stripped': without it, None: not recognised"""
    if t is None or depth > 10:
        return None
    if t.op == "sub":
        base, idx = t.args
        if _const_is(idx, 1):
            return _entry_ts(base, st, depth + 1, heap=False)
        if idx.op == "other" and idx.name == "slice" and len(idx.args) == 3:
            inner = _ts_state(base, st, depth + 1)
            lo, hi, step = idx.args
            if inner == "kept" and _const_is(hi, None) and (_const_is(step, None) or _const_is(step, 1)):
                if _const_is(lo, 1):
                    return "stripped"
                if _const_is(lo, None) or _const_is(lo, 0):
                    return "kept"
            return None
    if t.op == "call" and t.name == "lstrip" and t.args[0] is not None and len(t.args) == 2 and t.args[1].op == "const" and isinstance(t.args[1].name, str):
        if _ts_state(t.args[0], st, depth + 1) == "kept" and set(t.args[1].name) == set("<>=|"):
            return "stripped"
    return None


def _result_order(px, t, st, ctx, depth=0):
    """(verdict, note) for the value a stripper returns: True = it cannot carry the argument's byte order, False = it does"""
    if t is None or depth > 6:
        return None, "the result is not recognised"
    if t.op == "param" or (t.op == "attr" and t.name == "descr") or _is_entry(t):
        return False, "returns %s, the argument's type strings as they are" % _txt(t)
    if t.op == "sub" and t.args[0].op == "param" and t.args[1].op == "other" and t.args[1].name == "slice":
        lo, hi, step = t.args[1].args
        if _const_is(lo, 1) and _const_is(hi, None) and _const_is(step, None):
            return True, ""                                  # a single type string: everything after its first character
        if (_const_is(lo, None) or _const_is(lo, 0)) and _const_is(hi, None) and _const_is(step, None):
            return False, "returns %s, the type string with its order character" % _txt(t)
        return None, "returns %s" % _txt(t)
    if t.op == "call" and t.name == "newbyteorder" and t.args[0] is not None:
        code = t.args[1] if len(t.args) >= 2 else t.kw.get("new_order")
        if code is None:
            return False, "returns %s: without a code newbyteorder swaps, whatever the host order is" % _txt(t)
        if code.op == "const" and isinstance(code.name, str) and code.name:
            kind = next((k for k, chars in _ORDER_CODES.items() if code.name[0] in chars), None)
            if kind == "native":
                return True, ""
            if kind == "keep":
                return False, "returns %s: for numpy the code %r means 'leave the byte order as it is', the order of the argument is kept" % (_txt(t), code.name)
            if kind == "fixed":
                return False, "returns %s: the code %r is a fixed / swapped order, not the order of the host" % (_txt(t), code.name)
        return None, "returns %s" % _txt(t)
    if t.op == "call" and t.name in ("list", "tuple", "dtype", "copy", "deepcopy") and len(t.args) == 2 and not t.kw:
        return _result_order(px, t.args[1], st, ctx, depth + 1)
    if t.op == "call" and len(t.args) == 2 and not t.kw and _descr_like(t.args[1]):
        # the work is handed to another function of the repository (one shared rule for the reader dtype and the header): its result, judged
        # the same way, is the result here
        tgt = px.target(t.scope[0] if t.scope and t.scope[0] is not None else ctx[0], t.args[0], t.name, st)
        if tgt is not None and len([p for p in tgt.params if p not in ("self", "cls")]) == 1:
            v, notes = _stripper_verdict(px.repo, tgt)
            return v, "%s -> %s%s" % (_txt(t)[:60], tgt.name, (": " + "; ".join(notes[:2])) if notes else "")
    elems = None
    if t.op == "seq" and t.name in ("list", "tuple"):
        elems = list(t.args)
        for e in st.events:
            if e[0] == "call" and e[1].args and e[1].args[0] is t:
                if e[1].name != "append" or len(e[1].args) != 2:
                    return None, "the result is changed by %s" % _txt(e[1])
                elems.append(e[1].args[1])
        if any(k[0] == _hkey(t) for k in st.heap):
            return None, "entries of the result are assigned to"
        if not elems:
            return "empty", ""
    elif t.op == "other" and isinstance(t.node, ast.ListComp) and len(t.node.generators) == 1 and not t.node.generators[0].is_async:
        g = t.node.generators[0]
        s2 = st.fork()
        elems = []
        for it, s3 in px.ev(g.iter, s2, ctx):
            px.assign(g.target, _V("elem", "elem", [it]), s3, ctx)
            elems += [v for v, _s in px.ev(t.node.elt, s3, ctx)]
            st = s3
    if elems is None:
        return None, "returns %s" % _txt(t)[:80]
    states = [_entry_ts(e, st) for e in elems]
    if "kept" in states:
        return False, "an entry of the result (%s) has the type string of the argument with its order character" % _txt(elems[states.index("kept")])[:200]
    if None in states:
        return None, "an entry of the result is %s" % _txt(elems[states.index(None)])[:120]
    return True, ""


_STRIPPER = {}


def _stripper_verdict(repo, fi):
    """(verdict, notes): True when no path of fi returns a type string of its argument with the order character"""
    q = fi.qualname
    if q in _STRIPPER:
        return _STRIPPER[q] or (None, ["%s is recursive" % fi.name])
    _STRIPPER[q] = None                   # in progress
    px = _PX(repo, stop=())
    try:
        res = px.run(fi)
        vs, notes = [], []
        for status, ret, st in res:
            if status not in ("fall", "return"):
                continue
            v, note = _result_order(px, ret, st, (fi, 2))
            if v == "empty":
                continue                     # the path of an argument without fields
            vs.append(v)
            if note and note not in notes:
                notes.append(note)
    except _Unrec:
        del _STRIPPER[q]
        raise
    if not any(v is True for v in vs):
        vs.append(None)
    _STRIPPER[q] = (_verdict(vs), notes)
    return _STRIPPER[q]


def _takes_dtype(fi):
    """the stripper reads <parameter>.descr: it is given the dtype, not its descriptor"""
    ps = [p for p in fi.params if p not in ("self", "cls")]
    return bool(ps) and any(isinstance(x, ast.Attribute) and x.attr == "descr" and isinstance(x.value, ast.Name) and x.value.id == ps[0] for x in ast.walk(fi.node))


_STRIPPER_NAMES = {"_remove_byteorder": "descr", "descr_to_native": "descr", "remove_dtype_byteorder": "dtype"}


def _resolve_call(repo, fi, v):
    """the function of the repository a call term stands for (as _PX.target does), or None"""
    if v is None or v.op != "call" or "**" in v.kw:
        return None
    if v.scope and v.scope[0] is not None:
        fi = v.scope[0]
    recv = v.args[0]
    if recv is None:
        return repo.funcs.get(repo.resolve_name(fi.module, v.name))
    if recv.op == "param" and recv.name == "self" and fi.cls:
        return repo.funcs.get("%s.%s.%s" % (fi.module.name, fi.cls, v.name))
    if recv.op in ("name", "attr") and _pure(recv):
        return repo.funcs.get(repo.resolve_name(fi.module, _txt(recv) + "." + v.name))
    return None


def _stripped_dtype(repo, fi, v):
    """v is what a byte-order stripper makes of a dtype D: (the call, D), D = None when the argument is not of the kind the stripper takes;
    None when v is not the result of a stripper.  A stripper: one of the library's three, or any function of the repository whose result
    was judged not to carry the argument's byte order (strippers() reports on it under its own name)"""
    if v is None or v.op != "call" or len(v.args) != 2 or v.kw:
        return None
    tgt = _resolve_call(repo, fi, v)
    takes = None
    if tgt is not None:
        try:
            ok = v.name in _STRIPPER_NAMES or _stripper_verdict(repo, tgt)[0] is True
        except _Unrec:
            ok = False
        if ok:
            takes = "dtype" if _takes_dtype(tgt) else "descr"
    elif v.name in _STRIPPER_NAMES:
        takes = _STRIPPER_NAMES[v.name]
    if takes is None:
        return None
    a = v.args[1]
    if takes == "dtype":
        return v, a
    return v, (a.args[0] if a.op == "attr" and a.name == "descr" else None)


def strippers(chk, repo):
    msg = "the result cannot carry the byte order of the argument: each type string reaches it without its first (order) character, or numpy makes it native"
    todo = []
    for q in ("esutil.recfile.Util.remove_dtype_byteorder", "esutil.sfile.SFile._remove_byteorder"):
        fi = repo.funcs.get(q)
        short = q.split(".", 2)[-1] if "SFile" in q else q.rsplit(".", 1)[-1]
        key = short.replace("sfile.", "") + "::result-carries-no-byte-order"
        if fi is None:
            # the function is gone.  What matters is the stripper the header / the reader dtype go through *now*: make_header and
            # recfile_open name it, and it is judged below under its own name.  Still referred to somewhere -> the code is broken
            home = q.rsplit(".", 2 if "SFile" in q else 1)[0]
            used = [m.name for m in repo.modules.values() if m.name == home or "SFile" not in q for x in ast.walk(m.tree)
                    if isinstance(x, ast.Call) and (getattr(x.func, "attr", None) or getattr(x.func, "id", None)) == q.rsplit(".", 1)[-1]
                    and (m.name == home or q.rsplit(".", 1)[-1] in m.imports)]
            if used:
                chk.ob("R04.3", key, None, "esutil", msg + " [%s not found but called in %s]" % (q, sorted(set(used))))
            continue
        todo.append((key, fi))
    # the strippers in use: what SFile._make_header stores as _DTYPE and what Recfile.open makes the reader dtype of, on their text paths
    for q in ("esutil.sfile.SFile._make_header", "esutil.recfile.Util.Recfile.open"):
        user = repo.funcs.get(q)
        if user is None:
            continue
        try:
            res = _PX(repo, stop=_PY_STOP).run(user)
        except _Unrec:
            continue
        for status, ret, st in res:
            if status not in ("fall", "return") or ret is None:
                continue
            if "make_header" in q:
                text = st.known.get("self._delim is None") is False
                vals = [st.heap.get((_hkey(ret), "['_DTYPE']"))]
            else:
                asc = st.heap.get(("self", "is_ascii"))
                text = asc is not None and _fold(asc, st) is True
                vals = [st.heap.get(("self", "dtype"))]
            for v in vals if text else []:
                if v is None:
                    continue
                v = v.args[1] if _is_call(v, "dtype") and len(v.args) == 2 else v
                tgt = _resolve_call(repo, user, v)
                if tgt is not None and len(v.args) == 2 and not v.kw and all(tgt is not f for _k, f in todo):
                    todo.append((tgt.name + "::result-carries-no-byte-order", tgt))
    for key, fi in todo:
        chk.analysed_unit(fi.qualname)
        try:
            v, notes = _stripper_verdict(repo, fi)
        except _Unrec as e:
            chk.ob("R04.3", key, None, fi.where(), "%s [path evaluation of %s gave up: %s]" % (msg, fi.name, e))
            continue
        chk.ob("R04.3", key, v, fi.where(), msg + ((" (%s: %s)" % (fi.name, "; ".join(notes[:3]))) if notes else ""))


_NUMPY = ("numpy", "np")


def _array_source(v):
    """the array operand of a numpy call whose result has the dtype and the memory layout of that operand or is a plain copy of it
    (x.view(numpy.ndarray), x.copy(), numpy.ascontiguousarray(x) ...), else None"""
    if v is None or v.op != "call" or "dtype" in v.kw or "**" in v.kw:
        return None
    recv = v.args[0]
    if recv is not None and _txt(recv) in _NUMPY:
        if v.name in ("ascontiguousarray", "asarray", "asanyarray", "array", "copy", "atleast_1d", "require", "squeeze", "ravel") and len(v.args) >= 2 and \
                (len(v.args) == 2 or v.name == "require"):
            return v.args[1]
        return None
    if recv is None:
        return None
    if v.name == "view":
        return recv if len(v.args) == 1 or (len(v.args) == 2 and _txt(v.args[1]).split(".")[-1] in ("ndarray", "recarray")) else None
    if v.name in ("copy", "squeeze", "ravel", "flatten") or (v.name == "reshape"):
        return recv
    return None


def _chain(v):
    out = []
    while v is not None and len(out) < 20:
        out.append(v)
        v = _array_source(v)
    return out


def _known_true(st, v, suffixes):
    """a fact `<array>.<suffix>` is known to be true on the path, for the array or one it is a view / copy of -- asked directly, or implied
    by a predicate of the repository that is known to hold (see _implied)"""
    if any(st.known.get("%s.%s" % (_txt(t), sfx)) is True for t in _chain(v) for sfx in suffixes):
        return True
    imp = _IMPLIED.get(id(st))
    if not imp:
        return False
    kind = "native" if "dtype.isnative" in suffixes else "contig"
    keys = {_nkey(_txt(t) + (".dtype" if kind == "native" else "")) for t in _chain(v)}
    return any(k == kind and x in keys for k, x in imp[1])


# ---- what a true test says about an array ------------------------------------------------------------------------------------------
# A path may know "the array is in native order" / "its rows are contiguous" through a predicate of the repository instead of numpy's
# own attribute: `if self.is_ascii and not _is_native_and_contiguous(a): a = a.copy(); to_native_inplace(a)`.  What the truth of a
# term implies is derived from the code of the predicate, for all arguments:
#   X.dtype.isnative / X.dtype.base.isnative           -> native(X.dtype)      (numpy's statement; .base of a dtype holds the same numbers)
#   X.flags.c_contiguous ...                           -> contig(X)
#   bool(t) -> t;  a and b -> both;  a or b -> what both imply
#   all(P(D.fields[n][0]) for n in D.names)            -> native(D) when P(d) implies native(d): every field is covered, no filter
#   f(args) with f a function of the repository        -> what every path of f that can return a true value implies, in terms of the
#                                                         arguments; a recursive call assumes the summary being derived (induction over
#                                                         the nesting of a dtype: a call that returns has a finite recursion depth)
# Keys are texts of terms with every `.base` dropped.
_IMPLIED = {}
_SUMMARY = {}
_SUMSTACK = []
_FLAG_NAMES = ("c_contiguous", "contiguous", "carray")
_FLAG_KEYS = ("C_CONTIGUOUS", "C", "CONTIGUOUS", "CARRAY")


def _nkey(text):
    return text.replace(".base", "")


def _implied(px, t, st, depth=0):
    """{(kind, key)} that hold whenever the term t is true"""
    t = _unbool(t)
    if t is None or depth > 8:
        return set()
    if t.op == "bool":
        parts = [_implied(px, x, st, depth + 1) for x in t.args]
        return set().union(*parts) if t.name == "and" else set.intersection(*parts)
    if t.op == "attr" and t.name == "isnative":
        return {("native", _nkey(_txt(t.args[0])))}
    if t.op == "attr" and t.name in _FLAG_NAMES and t.args[0].op == "attr" and t.args[0].name == "flags":
        return {("contig", _nkey(_txt(t.args[0].args[0])))}
    if t.op == "sub" and t.args[0].op == "attr" and t.args[0].name == "flags" and t.args[1].op == "const" and t.args[1].name in _FLAG_KEYS:
        return {("contig", _nkey(_txt(t.args[0].args[0])))}
    if t.op == "call" and t.name == "all" and t.args[0] is None and len(t.args) == 2 and not t.kw:
        return _implied_all(px, t.args[1], st, depth)
    if t.op == "call" and "**" not in t.kw and t.scope and t.scope[0] is not None:
        tgt = px.target(t.scope[0], t.args[0], t.name, st)
        if tgt is None or any(p.startswith("*") for p in tgt.params):
            return set()
        params = list(tgt.params)
        if tgt.cls and params and t.args[0] is not None:
            params.pop(0)
        actual = dict(zip(params, t.args[1:]))
        actual.update({k: v for k, v in t.kw.items() if k in params})
        out = set()
        for kind, key in _summary(px, tgt):
            for p, a in actual.items():
                if key == p or key.startswith(p + ".") or key.startswith(p + "["):
                    out.add((kind, _nkey(_txt(a) + key[len(p):])))
        return out
    return set()


def _implied_all(px, gen, st, depth):
    """all(<elt> for <n> in <iter>): native(D) when the iteration covers every field of D and <elt> implies native(<dtype of that field>)"""
    node = gen.node if gen is not None and gen.op == "other" else None
    if not isinstance(node, (ast.GeneratorExp, ast.ListComp)) or len(node.generators) != 1 or gen.scope is None:
        return set()
    g = node.generators[0]
    if g.ifs or g.is_async:
        return set()
    fi, env = gen.scope
    s2 = st.fork()
    s2.env = dict(env)
    ctx = (fi, 0)                      # calls inside are kept as terms: they are judged by their summaries
    out = set()
    try:
        for it, s3 in px.ev(g.iter, s2, ctx):
            el = _V("elem", "elem", [it])
            px.assign(g.target, el, s3, ctx)
            # which dtype's fields are run through, and the term that stands for the dtype of the field at hand
            src = it.args[0] if _is_call(it, "keys", "values", "items") and len(it.args) == 1 and it.args[0] is not None else it
            if src.op != "attr" or src.name not in ("names", "fields") or (src.name == "names" and src is not it):
                continue
            d = src.args[0]
            how = it.name if it is not src else "keys"
            fields = _V("attr", "fields", [d])
            if how == "keys":
                fdt = _V("sub", None, [_V("sub", None, [fields, el]), _V("const", 0)])
            elif how == "values":
                fdt = _V("sub", None, [el, _V("const", 0)])
            else:
                fdt = _V("sub", None, [_V("sub", None, [el, _V("const", 1)]), _V("const", 0)])
            want = {("native", _nkey(_txt(fdt)))}
            if how == "keys":
                want.add(("native", _nkey(_txt(_V("sub", None, [d, el])))))          # D[n]: the dtype of the field named n
            vals = px.ev(node.elt, s3, ctx)
            if vals and all(want & _implied(px, v, s4, depth + 1) for v, s4 in vals):
                out.add(("native", _nkey(_txt(d))))
    except _Unrec:
        return set()
    return out


def _summary(px, fn):
    """{(kind, key in terms of the parameters)} implied by a true result of the repository function fn"""
    q = fn.qualname
    hit = _SUMMARY.get(q)
    if hit is not None:
        if hit[0] == "open" and (not _SUMSTACK or _SUMSTACK[-1] != q):
            return set()                # asked from inside another function whose summary would then rest on a hypothesis: nothing is promised
        return hit[1]                   # finished, or the hypothesis of the round in progress (a directly recursive call)
    cand = {(k, p) for p in fn.params if not p.startswith("*") for k in ("native", "contig")} | \
           {("native", p + ".dtype") for p in fn.params if not p.startswith("*")}
    for _round in range(4):
        _SUMMARY[q] = ("open", cand)
        _SUMSTACK.append(q)
        try:
            sub = _PX(px.repo, stop=_PY_STOP)
            res = sub.run(fn)
            new = None
            for status, ret, st in res:
                if status not in ("fall", "return"):
                    continue
                if ret is None or (ret.op == "const" and not ret.name):
                    continue                # this path returns a false value: it promises nothing
                imp = _implied(sub, ret, st) | set().union(*[_implied(sub, x, st) for x, b in st.facts() if b] or [set()])
                new = imp if new is None else (new & imp)
        except _Unrec:
            cand = set()
            break
        finally:
            _SUMSTACK.pop()
        new = (new or set()) & cand
        if new == cand:
            break
        cand = new
    else:
        cand = set()
    _SUMMARY[q] = ("done", cand)
    return cand


def _note_implied(px, st):
    """what the facts of a path imply (kept per state, consulted by _known_true)"""
    imp = set()
    for x, b in st.facts():
        if b:
            imp |= _implied(px, x, st)
    _IMPLIED[id(st)] = (st, imp)
    return imp


_CONTIG_FACTS = ("flags.c_contiguous", "flags.contiguous", "flags.carray", "flags['C_CONTIGUOUS']", "flags['C']", "flags['CONTIGUOUS']", "flags['CARRAY']")


def _contiguous(v, st):
    """True: the rows of v are stored one after the other (C order) whatever the caller passed; False: v is the caller's array or a view
    with its strides; None: not known"""
    if v is None:
        return None
    if _known_true(st, v, _CONTIG_FACTS):
        return True
    if v.op == "param":
        return False
    if v.op != "call":
        return None
    src = _array_source(v)
    if src is None:
        return None
    order = v.kw.get("order")
    c_order = order is None or (order.op == "const" and order.name in ("C", "K", "A", None))      # K / A of a table (one dimension): its rows in sequence
    nocopy = "copy" in v.kw and not (v.kw["copy"].op == "const" and v.kw["copy"].name is True)
    numpy_fn = v.args[0] is not None and _txt(v.args[0]) in _NUMPY
    if v.name in ("copy", "flatten") or (v.name == "array" and numpy_fn and not nocopy):
        return True if c_order else None
    if v.name == "ascontiguousarray" and numpy_fn:
        return True
    if v.name == "require" and numpy_fn:
        req = v.args[2] if len(v.args) > 2 else v.kw.get("requirements")
        names = [] if req is None else ([req] if req.op == "const" else list(req.args))
        if any(x.op == "const" and isinstance(x.name, str) and x.name.upper() in ("C", "C_CONTIGUOUS", "CONTIGUOUS") for x in names):
            return True
        return _contiguous(src, st)
    if v.name == "ravel":
        return True if c_order else None
    if v.name == "reshape":
        return True if _contiguous(src, st) else None
    return _contiguous(src, st)          # view / squeeze / asarray / atleast_1d / array(copy=False): the layout of the operand


_STRIDE_AWARE = ("STRIDE", "GETPTR", "FLAGS", "CONTIGUOUS", "FromAny", "FROM_O", "FROMANY", "NewCopy", "NewLikeArray", "Iter", "ITER", "CopyInto")


def _writer_walks_buffer(tu):
    """Records::Write takes the start of the array's buffer (PyArray_DATA / PyArray_BYTES) and consults neither strides nor flags, nor
    makes a contiguous array of its own: the rows must then lie one after the other in the buffer it is given"""
    if tu is None:
        return None
    seen, todo, names = set(), ["Records::Write"], set()
    while todo:
        q = todo.pop()
        fn = tu.funcs.get(q)
        if q in seen or fn is None or cfront.body_of(fn) is None:
            continue
        seen.add(q)
        for x in cfront.walk(cfront.body_of(fn)):
            if x.get("kind") in ("CallExpr", "CXXMemberCallExpr"):
                nm = cfront.callee_name(x)
                if nm:
                    names.add(nm)
                    if x.get("kind") == "CXXMemberCallExpr" and len(seen) < 40:
                        todo.append("Records::" + nm)
    if "Records::Write" not in seen or not ({"PyArray_DATA", "PyArray_BYTES"} & names):
        return None
    if any(nm.startswith(("PyArray_", "NpyIter", "PyArray")) and any(w in nm for w in _STRIDE_AWARE) for nm in names):
        return None
    return True


def recfile_write(chk, repo, tu=None, binary=None, only_binary=False):
    """binary=(rule, key, message): also demand contiguous rows on the binary path and report it under that rule (used by C01);
    only_binary: report nothing else"""
    fi = repo.func("esutil.recfile.Util.Recfile.write")
    m1 = "for text files the data are converted to native order before Records::Write (and only then)"
    m2 = "the in-place conversion is applied to a copy (the effect analysis of C15 decides that the caller's buffer is unreachable)"
    m3 = ("for text files the array handed to Records::Write has its rows one after the other in memory whatever array the caller passed (a copy, "
          "ascontiguousarray, or a test of its flags): the C++ writer walks the buffer from PyArray_DATA by the element sizes and never looks at the strides")
    k1, k2, k3 = "Recfile.write::native-order-before-text-write", "Recfile.write::converts-a-copy", "Recfile.write::text-write-gets-contiguous-rows"
    paths = _paths(chk, repo, fi, [(k1, m1), (k2, m2), (k3, m3)])
    if paths is None:
        return
    linear = _writer_walks_buffer(tu)
    v1, v2, v3, notes, notes3 = [], [], [], [], []
    v4, notes4 = [], []
    px = _PX(repo, stop=_PY_STOP)
    for ret, st in paths:
        _note_implied(px, st)
        calls = [(i, e[1]) for i, e in enumerate(st.events) if e[0] == "call"]
        convs = [(i, c) for i, c in calls if c.name in _INPLACE or c.name == "to_native"]
        raw = [c for i, c in calls if c.name in ("byteswap", "newbyteorder")]
        text = st.known.get("self.is_ascii")
        for i, w in calls:
            if w.name != "Write" or len(w.args) < 2:
                continue
            a = w.args[1]
            done = any(j < i and len(c.args) >= 2 and c.args[1] is a for j, c in convs if c.name in _INPLACE) or _is_call(a, "to_native")
            # numpy's own statement that every field of the array is in native order, asked on this path about the array or what it is a view / copy of
            native = _known_true(st, a, ("dtype.isnative",))
            if text is None:
                # the write is reached without asking whether the file is text -- unless the question is spelled in a way not known here
                other = [t for t in st.known if "delim" in t or "ascii" in t or "text" in t]
                v1.append(True if native and not (convs or raw) else (None if other or raw else False))
                notes.append("Write(%s) reached without a decision on self.is_ascii %s" % (_txt(a), other))
            elif text:
                # unconverted is a contradiction only for an array built in ways known here (view / copy / ... of the argument)
                v1.append(True if done or native else (None if raw or not _plain_array(a) else False))
                if not (done or native):
                    notes.append("text path writes %s unconverted" % _txt(a))
            else:
                bad = [c for j, c in convs if j < i] + raw
                v1.append(not bad)
                if bad:
                    notes.append("binary path converts: %s" % [_txt(c) for c in bad])
            if text is False and binary is not None:
                cgb = _contiguous(a, st)
                sure_b = cgb is False and linear and _plain_array(a)
                v4.append(True if cgb else (False if sure_b else None))
                if not cgb:
                    notes4.append("on the binary path Write gets %s, %s" % (_txt(a), "the caller's array as it is or a view of it: a strided table (t[::2]) is "
                                  "written from the rows of the underlying buffer" if cgb is False else "whose memory layout is not known here"))
            if text is not False:
                cg = _contiguous(a, st)
                if cg is None and a.op == "call" and a.args[0] is None:
                    # a helper of the repository that was not followed: contiguous when each of its paths returns a contiguous array
                    tgt = repo.funcs.get(repo.resolve_name(fi.module, a.name))
                    if tgt is not None and not tgt.cls:
                        try:
                            rets = [(r, s) for status, r, s in _PX(repo, stop=_PY_STOP).run(tgt) if status in ("fall", "return")]
                            if rets and all(_contiguous(r, s) is True for r, s in rets):
                                cg = True
                                chk.analysed_unit(tgt.qualname)
                        except _Unrec:
                            pass
                if cg:
                    v3.append(True)
                elif text is None:
                    v3.append(None)
                    notes3.append("Write(%s) reached without a decision on self.is_ascii" % _txt(a))
                else:
                    sure = cg is False and linear and _plain_array(a)
                    v3.append(False if sure else None)
                    facts = sorted(t for t, b in st.known.items() if b and t != "self.is_ascii")
                    notes3.append("on the text path%s Write gets %s, %s" % (
                        (" where " + " and ".join(facts)) if facts else "", _txt(a),
                        "the caller's array as it is or a view of it: a strided table (t[::2], a column-sliced view) is written from the rows of the underlying buffer"
                        if cg is False else "whose memory layout is not known here"))
        for i, c in convs:
            inplace = c.name in _INPLACE or ("inplace" in c.kw and not (c.kw["inplace"].op == "const" and not c.kw["inplace"].name))
            if not inplace:
                v2.append(True)
                continue
            x = c.args[1] if len(c.args) >= 2 else None
            v2.append(_fresh(x))
            if not _fresh(x):
                notes.append("in-place conversion of %s, which is not a fresh copy, on the path %s" % (_txt(x), sorted(st.known.items())))
        for c in raw:
            v2.append(True if (c.name == "newbyteorder" or _fresh(c.args[0])) else None)
    if binary is not None:
        chk.ob(binary[0], binary[1], _verdict(v4) if v4 else None, fi.where(), binary[2] + (" (%s)" % "; ".join(notes4[:3]) if notes4 else "")
               + ("" if linear else " [Records::Write was not recognised as walking the buffer linearly]"))
    if only_binary:
        return
    chk.ob("R04.3", k1, _verdict(v1), fi.where(), m1 + (" (%s)" % "; ".join(notes[:3]) if notes else ""))
    chk.ob("R04.3", k2, _verdict(v2), fi.where(), m2 + (" (%s)" % "; ".join(notes[:3]) if notes else ""))
    chk.ob("R04.3", k3, _verdict(v3), fi.where(), m3 + (" (%s)" % "; ".join(notes3[:3]) if notes3 else "")
           + ("" if linear else " [Records::Write was not recognised as walking the buffer linearly]"))


# ---- every column type of the property is accepted by the text writer (R04.3 ...::text-write-accepts-every-listed-type) -----------------------
# A write entry point (and a function of the repository it calls on a path that is not known to be binary) may refuse a table: a path that ends in
# `raise`.  When the tests that lead to the raise read the type of a field -- <dtype>[name], <dtype>.fields[name][0], an entry of <dtype>.descr,
# and .base / .kind / .str / .char / .itemsize / .name / .byteorder of it -- they are evaluated over the finite domain of field types the property
# quantifies over ({i1..u8, f4, f8, S1..S12} x {scalar, 1-d, 2-d} x {'<', '>'}; each type is an abstract record of the attributes numpy
# documents for it, not a run of the code): no member of the domain may satisfy them all.
_NP_CHAR = {"i1": "b", "u1": "B", "i2": "h", "u2": "H", "i4": "i", "u4": "I", "i8": "l", "u8": "L", "f4": "f", "f8": "d"}
_NP_NAME = {"i": "int", "u": "uint", "f": "float"}


class _FT:
    """the documented attributes of the numpy dtype of one field"""

    def __init__(self, code, order, shape=()):
        kind, size = code[0], int(code[1:])
        n = 1
        for x in shape:
            n *= x
        self.shape, self.names, self.fields, self.ndim = tuple(shape), None, None, len(shape)
        elem = self if not shape else _FT(code, order)
        self.base = elem
        self.subdtype = (elem, tuple(shape)) if shape else None
        if shape:
            self.kind, self.char, self.itemsize, self.byteorder = "V", "V", n * size, "|"
            self.str, self.name, self.isnative = "|V%d" % (n * size), "void%d" % (8 * n * size), elem.isnative
        elif kind == "S":
            self.kind, self.char, self.itemsize, self.byteorder, self.str, self.name, self.isnative = "S", "S", size, "|", "|S%d" % size, "bytes%d" % (8 * size), True
        else:
            self.kind, self.char, self.itemsize = kind, _NP_CHAR[code], size
            self.byteorder = "|" if size == 1 else ("=" if order == "<" else ">")
            self.str, self.name, self.isnative = ("|" if size == 1 else order) + code, "%s%d" % (_NP_NAME[kind], 8 * size), size == 1 or order == "<"
        self.text = (order if not (kind == "S" or size == 1) else "|") + code + (" sub-array %s" % (tuple(shape),) if shape else "")


def _ft_domain():
    return [_FT(c, o, sh) for c in list(NEEDED.values()) + ["S1", "S4", "S12"] for o in ("<", ">") for sh in ((), (3,), (2, 2))
            if not (o == ">" and c[0] == "S")]


def _is_dt(t, dparams):
    return t is not None and ((t.op == "attr" and t.name == "dtype") or (t.op == "param" and t.name in dparams)
                              or (_is_call(t, "dtype") and len(t.args) == 2 and _is_dt(t.args[1], dparams)))


def _ft_root(t, dparams):
    """'dtype' when the term is the dtype of a field of the table, 'str' when it is the type string of an entry of its descriptor"""
    if t is None or t.op != "sub":
        return None
    b, i = t.args
    if _is_dt(b, dparams) and not (i.op == "const" and isinstance(i.name, int)) and i.op != "other":
        return "dtype"
    if i.op == "const" and i.name == 0 and b.op == "sub" and b.args[0].op == "attr" and b.args[0].name == "fields" and _is_dt(b.args[0].args[0], dparams):
        return "dtype"
    if i.op == "const" and i.name == 1 and b.op == "elem" and b.args and b.args[0].op == "attr" and b.args[0].name == "descr" and _is_dt(b.args[0].args[0], dparams):
        return "str"
    return None


_MUTATORS = ("append", "extend", "insert", "remove", "pop", "clear", "add", "discard", "update", "sort", "reverse", "setdefault", "popitem",
             "difference_update", "intersection_update", "symmetric_difference_update", "__setitem__", "__delitem__")


def _module_collection(mod, name):
    """the members of a module-level list / tuple / set / frozenset display of literals (the keys of a dict display) bound once and never changed in the
    module (no mutating method called on the name, no item assigned or deleted, not passed whole to a call); _NoEval otherwise"""
    node = mod.consts.get(name) if mod is not None else None
    if node is None or not _bound_once(mod, name):
        raise _NoEval()
    for x in ast.walk(mod.tree):
        if isinstance(x, ast.Attribute) and isinstance(x.value, ast.Name) and x.value.id == name and x.attr in _MUTATORS:
            raise _NoEval()
        if isinstance(x, ast.Subscript) and isinstance(x.value, ast.Name) and x.value.id == name and isinstance(x.ctx, (ast.Store, ast.Del)):
            raise _NoEval()

    def members(n, depth=0):
        if isinstance(n, ast.Call) and isinstance(n.func, ast.Name) and n.func.id in ("frozenset", "set", "tuple", "list") and len(n.args) == 1 and not n.keywords:
            return members(n.args[0], depth + 1)
        if isinstance(n, ast.Dict) and all(k is not None for k in n.keys):
            n = ast.Tuple(elts=list(n.keys))
        if isinstance(n, ast.BinOp) and isinstance(n.op, ast.Add) and depth < 4:
            return members(n.left, depth + 1) + members(n.right, depth + 1)
        if isinstance(n, ast.Name) and n.id != name and depth < 4:
            return _module_collection(mod, n.id)
        if not isinstance(n, (ast.List, ast.Tuple, ast.Set)):
            raise _NoEval()
        vs = [_literal(mod, e) for e in n.elts]
        if any(v is _NODEF for v in vs):
            raise _NoEval()
        return tuple(vs)
    return members(node)


def _tyev(t, T, dparams, mod=None):
    """the python value of a term when the field it speaks about has the type T; _NoEval for anything not modelled"""
    if t is None:
        raise _NoEval()
    t = _unbool(t)
    r = _ft_root(t, dparams)
    if r == "dtype":
        return T
    if r == "str":
        return T.base.str
    o = t.op
    if o == "const":
        return t.name
    if o == "name":
        return _module_collection(mod, t.name)
    ev = lambda x: _tyev(x, T, dparams, mod)          # noqa: E731
    plain = lambda *vs: all(isinstance(v, (str, int, bool, tuple, bytes, type(None))) for v in vs)          # noqa: E731
    try:
        if o == "attr":
            b = ev(t.args[0])
            if isinstance(b, _FT) and t.name in ("kind", "char", "str", "itemsize", "name", "byteorder", "base", "shape", "names", "fields", "subdtype", "isnative", "ndim"):
                return getattr(b, t.name)
            raise _NoEval()
        if o == "seq" and t.name in ("tuple", "list", "set"):
            return tuple(ev(x) for x in t.args)
        if o == "sub":
            b = ev(t.args[0])
            i = t.args[1]
            if not plain(b):
                raise _NoEval()
            if i.op == "other" and i.name == "slice" and len(i.args) == 3:
                return b[slice(*[ev(x) for x in i.args])]
            return b[ev(i)]
        if o == "cmp":
            a, b = ev(t.args[0]), ev(t.args[1])
            if t.name in ("is", "is not") and (a is None or b is None):
                return (a is b) == (t.name == "is")
            if not plain(a, b) or (isinstance(b, tuple) and not plain(*b)):
                raise _NoEval()
            return {"==": lambda: a == b, "!=": lambda: a != b, "in": lambda: a in b, "not in": lambda: a not in b,
                    "<": lambda: a < b, "<=": lambda: a <= b, ">": lambda: a > b, ">=": lambda: a >= b}[t.name]()
        if o == "not":
            return not ev(t.args[0])
        if o == "bool":
            vs = [ev(x) for x in t.args]
            res = vs[0]
            for x in vs[1:]:
                res = (res and x) if t.name == "and" else (res or x)
            return res
        if o == "binop" and t.name == "Add":
            a, b = ev(t.args[0]), ev(t.args[1])
            if plain(a, b):
                return a + b
        if o == "call" and t.args[0] is not None and not t.kw and t.name in ("startswith", "endswith", "lower", "upper", "strip", "lstrip", "rstrip") and len(t.args) <= 2:
            recv = ev(t.args[0])
            if isinstance(recv, str):
                return getattr(recv, t.name)(*[ev(x) for x in t.args[1:]])
        if o == "call" and t.args[0] is None and not t.kw and t.name in ("len", "str", "int") and len(t.args) == 2:
            a = ev(t.args[1])
            if plain(a):
                return {"len": len, "str": str, "int": int}[t.name](a)
    except _NoEval:
        raise
    except Exception:
        raise _NoEval()
    raise _NoEval()


def _refused_type(st, dparams, entry, mod=None):
    """a raise path: (True, None) no listed type takes it / it does not depend on a field's type; (False, T) the listed type T takes it;
    (None, why) open"""
    facts = st.facts()
    about = [(t, b) for t, b in facts if _mentions(t, lambda x: _ft_root(x, dparams) is not None) is not None]
    if not about:
        return True, None
    rest = [(t, b) for t, b in facts if not any(t is x for x, _b in about)]
    open_ = None
    for T in _ft_domain():
        sat, unknown = True, False
        for t, b in about:
            try:
                if bool(_tyev(t, T, dparams, mod)) != b:
                    sat = False
                    break
            except _NoEval:
                unknown = True
        if not sat:
            continue
        if unknown:
            open_ = open_ or "a test on the type of a field is not modelled: %s" % "; ".join(_txt(t) for t, _b in about)[:200]
            continue
        other = [t for t, _b in rest if not (entry and _txt(t).startswith("self."))]
        if other:
            open_ = open_ or "the refusal of %s also depends on %s" % (T.text, "; ".join(_txt(t) for t in other)[:200])
            continue
        return False, T
    return (None, open_) if open_ else (True, None)


def text_types_accepted(chk, repo):
    m = ("a table whose fields are of the types of the property (i1..u8, f4, f8, fixed-width bytes; scalars or sub-arrays; either byte order) is not refused "
         "by the text write path: no path that ends in raise is taken because of the type of such a field")
    for qual, flag, binary_when in (("esutil.recfile.Util.Recfile.write", "self.is_ascii", False), ("esutil.sfile.SFile.write", "self._delim is None", True)):
        try:
            fi = repo.func(qual)
        except Exception:
            continue
        key = "%s.%s::text-write-accepts-every-listed-type" % (fi.cls, fi.name)
        try:
            px = _PX(repo, stop=_PY_STOP)
            res = px.run(fi)
        except _Unrec as e:
            chk.ob("R04.3", key, None, fi.where(), "%s [path evaluation of %s gave up: %s]" % (m, fi.name, e))
            continue
        vs, notes, callees = [True], [], {}
        for status, ret, st in res:
            if st.known.get(flag) is binary_when:
                continue
            if status == "raise":
                r, x = _refused_type(st, (), True, fi.module)
                vs.append(r)
                if r is False:
                    notes.append("%s raises for a field of type %s on the path where %s" % (fi.name, x.text, " and ".join(
                        "%s%s" % ("" if b else "not ", _txt(t)) for t, b in st.facts())[:300]))
                elif r is None:
                    notes.append(x)
            for e in st.events:
                if e[0] != "call" or e[1].name in _PY_STOP:
                    continue
                c = e[1]
                recv = c.args[0]
                if recv is None or (recv.op in ("name", "attr") and _pure(recv) and not _txt(recv).startswith("self")):
                    tgt = repo.funcs.get(repo.resolve_name(fi.module, (_txt(recv) + "." if recv is not None else "") + c.name))
                elif recv.op == "param" and recv.name == "self" and fi.cls:
                    tgt = repo.funcs.get("%s.%s.%s" % (fi.module.name, fi.cls, c.name))
                else:
                    tgt = None
                if tgt is None or tgt.qualname == fi.qualname:
                    continue
                params = [p for p in tgt.params if not p.startswith("*")][(1 if tgt.cls else 0):]
                dps = {p for p, a in zip(params, c.args[1:]) if _is_dt(a, ())} | {p for k, a in c.kw.items() for p in params if p == k and _is_dt(a, ())}
                callees.setdefault(tgt.qualname, (tgt, set()))[1].update(dps | ({"dtype"} & set(params)))
        for q, (tgt, dps) in sorted(callees.items()):
            try:
                cres = _PX(repo, stop=_PY_STOP).run(tgt)
            except _Unrec:
                continue              # not a construct this rule is about unless it can be read
            chk.analysed_unit(q)
            for status, ret, st in cres:
                if status != "raise":
                    continue
                r, x = _refused_type(st, tuple(dps), False, tgt.module)
                vs.append(r)
                if r is False:
                    notes.append("%s, called by %s before the text rows are written, raises for a field of type %s: the tests %s hold for it" % (
                        tgt.name, fi.name, x.text, " and ".join("%s%s" % ("" if b else "not ", _txt(t)) for t, b in st.facts())[:300]))
                elif r is None:
                    notes.append("%s: %s" % (tgt.name, x))
        chk.ob("R04.3", key, _verdict(vs), fi.where(), m + ((" (%s)" % "; ".join(notes[:3])) if notes else ""))


def _udtype(v):
    """the dtype the caller asked for: a parameter / keyword named dtype, possibly passed through numpy.dtype"""
    if v is None:
        return False
    if v.op == "param" and v.name == "dtype":
        return True
    if _is_call(v, "get", "pop") and len(v.args) >= 2 and v.args[1].op == "const" and v.args[1].name == "dtype":
        return True
    return _is_call(v, "dtype") and len(v.args) == 2 and _udtype(v.args[1])


def _truth(v, st):
    return None if v is None else _fold(v, st)


class _NoEval(Exception):
    pass


# methods of str that are functions of the string alone (constant evaluation of a test over a finite domain of strings)
_STR_METHODS = ("startswith", "endswith", "lower", "upper", "strip", "lstrip", "rstrip", "isspace", "isalpha", "isdigit", "isalnum", "isprintable")


def _cev(t, subject, value):
    """the python value of a term when the term `subject` has the given value; _NoEval when the term reads anything else"""
    if t is None:
        raise _NoEval()
    if callable(subject):                      # a predicate that recognises the subject in more than one spelling
        if subject(t):
            return value
    elif t is subject or (_pure(t) and _pure(subject) and _txt(t) == _txt(subject)):
        return value
    t = _unbool(t)
    o = t.op
    if o == "const":
        return t.name
    if o == "seq" and t.name in ("tuple", "list", "set"):
        return tuple(_cev(x, subject, value) for x in t.args)
    try:
        if o == "sub":
            b = _cev(t.args[0], subject, value)
            i = t.args[1]
            if i.op == "other" and i.name == "slice" and len(i.args) == 3:
                return b[slice(*[_cev(x, subject, value) for x in i.args])]
            return b[_cev(i, subject, value)]
        if o == "cmp":
            a, b = _cev(t.args[0], subject, value), _cev(t.args[1], subject, value)
            return {"==": lambda: a == b, "!=": lambda: a != b, "is": lambda: a is b or (a == b and type(a) is type(b)),
                    "is not": lambda: not (a is b or (a == b and type(a) is type(b))), "in": lambda: a in b, "not in": lambda: a not in b,
                    "<": lambda: a < b, "<=": lambda: a <= b, ">": lambda: a > b, ">=": lambda: a >= b}[t.name]()
        if o == "not":
            return not _cev(t.args[0], subject, value)
        if o == "bool":
            vs = [_cev(x, subject, value) for x in t.args]
            r = vs[0]
            for x in vs[1:]:
                r = (r and x) if t.name == "and" else (r or x)
            return r
        if o == "binop" and t.name == "Add":
            return _cev(t.args[0], subject, value) + _cev(t.args[1], subject, value)
        if o == "call" and t.args[0] is not None and not t.kw and t.name in _STR_METHODS and len(t.args) <= 2:
            recv = _cev(t.args[0], subject, value)
            if isinstance(recv, str):
                return getattr(recv, t.name)(*[_cev(x, subject, value) for x in t.args[1:]])
        if o == "call" and t.args[0] is None and not t.kw and t.name == "len" and len(t.args) == 2:
            x = _cev(t.args[1], subject, value)
            if isinstance(x, (str, tuple)):
                return len(x)
    except _NoEval:
        raise
    except Exception:
        raise _NoEval()
    raise _NoEval()


_MODES = ("r", "r+", "w", "w+", "a")          # the documented modes and one that is none of them


def _opened_for_reading(mode, st):
    """Is the file opened for reading on this path?  Decided over the finite domain of the mode string: the values the facts of the path
    allow -- each fact that speaks about the mode and constants only is evaluated for every value (mode[0] == 'r', mode in ('r', 'r+'),
    mode.startswith('r') ... all come out the same) -- either all begin with r (True), or none does (False); None: open, "dead": no
    value is left (a path that cannot be taken)"""
    if mode is None:
        return None
    if mode.op == "const" and isinstance(mode.name, str):
        return mode.name[:1] == "r"
    left = []
    for m in _MODES:
        ok = True
        for t, truth in st.facts():
            try:
                if bool(_cev(t, mode, m)) != truth:
                    ok = False
                    break
            except _NoEval:
                continue                # a fact about something else: does not narrow the mode
        if ok:
            left.append(m)
    if not left:
        return "dead"
    rs = {m[:1] == "r" for m in left}
    return rs.pop() if len(rs) == 1 else None


# the single-character delimiters the property quantifies over
_DELIMS = (",", ":", "\t", " ", ";", "|")


def _is_delim_source(t):
    """the delimiter the caller of Recfile.open gave: the parameter `delim`, or the entry `delim` of a parameter that collects the
    keywords (keys.get('delim', ...), keys.pop('delim', ...), keys['delim'])"""
    if t is None:
        return False
    if t.op == "param":
        return t.name == "delim"
    if t.op == "call" and t.name in ("get", "pop") and not t.kw and len(t.args) in (2, 3):
        return t.args[0] is not None and t.args[0].op == "param" and t.args[1].op == "const" and t.args[1].name == "delim"
    if t.op == "sub":
        return t.args[0].op == "param" and t.args[1].op == "const" and t.args[1].name == "delim"
    return False


def _mentions_term(t, pred, depth=0):
    if t is None or depth > 12:
        return False
    if pred(t):
        return True
    return any(_mentions_term(x, pred, depth + 1) for x in list(t.args) + list(t.kw.values()))


def _delimiter_kept(op, paths):
    """R04.3 Recfile.open::delimiter-reaches-the-text-engine.  The property holds "for every single-character delimiter"; a necessary
    condition is that each of them, given by the caller, is the delimiter of the Recfile and the one the text engine (records.Records)
    is made with -- not replaced by None (binary file) or by another character.  Decided over the finite domain of the delimiters of
    the property: on every normal-exit path the branch facts that speak about the caller's delimiter and constants are evaluated for
    each delimiter (constant evaluation of ==, in, strip(), isspace(), len(), truthiness ...), which gives the delimiters the path
    can be taken with; for each of them the final self.delim and the `delim` argument of every Records(...) made on the path must
    evaluate to that delimiter, and every delimiter must be left with at least one normal-exit path.
    -> (verdict, notes)"""
    vs, notes, served = [], [], set()
    for ret, st in paths:
        facts = st.facts()
        opaque = False          # a fact about the delimiter that is not evaluated: the path may be narrower than computed
        left = []
        for d in _DELIMS:
            ok = True
            for t, truth in facts:
                try:
                    if bool(_cev(t, _is_delim_source, d)) != truth:
                        ok = False
                        break
                except _NoEval:
                    if _mentions_term(t, _is_delim_source):
                        opaque = True
            if ok:
                left.append(d)
        if not left:
            continue
        other = _self_calls(st, ("close", "_count_nrows"))
        soft = opaque or bool(other)
        about = sorted(txt for txt, b in st.known.items() if txt in st.kterm and _mentions_term(st.kterm[txt], _is_delim_source))
        about = ", ".join("%s is %s" % (txt, st.known[txt]) for txt in about) or "no test of the delimiter"
        engines = [e[1] for e in st.events if e[0] == "call" and e[1].name == "Records"]
        if engines:
            served.update(left)
        sinks = [("self.delim", st.heap.get(("self", "delim")))]
        for c in engines:
            if "delim" in c.kw:
                sinks.append(("Records(delim=)", c.kw["delim"]))
            else:
                vs.append(None)
                notes.append("a Records(...) is made without a `delim` keyword")
        for what, term in sinks:
            if term is None:
                vs.append(None)
                continue
            for d in left:
                try:
                    got = _cev(term, _is_delim_source, d)
                except _NoEval:
                    vs.append(None)
                    notes.append("%s = %s is not evaluated for delim=%r" % (what, _txt(term), d))
                    break
                if got == d and type(got) is type(d):
                    vs.append(True)
                else:
                    vs.append(None if soft else False)
                    notes.insert(0, "for delim=%r (path where %s) %s is %r instead of the caller's delimiter%s" % (
                        d, about, what, got, " [the path has tests / self calls that were not evaluated]" if soft else ""))
    for d in _DELIMS:
        if d not in served:
            vs.append(False if paths else None)
            notes.insert(0, "no normal-exit path of open makes the text engine (records.Records) for delim=%r" % d)
    return _verdict(vs), notes


def recfile_open(chk, repo):
    op = repo.func("esutil.recfile.Util.Recfile.open")
    m1 = "the reader's dtype loses its byte order exactly for text files"
    m2 = "stripping uses remove_dtype_byteorder (checked by C16 R16.5) or a function whose result is judged the same way"
    m3 = "a file is text exactly when a delimiter is given"
    k1, k2, k3 = "Recfile.open::reader-dtype-stripped-for-text-only", "Recfile.open::stripper", "Recfile.open::text-iff-delimiter"
    paths = _paths(chk, repo, op, [(k1, m1), (k2, m2), (k3, m3)])
    if paths is None:
        return
    v1, v2, v3, notes = [], [], [], []
    for ret, st in paths:
        asc = st.heap.get(("self", "is_ascii"))
        delim = st.heap.get(("self", "delim"))
        mode = st.heap.get(("self", "mode"))
        # text exactly when a delimiter is given: is_ascii == (delim is not None) in the final state of every path
        if asc is None or delim is None:
            other = _self_calls(st, ("close", "_count_nrows"))
            v3.append(None if (asc is None) == (delim is None) or other else False)
            notes.append("a path leaves self.is_ascii / self.delim unset %s" % (other or ""))
            text = None
        else:
            want = _fold(_V("cmp", "is not", [delim, _V("const", None)]), st)
            text = _fold(asc, st)
            if asc.op == "cmp" and asc.name in ("is not", "is") and _txt(asc.args[0]) == _txt(delim) and asc.args[1].op == "const" and asc.args[1].name is None:
                v3.append(asc.name == "is not")
            elif want is None or text is None:
                v3.append(None)
                notes.append("is_ascii=%s with delim=%s undecided under %s" % (_txt(asc), _txt(delim), sorted(st.known.items())))
            else:
                v3.append(want == text)
                if want != text:
                    notes.append("is_ascii=%s although delim=%s under %s" % (_txt(asc), _txt(delim), sorted(st.known.items())))
        # the reader
        reading = _opened_for_reading(mode, st)
        if reading == "dead":
            continue
        if not reading:
            if reading is None:
                v1.append(None)
                notes.append("a path does not decide whether the file is opened for reading (%s)" % sorted(st.known.items()))
            continue
        d = st.heap.get(("self", "dtype"))
        inner = d.args[1] if _is_call(d, "dtype") and len(d.args) == 2 else d
        sd = _stripped_dtype(repo, op, inner)
        strip = sd[0] if sd is not None else None
        if text is None or d is None:
            v1.append(None)
            notes.append("reader dtype %s with text-ness undecided" % _txt(d))
        elif text:
            ok = strip is not None and _udtype(sd[1]) and _is_call(d, "dtype")
            v1.append(True if ok else (False if _udtype(d) else None))
            # the library's stripper, or another function of the repository whose result was judged not to carry the byte order
            if strip is None:
                v2.append(False if _udtype(d) else None)
            else:
                tgt = _resolve_call(repo, op, strip)
                try:
                    v2.append(True if strip.name == "remove_dtype_byteorder" else (_stripper_verdict(repo, tgt)[0] if tgt is not None else None))
                except _Unrec:
                    v2.append(None)
            if not ok:
                notes.append("text reader dtype is %s" % _txt(d))
        else:
            v1.append(True if _udtype(d) else (False if strip is not None else None))
            if not _udtype(d):
                notes.append("binary reader dtype is %s" % _txt(d))
    if not any(v is True for v in v1):
        v1.append(None)
    extra = (" (%s)" % "; ".join(notes[:3])) if notes else ""
    chk.ob("R04.3", k1, _verdict(v1), op.where(), m1 + extra)
    chk.ob("R04.3", k2, _verdict(v2), op.where(), m2 + extra)
    chk.ob("R04.3", k3, _verdict(v3), op.where(), m3 + extra)
    v4, n4 = _delimiter_kept(op, paths)
    chk.ob("R04.3", "Recfile.open::delimiter-reaches-the-text-engine", v4, op.where(),
           "each single-character delimiter of the property (%s) given by the caller stays the delimiter of the Recfile and is the one the text engine "
           "is made with%s" % (" ".join(repr(d) for d in _DELIMS), (" (%s)" % "; ".join(n4[:3])) if n4 else ""))


def make_header(chk, repo):
    mh = repo.func("esutil.sfile.SFile._make_header")
    m1 = "_DELIM is recorded for text files"
    m2 = "_DTYPE is data.dtype.descr, byte-order-free exactly for text files"
    k1, k2 = "SFile._make_header::delimiter-recorded", "SFile._make_header::dtype-stripped-for-text-only"
    paths = _paths(chk, repo, mh, [(k1, m1), (k2, m2)])
    if paths is None:
        return
    v1, v2, notes = [], [], []
    for ret, st in paths:
        hk = _hkey(ret)
        dl = st.heap.get((hk, "['_DELIM']"))
        dt = st.heap.get((hk, "['_DTYPE']"))
        text = _fold(_V("cmp", "is not", [_V("attr", "_delim", [_V("param", "self")]), _V("const", None)]), st)
        opaque = [_txt(e[1]) for e in st.events if e[0] == "call" and e[1].args[0] is ret and e[1].name not in ("pop", "get", "keys", "items", "values", "copy")
                  and not (e[1].name == "update" and (hk, "['_DTYPE']") in st.heap)] + \
            ([] if ret.op in ("seq", "call") else [_txt(ret)])
        # the stripped descriptor of data.dtype: a stripper that takes the descriptor gets data.dtype.descr, one that takes the dtype gets data.dtype
        sd = _stripped_dtype(repo, mh, dt)
        strip = sd[0] if sd is not None else None
        plain = (sd[1] is not None and _txt(sd[1]) == "data.dtype") if sd is not None else (dt is not None and _txt(dt) == "data.dtype.descr")
        if text is None:
            v1.append(None)
            v2.append(None)
            notes.append("a path does not decide self._delim is None (%s)" % sorted(st.known.items()))
        elif text:
            v1.append((_txt(dl) == "self._delim") if dl is not None else (None if opaque else False))
            v2.append(True if (strip is not None and plain) else ((None if opaque else False) if dt is None else (False if plain else None)))
            if not v1[-1] or not v2[-1]:
                notes.append("text header: _DELIM=%s _DTYPE=%s %s" % (_txt(dl), _txt(dt), opaque or ""))
        else:
            v1.append(dl is None or _txt(dl) == "self._delim")
            v2.append(True if (strip is None and plain) else ((None if opaque else False) if dt is None else (False if strip is not None else None)))
            if not v2[-1]:
                notes.append("binary header: _DTYPE=%s %s" % (_txt(dt), opaque or ""))
    extra = (" (%s)" % "; ".join(notes[:3])) if notes else ""
    chk.ob("R04.3", k1, _verdict(v1), mh.where(), m1 + extra)
    chk.ob("R04.3", k2, _verdict(v2), mh.where(), m2 + extra)
    # the entries the reader trusts are the library's own: nothing of the caller's header= lands on them afterwards
    m3 = ("the _DTYPE entry (and for a text file the _DELIM entry) of the header that is written is the one computed from the table and the file: "
          "after it is set, nothing taken from the caller's header= is stored under a key that can be that name")
    k3 = "SFile._make_header::own-entries-not-overridden-by-caller-header"
    v3, notes3 = [], []
    for ret, st in paths:
        text = _fold(_V("cmp", "is not", [_V("attr", "_delim", [_V("param", "self")]), _V("const", None)]), st)
        for name in ("_DTYPE",) + (("_DELIM",) if text else ()):
            r, why = _own_entry_kept(ret, st, name)
            if r is not None or why:
                v3.append(r)
            if why and why not in notes3:
                notes3.append(why)
    chk.ob("R04.3", k3, _verdict(v3), mh.where(), m3 + ((" (%s)" % "; ".join(notes3[:3])) if notes3 else ""))


def _key_may_be(i, name, st):
    """Can the subscript term i be the string `name` on this path?  False: a fact of the path rules it out (the fact is evaluated with the key
    bound to the name: key.lower() not in (...), key != '_DTYPE', key.upper() in RESERVED -> continue all decide) or the key runs over
    constants that do not contain it; True: the key comes from a parameter and nothing rules the name out; None: not known here"""
    if i.op == "const":
        return i.name == name
    for t, truth in st.facts():
        try:
            if bool(_cev(t, i, name)) != truth:
                return False
        except _NoEval:
            continue
    src = i
    while src.op in ("elem", "sub") or (src.op == "call" and src.name in ("keys", "items", "list", "sorted", "iter", "tuple", "copy", "deepcopy", "dict")):
        if src.op == "elem" and src.args and ((src.args[0].op == "seq" and all(x.op == "const" for x in src.args[0].args)) or src.args[0].op == "const"):
            vals = [x.name for x in src.args[0].args] if src.args[0].op == "seq" else src.args[0].name
            try:
                return name in vals
            except TypeError:
                return None
        nxt = [x for x in src.args if x is not None]
        if not nxt:
            break
        src = nxt[0]                      # the iterated / indexed object, the receiver of keys() / items(), the argument of list() / sorted()
    if src.op == "param" and src.name not in ("self", "data"):
        return True
    return None


def _own_entry_kept(ret, st, name):
    """(True / False / None, note): after the last store of <returned dict>[name] no store / update can put a value of the caller there"""
    hk, slot = _hkey(ret), "['%s']" % name
    if (hk, slot) not in st.heap:
        return None, None                      # reported by the rule on the entry itself
    same = lambda b: b is not None and (b is ret or _hkey(b) == hk)          # noqa: E731
    last = -1
    for n, e in enumerate(st.events):
        if e[0] == "store" and same(e[1]) and e[2] == slot:
            last = n
        elif e[0] == "call" and e[1].name == "update" and same(e[1].args[0]):
            lit = [a for a in e[1].args[1:] if a.op == "seq" and a.name == "dict"]
            if name in e[1].kw or any(k.op == "const" and k.name == name for a in lit for k in a.args[0::2]):
                last = n
    res, why = True, None
    for e in st.events[last + 1:]:
        r = True
        if e[0] == "store" and same(e[1]) and len(e) > 4 and e[4] is not None and e[2] != slot:
            r = _key_may_be(e[4], name, st)
            if r is not True:
                r = True if r is False else None
                msg = "after %s is set, %s[%s] = %s is stored and the key is not known here" % (name, _txt(ret), _txt(e[4]), _txt(e[3]))
            else:
                r = False
                msg = ("after %s is set, %s[%s] = %s is stored and no test on the path keeps the key from being '%s': an entry of that name in the caller's "
                       "header replaces the library's" % (name, _txt(ret), _txt(e[4]), _txt(e[3]), name))
        elif e[0] == "call" and e[1].name == "update" and same(e[1].args[0]):
            for a in e[1].args[1:]:
                if a.op == "seq" and a.name == "dict" and all(k.op == "const" for k in a.args[0::2]):
                    continue
                src = a
                while src.op == "call" and src.name in ("deepcopy", "copy", "dict") and len(src.args) >= 2:
                    src = src.args[-1] if src.args[0] is None or src.name != "copy" else src.args[0]
                if src.op == "param" and src.name not in ("self", "data"):
                    r, msg = False, "after %s is set, %s overwrites it with an entry of that name in the caller's header" % (name, _txt(e[1]))
                else:
                    r, msg = None, "after %s is set, %s may overwrite it" % (name, _txt(e[1]))
            if "**" in e[1].kw:
                r, msg = None, "after %s is set, %s may overwrite it" % (name, _txt(e[1]))
        if r is False:
            return False, msg
        if r is None:
            res, why = None, msg
    return res, why


_FOLDS = {"lower": str.lower, "upper": str.upper, "casefold": str.casefold}
_DICT_READS = ("get", "keys", "items", "values", "copy", "__contains__", "__getitem__", "__len__")


def _is_stored_header(v):
    """the header of the file being opened, as read_header() returns it"""
    return _is_call(v, "read_header")


def _folded_view(x, st):
    """x is a dict made on this path from the entries of a header h with every key passed through str.lower / upper / casefold:
    (h, fold name), "empty" when nothing was stored into the new dict on this path, or None (not recognised).  Recognised through
    the stores into the fresh dict: key = <key of an iteration over h>.fold(), value = the value that belongs to that key; the store
    may only be guarded by `folded key not in x` (first spelling wins, what a case-insensitive search from the front finds)."""
    fresh = x is not None and ((x.op == "seq" and x.name == "dict" and not x.args) or (_is_call(x, "dict") and x.args == [None] and not x.kw))
    if not fresh:
        return None
    for e in st.events:
        if (e[0] == "call" and e[1].args and e[1].args[0] is x and e[1].name not in _DICT_READS) or (e[0] == "del" and e[1] is x):
            return None                    # update / pop / setdefault / del ...: more than the rule follows
    stores = [e for e in st.events if e[0] == "store" and e[1] is x]
    if not stores:
        return "empty"
    found = set()
    for e in stores:
        v, i = e[3], e[4]
        if i is None or not (i.op == "call" and i.name in _FOLDS and len(i.args) == 1 and not i.kw and i.args[0] is not None):
            return None
        kx = i.args[0]
        h = None
        if kx.op == "sub" and kx.args[1].op == "const" and kx.args[1].name == 0 and kx.args[0].op == "elem" and _is_call(kx.args[0].args[0], "items") \
                and len(kx.args[0].args[0].args) == 1:
            el = kx.args[0]                                               # for k, v in h.items(): x[k.lower()] = v
            if v.op == "sub" and v.args[0] is el and v.args[1].op == "const" and v.args[1].name == 1:
                h = el.args[0].args[0]
        elif kx.op == "elem":
            el = kx                                                        # for k in h / h.keys(): x[k.lower()] = h[k]
            src = el.args[0]
            src = src.args[0] if _is_call(src, "keys") and len(src.args) == 1 else src
            if v.op == "sub" and v.args[0] is src and v.args[1] is el:
                h = src
        else:
            return None
        if h is None:
            return None
        # what the path knows about this entry: nothing but "its folded key is not in x yet"
        et, first = _txt(el), "%s in %s" % (_txt(i), _txt(x))
        for fact, truth in st.known.items():
            if et in fact and not (fact == first and truth is False):
                return None
        found.add((id(h), i.name))
        hv = h
    if len(found) != 1:
        return None
    return hv, next(iter(found))[1]


def _delim_from_header(d, st):
    """True: d is the entry of the stored header under the key `_delim`, whatever the case of the stored key; False: d provably is
    something else (a parameter, a constant, the entry of another key, a lookup that cannot match); None: not recognised"""
    if d is None:
        return None
    if d.op in ("param", "const"):
        return False
    key = hdr = None
    if _is_call(d, "_match_key") and len(d.args) >= 3 and d.args[0] is None:
        hdr, key = d.args[1], d.args[2]                                   # the library's own case-insensitive lookup
        if key.op != "const" or not isinstance(key.name, str):
            return None
        if key.name.lower() != "_delim":
            return False
        return True if _is_stored_header(hdr) else (False if hdr.op in ("param", "const") else None)
    if _is_call(d, "get", "__getitem__") and len(d.args) in (2, 3) and d.args[0] is not None and not d.kw:
        hdr, key = d.args[0], d.args[1]
        if len(d.args) == 3 and not (d.args[2].op == "const" and d.args[2].name is None):
            return None
    elif d.op == "sub":
        hdr, key = d.args
    else:
        return None
    if key.op != "const" or not isinstance(key.name, str):
        return None
    if key.name.lower() != "_delim":
        return False
    if _is_stored_header(hdr):
        return True if key.name == "_DELIM" else None                     # a case-sensitive lookup: right only for the spelling the writer stores
    fv = _folded_view(hdr, st)
    if fv is None or fv == "empty":
        return fv
    h, fold = fv
    if not _is_stored_header(h):
        return False if h.op in ("param", "const") else None
    return _FOLDS[fold](key.name) == key.name                             # a key in the other case is never found in the folded dict


def sfile_open(chk, repo):
    so = repo.func("esutil.sfile.SFile.open")
    m = "when reading, the delimiter comes from the stored header"
    k = "SFile.open::delimiter-from-header-on-read"
    paths = _paths(chk, repo, so, [(k, m)])
    if paths is None:
        return
    vs, notes, empties, read_ok = [], [], 0, False
    for ret, st in paths:
        if st.known.get("filename is None"):
            continue
        reading = st.known.get("mode[0] == 'r'")
        md = st.heap.get(("self", "_mode"))
        if reading is None and md is not None and md.op == "const" and isinstance(md.name, str):
            reading = md.name[:1] == "r"
        if reading is None and md is not None:
            reading = _opened_for_reading(md, st)          # another spelling of the same question (mode in ('r', 'r+'), startswith ...)
            if reading == "dead":
                continue
        d = st.heap.get(("self", "_delim"))
        rf = [e[1] for e in st.events if e[0] == "call" and e[1].name in ("Recfile", "Open")]
        passed = [_txt(c.kw["delim"]) if "delim" in c.kw else None for c in rf]
        if reading is None:
            vs.append(None)
            notes.append("a path does not decide mode[0] == 'r' (%s)" % sorted(st.known.items()))
        elif d is None or not rf:
            other = _self_calls(st, ("close", "read_header", "get_nrows"))
            vs.append(None if other else False)
            notes.append("a path opens the file without setting self._delim or without making the Recfile %s" % (other or ""))
        elif reading:
            # semantic condition: self._delim (and what the Recfile is opened with) is the entry of the header read from the file under the
            # key `_delim`, looked up without regard to case -- through the library's _match_key, or through a dict whose keys were folded
            ok = _delim_from_header(d, st)
            if ok == "empty":
                empties += 1                # the lookup is made in a dict that got no entry on this path (a header without entries)
                continue
            for c in rf:
                pv = c.kw.get("delim")
                same = pv is d or (pv is not None and _txt(pv) == _txt(d))
                if not same:
                    ok = None if (pv is None and "**" in c.kw and ok is not False) else (False if ok is False or pv is None or pv.op in ("param", "const") else None)
            vs.append(ok)
            read_ok = read_ok or ok is True
            if not ok:
                notes.append("reading: self._delim=%s, Recfile gets delim=%s%s" % (_txt(d), passed, "" if ok is False else " [lookup not recognised]"))
        else:
            vs.append(d.op == "param" and d.name == "delim" and all(p == "delim" for p in passed))
            if not vs[-1]:
                notes.append("writing: self._delim=%s, Recfile gets delim=%s" % (_txt(d), passed))
    if not any(v is True for v in vs) or (empties and not read_ok):
        vs.append(None)                     # no path on which the rule was seen to hold: nothing was recognised
    chk.ob("R04.3", k, _verdict(vs), so.where(), m + ((" (%s)" % "; ".join(notes[:3])) if notes else ""))


# ---- what the reader stored is what the caller gets (R04.6) -------------------------------------------------------------------------
# The property is about the values that come back: "integers and strings exactly" -- strings with leading, embedded and trailing blanks,
# empty strings included.  The C++ reader stores the bytes of the file as they are (R04.1 string::bytes-stored-unmodified); the Python
# wrappers between it and the caller (Recfile.read -> SFile.read -> sfile.read) may select (rows, fields, split, reduce) but must not
# rewrite.  Necessary condition, decided on the path terms: on every path that obtains an array from the reader object, (a) what is
# returned derives from that array and no operation that maps some value to a different one (strip family, case folding, padding,
# rounding, clipping, sorting ...) lies between the two, (b) after the read nothing is stored into the array or a view of it (a column
# of split_fields, a field, a slice), and no in-place method rewrites it.  Located by data flow: the reader object is an attribute the
# class assigns from Recfile(...) / Records(...) or an object made by such a call on the path; the array is the result of a read*
# method of it or a fresh array handed to one.  Private helpers are followed, so where the statement stands does not matter.
_READER_CLASSES = ("Recfile", "Records", "SFile", "Open")
_VALUE_CHANGERS = frozenset((
    "strip", "rstrip", "lstrip", "replace", "lower", "upper", "title", "capitalize", "swapcase", "casefold", "center", "ljust", "rjust", "zfill",
    "expandtabs", "translate", "removeprefix", "removesuffix", "partition", "rpartition", "round", "around", "round_", "rint", "fix", "floor", "ceil",
    "trunc", "clip", "nan_to_num", "abs", "absolute", "fabs", "negative", "sort", "sorted", "unique", "flip", "flipud", "roll", "reversed",
    "maximum", "minimum", "fmax", "fmin", "cumsum", "diff"))
_INPLACE_METHODS = frozenset(("sort", "fill", "put", "itemset", "partition", "setfield", "clip", "round"))
_NUMPY_OVERWRITERS = frozenset(("copyto", "put", "place", "putmask", "put_along_axis"))


def _term_kids(t):
    return [x for x in list(t.args) + list(t.kw.values()) if x is not None]


def _mentions(t, pred, seen=None):
    """some sub-term of t satisfies pred; free names of a comprehension / lambda kept as source are looked up in the scope it was made in"""
    if t is None:
        return None
    seen = seen if seen is not None else set()
    if id(t) in seen:
        return None
    seen.add(id(t))
    if pred(t):
        return t
    for x in _term_kids(t):
        r = _mentions(x, pred, seen)
        if r is not None:
            return r
    if t.op == "other" and t.node is not None and t.scope is not None and t.scope[1]:
        for n in ast.walk(t.node):
            if isinstance(n, ast.Name) and n.id in t.scope[1]:
                r = _mentions(t.scope[1][n.id], pred, seen)
                if r is not None:
                    return r
    return None


def _derives(t, srcs):
    return _mentions(t, lambda x: any(x is s for s in srcs)) is not None


def _changer_on(t, srcs):
    """text of a value-changing operation inside t that is applied to data of the reader, or None"""
    hit = _mentions(t, lambda x: x.op == "call" and x.name in _VALUE_CHANGERS and any(_derives(a, srcs) for a in _term_kids(x)))
    if hit is not None:
        return _txt(hit)
    hit = _mentions(t, lambda x: x.op == "other" and x.node is not None and _derives(x, srcs) and any(
        isinstance(n, ast.Call) and (n.func.attr if isinstance(n.func, ast.Attribute) else getattr(n.func, "id", None)) in _VALUE_CHANGERS for n in ast.walk(x.node)))
    return _txt(hit) if hit is not None else None


def _reader_attrs(repo, fi):
    """attributes of fi's class that hold a reader object: assigned somewhere in the class from Recfile(...) / Records(...) / Open(...)"""
    out = set()
    cls = fi.module.classes.get(fi.cls) if fi.cls else None
    for n in (ast.walk(cls) if cls is not None else ()):
        if isinstance(n, ast.Assign) and isinstance(n.value, ast.Call):
            f = n.value.func
            nm = f.attr if isinstance(f, ast.Attribute) else getattr(f, "id", None)
            if nm in _READER_CLASSES:
                out |= {t.attr for t in n.targets if isinstance(t, ast.Attribute) and isinstance(t.value, ast.Name) and t.value.id == "self"}
    return out


def _uses_attrs(node, attrs):
    return any(isinstance(n, ast.Attribute) and n.attr in attrs and isinstance(n.value, ast.Name) and n.value.id == "self" for n in ast.walk(node))


def _is_reader_object(v, attrs):
    if v is None:
        return False
    if v.op == "attr" and v.name in attrs and v.args[0].op == "param" and v.args[0].name == "self":
        return True
    return v.op == "call" and v.name in _READER_CLASSES


def _read_sources(st, attrs):
    """[(index of the event, arrays)]: results of read* methods of a reader object and the fresh arrays handed to them"""
    out = []
    for i, e in enumerate(st.events):
        if e[0] != "call":
            continue
        c = e[1]
        if c.args[0] is None or not _is_reader_object(c.args[0], attrs) or not c.name.lower().startswith("read") or c.name.lower().startswith("read_header") \
                or "header" in c.name.lower():
            continue
        out.append((i, [c] + [a for a in c.args[1:] if a is not None and a.op == "call"]))
    return out


def read_back_unchanged(chk, repo):
    m = "what the record reader stored is returned as it is: nothing is stored into the array after the read and no value-changing operation lies between the reader and the caller"
    for q in ("esutil.recfile.Util.Recfile.read", "esutil.recfile.Util.read", "esutil.sfile.SFile.read", "esutil.sfile.read"):
        key = "%s::returns-the-reader's-values" % q.split("esutil.", 1)[1]
        fi = repo.funcs.get(q)
        if fi is None:
            chk.ob("R04.6", key, None, "esutil", m + " [%s not found]" % q)
            continue
        chk.analysed_unit(fi.qualname)
        attrs = _reader_attrs(repo, fi)
        cls = fi.module.classes.get(fi.cls) if fi.cls else None
        # helpers that never touch the reader object (argument checking, row / column bookkeeping) are not followed: nothing they do can rewrite its data
        stop = set(_PY_STOP) | {n.name for n in (cls.body if cls is not None else ()) if isinstance(n, ast.FunctionDef) and not _uses_attrs(n, attrs)
                                and not any(isinstance(x, ast.Call) and isinstance(x.func, ast.Attribute) and isinstance(x.func.value, ast.Name) and x.func.value.id == "self"
                                            and x.func.attr.lower().startswith(("read", "_read", "_do_read")) for x in ast.walk(n))}
        try:
            px = _PX(repo, stop=stop)
            res = px.run(fi)
        except _Unrec as e:
            chk.ob("R04.6", key, None, fi.where(), "%s [path evaluation of %s gave up: %s]" % (m, fi.name, e))
            continue
        for h in px.inlined:
            chk.analysed_unit(h)
        vs, notes = [], []
        for status, ret, st in res:
            if status not in ("fall", "return"):
                continue
            found = _read_sources(st, attrs)
            if not found:
                continue
            first = min(i for i, _a in found)
            srcs = [a for _i, arrs in found for a in arrs]
            bad = None
            for e in st.events[first + 1:]:
                if e[0] == "store" and _derives(e[1], srcs) and not (e[1].op == "param"):
                    ch = _changer_on(e[3], srcs)
                    if ch is not None or e[3].op == "const":
                        bad = "%s%s = %s is stored into the array the reader filled" % (_txt(e[1]), e[2] if e[4] is not None else "." + e[2], ch or _txt(e[3]))
                        break
                    vs.append(None)
                    notes.append("a store into the reader's array after the read: %s%s = %s" % (_txt(e[1]), e[2], _txt(e[3])[:80]))
                elif e[0] == "call":
                    c = e[1]
                    if c.args[0] is not None and c.name in _INPLACE_METHODS and _derives(c.args[0], srcs) and not _is_reader_object(c.args[0], attrs):
                        bad = "%s rewrites the array the reader filled in place" % _txt(c)
                        break
                    if c.name in _NUMPY_OVERWRITERS and len(c.args) > 1 and c.args[1] is not None and _derives(c.args[1], srcs):
                        bad = "%s overwrites the array the reader filled" % _txt(c)
                        break
            if bad is None:
                ch = _changer_on(ret, srcs)
                if ch is not None:
                    bad = "the result passes through %s" % ch
            if bad is not None:
                vs.append(False)
                notes.append(bad)
            elif not _derives(ret, srcs):
                vs.append(None)
                notes.append("a path reads but returns %s" % _txt(ret)[:80])
            else:
                vs.append(True)
        if not any(v is True for v in vs):
            vs.append(None)
            notes.append("no path on which the reader's array was seen to be returned")
        notes = list(dict.fromkeys(notes))
        chk.ob("R04.6", key, _verdict(vs), fi.where(), m + ((" (%s)" % "; ".join(notes[:3])) if notes else ""))


# ---- every line of a text file is a row (R04.7) ---------------------------------------------------------------------------------------
# The writer ends each row with one newline and a row may consist of blanks only (a table of string fields holding blank strings, with a
# blank or tab delimiter or a single column), so when the number of rows is not given it is the number of lines after the offset, whatever
# the lines contain.  Necessary condition on the function whose result Recfile.open stores as the row count, on its text paths: a pass of
# the loop over the lines of the file adds exactly one to the count on every outcome of every test on the line; the equivalent spellings
# len(f.readlines()), len(list(f)), sum(1 for line in f), f.read().count("\n") pass, a comprehension / generator with a filter on the line
# does not.  Decided on the path terms (private helpers followed); a count that is put together differently gives no verdict.
_FILE_OPENERS = ("open", "TextIOWrapper", "BufferedReader")


def _file_derived(t, depth=0):
    if t is None or depth > 6:
        return False
    if t.op == "call":
        if t.name in _FILE_OPENERS:
            return True
        if t.name in ("iter", "enumerate", "list", "tuple") and t.args[0] is None and len(t.args) >= 2:
            return _file_derived(t.args[1], depth + 1)
        if t.name in ("readlines", "__iter__", "splitlines", "read") and t.args[0] is not None:
            return _file_derived(t.args[0], depth + 1)
    return False


def _is_line(t):
    return t.op == "elem" and bool(t.args) and _file_derived(t.args[0])


def _int_value(t):
    """the integer a term made of constants, + and - stands for, else None"""
    if t is None:
        return None
    if t.op == "const":
        return t.name if isinstance(t.name, int) and not isinstance(t.name, bool) else None
    if t.op == "binop" and t.name in ("Add", "Sub") and len(t.args) == 2:
        a, b = _int_value(t.args[0]), _int_value(t.args[1])
        if a is None or b is None:
            return None
        return a + b if t.name == "Add" else a - b
    return None


def _comprehension_count(t):
    """len([... for line in f ...]) / sum(1 for line in f ...): True when every line counts, False when a filter on the line drops some,
    None when it is not such a count"""
    if not (t.op == "call" and t.name in ("len", "sum") and t.args[0] is None and len(t.args) == 2 and not t.kw):
        return None, ""
    x = t.args[1]
    if t.name == "len" and x.op == "call" and x.name in ("readlines", "list", "tuple", "splitlines"):
        return (True if _file_derived(x) else None), ""
    if x.op != "other" or not isinstance(x.node, (ast.ListComp, ast.GeneratorExp, ast.SetComp)) or len(x.node.generators) != 1:
        return None, ""
    if isinstance(x.node, ast.SetComp):
        return None, ""
    g = x.node.generators[0]
    it = g.iter
    env = x.scope[1] if x.scope and x.scope[1] else {}
    src = env.get(it.id) if isinstance(it, ast.Name) else None
    if src is None or not _file_derived(src):
        return None, ""
    if t.name == "sum" and not (isinstance(x.node.elt, ast.Constant) and x.node.elt.value == 1):
        return None, ""
    tnames = {n.id for n in ast.walk(g.target) if isinstance(n, ast.Name)}
    for c in g.ifs:
        if any(isinstance(n, ast.Name) and n.id in tnames for n in ast.walk(c)):
            return False, "the filter `if %s` drops lines from the count" % norm(c)
        return None, ""
    return True, ""


def _row_counter(repo, op):
    """the method of the class whose result Recfile.open stores as the number of rows"""
    for n in ast.walk(op.node):
        if isinstance(n, ast.Assign) and isinstance(n.value, ast.Call) and isinstance(n.value.func, ast.Attribute) and isinstance(n.value.func.value, ast.Name) \
                and n.value.func.value.id == "self" and any(isinstance(t, ast.Attribute) and t.attr == "nrows" for t in n.targets):
            fi = repo.funcs.get("%s.%s.%s" % (op.module.name, op.cls, n.value.func.attr))
            if fi is not None:
                return fi
    return repo.funcs.get("%s.%s._count_nrows" % (op.module.name, op.cls))


def text_row_count(chk, repo):
    m = "without nrows=, the number of rows of a text file is the number of lines after the offset, whatever the lines contain"
    key = "Recfile::text-row-count-counts-every-line"
    op = repo.func("esutil.recfile.Util.Recfile.open")
    fi = _row_counter(repo, op)
    if fi is None:
        chk.ob("R04.7", key, None, op.where(), m + " [the function that counts the rows for Recfile.open was not found]")
        return
    paths = _paths(chk, repo, fi, [(key, m)], rule="R04.7")
    if paths is None:
        return
    self_ = _V("param", "self")
    vs, notes = [], []
    base = None
    rows = []
    for ret, st in paths:
        text = _fold(_V("cmp", "is not", [_V("attr", "delim", [self_]), _V("const", None)]), st)
        if text is None:
            text = _fold(_V("attr", "is_ascii", [self_]), st)
        if text is False:
            continue
        entered = [v for v in st.env.values() if v is not None and _mentions(v, _is_line) is not None]
        tests = [(t, b) for t, b in st.facts() if _mentions(t, _is_line) is not None]
        rows.append((ret, st, bool(entered) or bool(tests), tests))
        if not entered and not tests and _int_value(ret) is not None:
            base = _int_value(ret) if base is None else min(base, _int_value(ret))
    for ret, st, entered, tests in rows:
        n = _int_value(ret)
        if not entered:
            if n is not None:
                continue                          # no line was read on this path: the count of an empty file
            r, why = _comprehension_count(ret)
            if r is None and ret.op == "call" and ret.name == "count" and ret.args[0] is not None and _file_derived(ret.args[0]) and len(ret.args) == 2 \
                    and ret.args[1].op == "const" and ret.args[1].name in ("\n", b"\n"):
                r = True
            vs.append(r)
            if r is not True:
                notes.append(why or "the count %s is not recognised" % _txt(ret)[:80])
            continue
        if n is None or base is None:
            vs.append(None)
            notes.append("after one line the count is %s" % _txt(ret)[:80])
        elif n == base + 1:
            vs.append(True)
        elif tests:
            vs.append(False)
            notes.append("a line adds %d to the count when %s" % (n - base, " and ".join("%s(%s)" % ("" if b else "not ", _txt(t)) for t, b in tests[:2])))
        else:
            vs.append(False if n != base else None)
            notes.append("a pass over one line adds %d to the count" % (n - base))
    if not any(v is True for v in vs):
        vs.append(None)
        notes.append("no text path on which a line was seen to be counted")
    notes = list(dict.fromkeys(notes))
    chk.ob("R04.7", key, _verdict(vs), fi.where(), m + ((" (%s)" % "; ".join(notes[:3])) if notes else ""))


# ---- where the rows begin (R04.8) -----------------------------------------------------------------------------------------------------
# SFile hands the position at which the header ends to the record reader as the offset of the first row.  The first entry of the first
# row may be a fixed-width string that begins with blanks or tabs, and a binary row may begin with any byte, so the offset cannot depend
# on what follows the header: necessary condition, the position Records::read_sfile_header returns is (position just after the END line)
# + a constant, and the constant is the number of bytes the writer (SFile._write_header) puts after the END line.  Decided by an abstract
# interpretation of the function over the domain {integer, M + k, depends-on-the-bytes-read, unknown}, M being the stream position right
# after the marker was matched: the loop that reads the stream one byte per pass and leaves on a comparison with a literal containing END
# is the marker loop (a variable it increments once per pass is M + its start value); after it rewind / fseek / fread / fgetc / ungetc /
# ftell move and report the position by their C meaning; a loop or branch whose test depends on bytes read makes everything it assigns,
# and the position if it reads, data-dependent; paths that end in a throw are error paths (stdio is assumed to succeed).  A position that
# is data-dependent, or M + k with the wrong k, is a violation; anything the interpretation does not model gives no verdict.
_BYTE_READERS = ("fgetc", "getc", "getc_unlocked", "fgetc_unlocked")
_DATA_READERS = ("fgets", "fscanf", "vfscanf", "getline", "getdelim", "fgetws", "fgetwc", "getw")
_SEEKERS = ("fseek", "fseeko", "fseeko64", "myfseeko", "rewind", "fsetpos")
_TELLERS = ("ftell", "ftello", "ftello64", "myftello")
_CMP_CALLS = ("strncmp", "strcmp", "memcmp", "compare", "operator==", "operator!=", "strstr", "find", "rfind", "equal", "ends_with")
_INT_FORMATS = "ilnkKLIhHbB"
_DEP = "DATA"


def _ab_add(a, b, sign=1):
    if a is None or b is None:
        return None
    if a == _DEP or b == _DEP:
        return _DEP
    if isinstance(a, int) and isinstance(b, int):
        return a + sign * b
    if isinstance(a, tuple) and isinstance(b, int):
        return ("M", a[1] + sign * b)
    if isinstance(a, int) and isinstance(b, tuple) and sign == 1:
        return ("M", a + b[1])
    if isinstance(a, tuple) and isinstance(b, tuple) and sign == -1:
        return a[1] - b[1]
    return None


def _ab_show(v):
    if v == _DEP:
        return "a value that depends on the bytes read"
    if isinstance(v, tuple) and v[0] == "M":
        return "the end of the END line + %d" % v[1]
    return "unknown" if v is None else str(v)


def _local_var(n):
    n = cfront.strip(n)
    rd = n.get("referencedDecl") or {}
    if n.get("kind") == "DeclRefExpr" and rd.get("kind") in ("VarDecl", "ParmVarDecl"):
        return rd.get("name")
    return None


def _nested_free(n, stop=("WhileStmt", "ForStmt", "DoStmt", "SwitchStmt", "LambdaExpr")):
    """the nodes of n that are not inside a nested loop / switch"""
    todo = [n]
    while todo:
        x = todo.pop()
        if isinstance(x, dict) and x.get("kind"):
            yield x
            for c in reversed(_kids(x)):
                if c.get("kind") not in stop:
                    todo.append(c)


class _PosEval:
    def __init__(self, funcs, body):
        self.funcs, self.body = funcs, body
        self.env, self.pos, self.why, self.returns = {}, None, None, []

    # -- state ---------------------------------------------------------------------
    def snap(self):
        return dict(self.env), self.pos

    def restore(self, s):
        self.env, self.pos = dict(s[0]), s[1]

    def taint(self, n, what):
        if self.why is None:
            self.why = "%s at line %s: %s" % (what, n.get("line", "?"), cfront.render(n)[:120])

    def join(self, a, b, data_dep, n):
        """the state after a two-way branch whose arms leave a and b; None arms ended in a throw / return"""
        if a is None or b is None:
            live = a if b is None else b
            if live is not None:
                self.restore(live)
            return live is not None
        env = {}
        for k in set(a[0]) | set(b[0]):
            x, y = a[0].get(k), b[0].get(k)
            if x == y and (k in a[0]) == (k in b[0]):
                env[k] = x
            else:
                env[k] = _DEP if (data_dep or _DEP in (x, y)) else None
                if env[k] == _DEP:
                    self.taint(n, "a test on the bytes read decides the value of `%s`" % k)
        pos = a[1] if a[1] == b[1] else (_DEP if (data_dep or _DEP in (a[1], b[1])) else None)
        if pos == _DEP and a[1] != b[1]:
            self.taint(n, "a test on the bytes read decides how far the stream is read")
        self.env, self.pos = env, pos
        return True

    # -- expressions ---------------------------------------------------------------------
    def ev(self, n):
        n = cfront.strip(n)
        k = n.get("kind")
        ks = _kids(n)
        if k in ("IntegerLiteral", "CharacterLiteral"):
            try:
                return int(n.get("value"))
            except (TypeError, ValueError):
                return None
        if k == "CXXBoolLiteralExpr":
            return int(bool(n.get("value")))
        if k == "DeclRefExpr":
            v = _local_var(n)
            return self.env.get(v) if v is not None else None
        if k == "UnaryOperator":
            op = n.get("opcode")
            if op in ("++", "--"):
                v = _local_var(ks[0])
                old = self.env.get(v) if v else None
                new = _ab_add(old, 1, 1 if op == "++" else -1)
                if v:
                    self.env[v] = new
                else:
                    self.ev(ks[0])
                return old if n.get("isPostfix") else new
            if op == "&":
                return None
            x = self.ev(ks[0])
            if op == "-" and isinstance(x, int):
                return -x
            if op == "+":
                return x
            return _DEP if x == _DEP else None
        if k == "BinaryOperator":
            op = n.get("opcode")
            if op == "=":
                x = self.ev(ks[1])
                v = _local_var(ks[0])
                if v:
                    self.env[v] = x
                else:
                    self.ev(ks[0])
                return x
            if op in ("&&", "||"):
                a = self.ev(ks[0])
                s0 = self.snap()
                b = self.ev(ks[1])
                s1 = self.snap()
                if s0 != s1:
                    self.join(s0, s1, a == _DEP, n)
                return _DEP if _DEP in (a, b) else None
            a, b = self.ev(ks[0]), self.ev(ks[1])
            if op == ",":
                return b
            if op in ("+", "-"):
                return _ab_add(a, b, 1 if op == "+" else -1)
            if op == "*":
                if isinstance(a, int) and isinstance(b, int):
                    return a * b
                if a == 1:
                    return b
                if b == 1:
                    return a
            return _DEP if _DEP in (a, b) else None
        if k == "CompoundAssignOperator":
            op = n.get("opcode")
            x = self.ev(ks[1])
            v = _local_var(ks[0])
            cur = self.env.get(v) if v else None
            new = _ab_add(cur, x, 1 if op == "+=" else -1) if op in ("+=", "-=") else (_DEP if _DEP in (cur, x) else None)
            if v:
                self.env[v] = new
            else:
                self.ev(ks[0])
            return new
        if k == "ConditionalOperator":
            c = self.ev(ks[0])
            s0 = self.snap()
            a = self.ev(ks[1])
            sa = self.snap()
            self.restore(s0)
            b = self.ev(ks[2])
            sb = self.snap()
            self.join(sa, sb, c == _DEP, n)
            return a if a == b else (_DEP if (c == _DEP or _DEP in (a, b)) else None)
        if k in ("CallExpr", "CXXMemberCallExpr", "CXXOperatorCallExpr"):
            return self.call(n)
        if k == "CXXThrowExpr":
            raise _Throw()
        vals = [self.ev(c) for c in ks if c.get("kind") not in ("CompoundStmt", "DeclStmt")]
        return _DEP if _DEP in vals and k in ("ArraySubscriptExpr",) else None

    def mentions_stream(self, n):
        return any("FILE" in _qt(x) for x in cfront.walk(n) if x.get("kind") in ("MemberExpr", "DeclRefExpr"))

    def call(self, n):
        name = cfront.callee_name(n) or ""
        args = cfront.call_args(n)
        k = n.get("kind")
        if name in _BYTE_READERS:
            self.pos = _ab_add(self.pos, 1)
            return _DEP
        if name == "ungetc":
            self.ev(args[0])
            self.pos = _ab_add(self.pos, -1)
            return None
        if name in ("fread", "fread_unlocked") and len(args) == 4:
            size, cnt = self.ev(args[1]), self.ev(args[2])
            adv = cnt if size == 1 else (size if cnt == 1 else (size * cnt if isinstance(size, int) and isinstance(cnt, int) else (_DEP if _DEP in (size, cnt) else None)))
            self.pos = _ab_add(self.pos, adv)
            if adv == _DEP:
                self.taint(n, "the number of bytes read depends on the bytes read before")
            return cnt                      # stdio succeeds: every item asked for is read
        if name in _DATA_READERS:
            self.pos = _DEP if self.pos is not None else None
            self.taint(n, "%s consumes a number of bytes that depends on what they are" % name)
            for a in args:
                v = _local_var(cfront.strip(a).get("inner", [{}])[0]) if cfront.strip(a).get("kind") == "UnaryOperator" else None
                if v:
                    self.env[v] = _DEP
            return _DEP
        if name in _SEEKERS:
            if name == "rewind":
                self.pos = 0
            elif name == "fsetpos" or len(args) < 3:
                self.pos = None
            else:
                off, wh = self.ev(args[1]), self.ev(args[2])
                self.pos = off if wh == 0 else (_ab_add(self.pos, off) if wh == 1 else None)
            return 0
        if name in _TELLERS:
            return self.pos
        vals = [self.ev(a) for a in args]
        if name == "Py_BuildValue" and args:
            fmt = c_string_literal(args[0])
            if fmt is not None:
                letters = [c for c in fmt if c.isalpha()]
                if "#" not in fmt and len(letters) == len(args) - 1:
                    nums = [v for c, v in zip(letters, vals[1:]) if c in _INT_FORMATS]
                    return ("ret", nums[0] if len(nums) == 1 else None)
            return ("ret", None)
        if k == "CXXMemberCallExpr":
            obj = cfront.strip(n["inner"][0])
            base = cfront.strip(_kids(obj)[0]) if obj.get("kind") == "MemberExpr" and _kids(obj) else None
            if base is None or base.get("kind") == "CXXThisExpr":
                d = self.funcs.get("Records::" + name) or self.funcs.get(name)
                if d is None or any((cfront.callee_name(c) or "") in _BYTE_READERS + _DATA_READERS + _SEEKERS + ("fread", "ungetc") or self.mentions_stream(c)
                                    for c in cfront.walk(d) if c.get("kind") in ("CallExpr", "CXXMemberCallExpr")):
                    self.pos = None
            else:
                v = _local_var(base)
                if v and name not in ("size", "length", "c_str", "data", "empty", "compare", "find", "rfind", "substr", "at", "back", "front", "capacity"):
                    self.env[v] = None
            return _DEP if (_DEP in vals and name in ("compare", "find", "rfind")) else None
        if k == "CXXOperatorCallExpr":
            v = _local_var(args[0]) if args else None
            if v and name in ("operator=", "operator+=", "operator<<", "operator>>"):
                self.env[v] = None
            return _DEP if _DEP in vals else None
        if any(self.mentions_stream(a) for a in args) and not name.startswith(("feof", "ferror", "clearerr", "fflush", "fileno")):
            self.pos = None
        for a in args:                      # &local handed to an unknown function
            s = cfront.strip(a)
            if s.get("kind") == "UnaryOperator" and s.get("opcode") == "&" and _local_var(_kids(s)[0]):
                self.env[_local_var(_kids(s)[0])] = None
        return _DEP if _DEP in vals else None

    # -- statements ---------------------------------------------------------------------
    def run(self, stmts):
        """False when the sequence ends in a throw / return on every path"""
        for s in stmts:
            if not self.stmt(s):
                return False
        return True

    def stmt(self, n):
        k = n.get("kind")
        ks = _kids(n)
        if k == "CompoundStmt":
            return self.run(ks)
        if k == "DeclStmt":
            for d in ks:
                if d.get("kind") == "VarDecl":
                    init = [c for c in _kids(d)]
                    self.env[d.get("name")] = self.ev(init[-1]) if init and init[-1].get("kind") not in ("InitListExpr", "CXXConstructExpr") else None
            return True
        if k == "IfStmt":
            c = self.ev(ks[0])
            s0 = self.snap()
            a = self.snap() if self.arm(ks[1]) else None
            self.restore(s0)
            b = self.snap() if (len(ks) < 3 or self.arm(ks[2])) else None
            return self.join(a, b, c == _DEP, ks[0])
        if k in ("WhileStmt", "ForStmt", "DoStmt"):
            return self.loop(n)
        if k == "ReturnStmt":
            v = self.ev(ks[0]) if ks else None
            self.returns.append((v[1] if isinstance(v, tuple) and v[0] == "ret" else None, n))
            return False
        if k == "CXXTryStmt":
            return self.arm(ks[0])
        if k in ("NullStmt", "BreakStmt", "ContinueStmt"):
            return True
        if k in ("SwitchStmt", "GotoStmt", "LabelStmt", "CaseStmt", "DefaultStmt"):
            raise _CUnrec("%s at line %s" % (k, n.get("line")))
        try:
            self.ev(n)
        except _Throw:
            return False
        return True

    def arm(self, n):
        try:
            return self.stmt(n)
        except _Throw:
            return False

    def loop(self, n):
        assigned = set()
        for x in cfront.walk(n):
            kk = x.get("kind")
            if (kk == "BinaryOperator" and x.get("opcode") == "=") or kk == "CompoundAssignOperator" or (kk == "UnaryOperator" and x.get("opcode") in ("++", "--")):
                v = _local_var(_kids(x)[0])
                if v:
                    assigned.add(v)
            elif kk == "CXXOperatorCallExpr" and cfront.call_args(x):
                v = _local_var(cfront.call_args(x)[0])
                if v and (cfront.callee_name(x) or "") in ("operator=", "operator+=", "operator<<", "operator>>"):
                    assigned.add(v)
            elif kk == "CXXMemberCallExpr":
                obj = cfront.strip(x["inner"][0])
                v = _local_var(_kids(obj)[0]) if obj.get("kind") == "MemberExpr" and _kids(obj) else None
                if v:
                    assigned.add(v)
        calls = [cfront.callee_name(c) or "" for c in cfront.walk(n) if c.get("kind") in ("CallExpr", "CXXMemberCallExpr")]
        moves = [c for c in calls if c in _BYTE_READERS + _DATA_READERS + _SEEKERS + ("fread", "fread_unlocked", "ungetc")] or \
            [c for c in cfront.walk(n) if c.get("kind") == "CXXMemberCallExpr" and cfront.strip(_kids(cfront.strip(c["inner"][0]))[0] if _kids(cfront.strip(c["inner"][0])) else {}).get("kind") == "CXXThisExpr"]
        # does leaving the loop depend on bytes read?  one abstract pass over the test and the body, on a scratch state
        s0, why0, ret0 = self.snap(), self.why, list(self.returns)
        dep = False
        ks = _kids(n)
        cond = ks[0] if n.get("kind") == "WhileStmt" else (ks[1] if n.get("kind") == "DoStmt" else None)
        body = ks[-1] if n.get("kind") != "DoStmt" else ks[0]
        if n.get("kind") == "ForStmt":
            inner = [c for c in (n.get("inner") or [])]
            cond = inner[2] if len(inner) >= 5 and isinstance(inner[2], dict) and inner[2].get("kind") else None
            if len(inner) >= 5 and isinstance(inner[0], dict) and inner[0].get("kind"):
                self.arm(inner[0])
        try:
            if cond is not None and n.get("kind") != "DoStmt":
                dep = self.ev(cond) == _DEP
            self.arm(body)
            for x in _nested_free(body):
                if x.get("kind") == "IfStmt" and any(y.get("kind") in ("BreakStmt", "ReturnStmt", "GotoStmt") for y in _nested_free(x)):
                    s1 = self.snap()
                    if self.ev(_kids(x)[0]) == _DEP:
                        dep = True
                    self.restore(s1)
            if cond is not None and self.ev(cond) == _DEP:
                dep = True
        except (_Throw, _CUnrec):
            pass
        self.restore(s0)
        self.why, self.returns = why0, ret0
        if dep:
            self.taint(cond if cond is not None else n, "a loop whose end depends on the bytes read")
        for v in assigned:
            self.env[v] = _DEP if dep else None
        if moves:
            self.pos = _DEP if dep else None
        return True


def _marker_literal(n, body):
    """the text of a string literal containing END that the call n compares with: written in place, or the initialiser of a local it names"""
    for a in cfront.call_args(n):
        for x in cfront.walk(a):
            s = None
            if x.get("kind") == "StringLiteral":
                s = c_string_literal(x)
            elif x.get("kind") == "DeclRefExpr" and _local_var(x):
                for d in cfront.walk(body):
                    if d.get("kind") == "VarDecl" and d.get("name") == _local_var(x):
                        lits = [c_string_literal(y) for y in cfront.walk(d) if y.get("kind") == "StringLiteral"]
                        s = lits[0] if len(lits) == 1 else None
            if s and "END" in s:
                return s
    return None


def _writer_tail(repo):
    """the text SFile._write_header puts after the letters END, or None when the header text is put together in a way that is not recognised"""
    fi = repo.funcs.get("esutil.sfile.SFile._write_header")
    if fi is None:
        return None
    try:
        res = _PX(repo, stop=_PY_STOP).run(fi)
    except _Unrec:
        return None

    def pieces(t):
        if t.op == "binop" and t.name == "Add":
            return [p for x in t.args for p in pieces(x)]
        return [t]

    tails = set()
    for status, ret, st in res:
        for e in st.events:
            if e[0] != "call" or e[1].name != "write_header_and_update_offset" or len(e[1].args) < 2:
                continue
            t = e[1].args[1]
            tail = None
            if t.op == "call" and t.name == "join" and t.args[0] is not None and t.args[0].op == "const" and isinstance(t.args[0].name, str) and len(t.args) == 2 \
                    and t.args[1].op == "seq" and t.args[1].name in ("list", "tuple"):
                el = t.args[1].args
                idx = [i for i, x in enumerate(el) if x.op == "const" and isinstance(x.name, str) and "END" in x.name]
                if idx and all(x.op == "const" and isinstance(x.name, str) for x in el[idx[-1]:]):
                    tail = el[idx[-1]].name.rsplit("END", 1)[1] + "".join(t.args[0].name + x.name for x in el[idx[-1] + 1:])
            elif t.op == "binop" and t.name == "Mod" and t.args[0].op == "const" and isinstance(t.args[0].name, str) and "END" in t.args[0].name:
                x = t.args[0].name.rsplit("END", 1)[1]
                tail = x if "%" not in x else None
            elif t.op == "call" and t.name == "format" and t.args[0] is not None and t.args[0].op == "const" and isinstance(t.args[0].name, str) and "END" in t.args[0].name:
                x = t.args[0].name.rsplit("END", 1)[1]
                tail = x if "{" not in x else None
            elif t.op == "other" and isinstance(t.node, ast.JoinedStr):
                vals = t.node.values
                idx = [i for i, x in enumerate(vals) if isinstance(x, ast.Constant) and isinstance(x.value, str) and "END" in x.value]
                if idx and all(isinstance(x, ast.Constant) for x in vals[idx[-1]:]):
                    tail = vals[idx[-1]].value.rsplit("END", 1)[1] + "".join(x.value for x in vals[idx[-1] + 1:])
            else:
                ps = pieces(t)
                idx = [i for i, x in enumerate(ps) if x.op == "const" and isinstance(x.name, str) and "END" in x.name]
                if idx and all(x.op == "const" and isinstance(x.name, str) for x in ps[idx[-1]:]):
                    tail = ps[idx[-1]].name.rsplit("END", 1)[1] + "".join(x.name for x in ps[idx[-1] + 1:])
            tails.add(tail)
    return tails.pop() if len(tails) == 1 else None


def data_start(chk, repo, tu):
    m = "the offset of the first row is the end of the header's END line plus the bytes the writer puts after it, whatever the first row begins with"
    key = "read_sfile_header::data-offset-independent-of-the-data"
    d = tu.funcs.get("Records::read_sfile_header")
    if d is None:
        chk.ob("R04.8", key, None, W, m + " [Records::read_sfile_header not found]")
        return
    chk.analysed_unit("Records::read_sfile_header")
    body = cfront.body_of(d)
    where = "%s:%s" % (W, d.get("line", body.get("line", 0)))
    stmts = _kids(body)
    # the marker loop: first loop at the top level of the body that compares with a literal containing END
    li = marker = None
    for i, s in enumerate(stmts):
        if s.get("kind") in ("WhileStmt", "ForStmt", "DoStmt"):
            cmps = [(c, _marker_literal(c, body)) for c in cfront.walk(s) if c.get("kind") in ("CallExpr", "CXXMemberCallExpr", "CXXOperatorCallExpr")
                    and (cfront.callee_name(c) or "") in _CMP_CALLS]
            cmps = [(c, t) for c, t in cmps if t]
            if cmps:
                li, marker = i, cmps
                break
    if li is None:
        chk.ob("R04.8", key, None, where, m + " [no loop that compares what it reads with a literal containing END was found at the top level of the function]")
        return
    loop = stmts[li]
    texts = {t for _c, t in marker}
    cmp_ids = {id(c) for c, _t in marker}
    px = _PosEval(tu.funcs, body)
    try:
        if not px.run(stmts[:li]):
            raise _CUnrec("the function ends before the marker loop")
        pos0 = px.pos
        # one byte per pass, read unconditionally; the loop is left only where the marker compares equal
        lk = _kids(loop)
        lbody = lk[-1] if loop.get("kind") != "DoStmt" else lk[0]
        top = _kids(lbody) if lbody.get("kind") == "CompoundStmt" else [lbody]
        reads_all = [c for c in cfront.walk(loop) if c.get("kind") in ("CallExpr", "CXXMemberCallExpr")
                     and (cfront.callee_name(c) or "") in _BYTE_READERS + _DATA_READERS + _SEEKERS + ("fread", "fread_unlocked", "ungetc")]
        plain = [s for s in top if s.get("kind") not in ("IfStmt", "WhileStmt", "ForStmt", "DoStmt", "SwitchStmt", "CXXTryStmt")]
        reads_top = [c for s in plain for c in cfront.walk(s) if any(c is r for r in reads_all)]
        if len(texts) != 1 or len(reads_all) != 1 or len(reads_top) != 1 or (cfront.callee_name(reads_all[0]) or "") not in _BYTE_READERS:
            raise _CUnrec("the marker loop does not read the stream one byte per pass in a way that is recognised")
        has_marker = lambda x: any(id(y) in cmp_ids for y in cfront.walk(x))          # noqa: E731
        flags = set()
        for x in cfront.walk(loop):
            if x.get("kind") == "BinaryOperator" and x.get("opcode") == "=" and _local_var(_kids(x)[0]) and has_marker(_kids(x)[1]):
                flags.add(_local_var(_kids(x)[0]))
        exit_at = None
        for i, s in enumerate(top):
            for y in _nested_free(s):
                if y.get("kind") in ("ReturnStmt", "GotoStmt"):
                    raise _CUnrec("the marker loop is left by a %s" % y.get("kind"))
                if y.get("kind") == "BreakStmt":
                    if not (s.get("kind") == "IfStmt" and has_marker(_kids(s)[0])) or exit_at is not None:
                        raise _CUnrec("the marker loop is left by a break that does not hang on the comparison with the marker")
                    exit_at = i
        cond = lk[0] if loop.get("kind") == "WhileStmt" else (lk[1] if loop.get("kind") == "DoStmt" else None)
        if loop.get("kind") == "ForStmt":
            inner = loop.get("inner") or []
            cond = inner[2] if len(inner) >= 5 and isinstance(inner[2], dict) and inner[2].get("kind") else None
        cvars = {_local_var(x) for x in cfront.walk(cond) if _local_var(x)} if cond is not None else set()
        const_true = cond is None or (cfront.strip(cond).get("kind") in ("IntegerLiteral", "CXXBoolLiteralExpr") and px.ev(cond) not in (0, None))
        if not const_true and not (cvars and cvars <= flags):
            raise _CUnrec("the test of the marker loop is not recognised")
        if const_true and exit_at is None:
            raise _CUnrec("no exit of the marker loop was found")
        # counters: incremented by one, once, unconditionally, at the top level of the body
        changed = {}
        for x in cfront.walk(loop):
            kk = x.get("kind")
            v = None
            if (kk == "BinaryOperator" and x.get("opcode") == "=") or kk == "CompoundAssignOperator" or (kk == "UnaryOperator" and x.get("opcode") in ("++", "--")):
                v = _local_var(_kids(x)[0])
            elif kk == "CXXOperatorCallExpr" and cfront.call_args(x):
                v = _local_var(cfront.call_args(x)[0])
            if v:
                changed.setdefault(v, []).append(x)
        for x in cfront.walk(loop):
            if x.get("kind") == "CXXMemberCallExpr":
                obj = cfront.strip(x["inner"][0])
                base = _local_var(_kids(obj)[0]) if obj.get("kind") == "MemberExpr" and _kids(obj) else None
                if base:
                    changed.setdefault(base, []).append(None)
        for v, sites in changed.items():
            new = None
            if len(sites) == 1 and sites[0] is not None and isinstance(pos0, int):
                x = sites[0]
                one = (x.get("kind") == "UnaryOperator" and x.get("opcode") == "++") or \
                    (x.get("kind") == "CompoundAssignOperator" and x.get("opcode") == "+=" and _PosEval(tu.funcs, body).ev(_kids(x)[1]) == 1)
                at = [i for i, s in enumerate(top) if cfront.strip(s) is x or (s.get("kind") not in ("IfStmt", "WhileStmt", "ForStmt", "DoStmt") and cfront.strip(s) is x)]
                if one and at and isinstance(px.env.get(v), int):
                    late = exit_at is not None and at[0] > exit_at
                    new = ("M", px.env[v] - pos0 - (1 if late else 0))
            px.env[v] = new
        px.pos = ("M", 0)
        px.run(stmts[li + 1:])
    except _CUnrec as e:
        chk.ob("R04.8", key, None, where, "%s [%s]" % (m, e))
        return
    except _Throw:
        chk.ob("R04.8", key, None, where, m + " [the function throws unconditionally after the marker loop]")
        return
    offs = [v for v, _n in px.returns]
    wt = _writer_tail(repo)
    tail = wt if wt is not None else "\n\n"
    after = texts.pop().rsplit("END", 1)[1]
    src = "SFile._write_header writes %r after END" % tail if wt is not None else "the documented format has END and one empty line"
    if not tail.startswith(after):
        chk.ob("R04.8", key, False, where, "%s (the reader looks for END followed by %r, but %s)" % (m, after, src))
        return
    want = len(tail) - len(after)
    if not offs or any(v is None for v in offs):
        chk.ob("R04.8", key, None, where, m + " [the returned offset is not recognised: %s]" % [_ab_show(v) for v in offs])
        return
    bad = [v for v in offs if v == _DEP or not (isinstance(v, tuple) and v[0] == "M" and v[1] == want)]
    if bad:
        v = bad[0]
        if v == _DEP:
            msg = "the returned offset depends on the bytes that follow the END line: %s" % (px.why or "?")
        else:
            msg = "the returned offset is %s, but %s, %d byte(s) after the marker %r" % (_ab_show(v), src, want, "END" + after)
        chk.ob("R04.8", key, False, where, "%s (%s)" % (m, msg))
        return
    chk.ob("R04.8", key, True, where, "%s (offset = %s; %s)" % (m, _ab_show(offs[0]), src))
