"""C10 -- WCS pixel<->sky: definite assignment over all option combinations, the
convention's order of operations, formula conformance level by level against
the FITS-WCS papers, coefficient tables, object-state discipline, root finder."""
import ast
import itertools

import sympy as sp

from vcheck import rules, symx
from vcheck.core import PyRepo, AnalysisError, call_name, const_value, dotted_name, kwarg, norm, walk_no_nested
from vcheck.rules import cfg_of

MANIFEST = dict(
    text="Structural rules and formula conformance by symbolic normal forms (not numerical testing; nothing is executed): "
         "(1) definite assignment of every local in image2sky/sky2image for all projection x distort x find x model-present "
         "combinations (flag-specialised CFG); (2) the forward and inverse chains are abstractly interpreted to terms for every "
         "consistent (projection, model, distort) combination and compared with the convention: TAN/TPV = CD matrix then PV "
         "polynomial (0*x + P), SIP = x + P then CD matrix, inverse mirrored with the inverse coefficients and CD^-1; "
         "distort=False must not reach Distort or the root finder; (3) tangent-plane deprojection/projection (phi = atan2(x,-y), "
         "theta = atan(180/(pi R)), R_theta = (180/pi)/tan theta, x = R sin phi, y = -R cos phi), the spherical rotation (reverse "
         "= R, forward = R^T), the rotation matrix vs Calabretta & Greisen eq. 2/5, pole = CRVAL for theta0 = 90, longitude fold "
         "into [0,360): the returned longitude as a case-distinction term T(L) of the rotated longitude L (if tests, masked stores through boolean masks or "
         "where / nonzero / flatnonzero index arrays, three-argument where, putmask / copyto / ufunc where=, arithmetic with the mask, helpers) is L + 360 k in "
         "[0,360) for every L in [-180,180], decided on the term's own case partition, also when L + 360 rounds to 360.0 (>= at the open end, upper wrap after the "
         "lower one), scalar and array arms equal as terms; (4) PV index -> power table vs the TPV "
         "convention (end to end: header keys -> matrix -> polynomial), SIP A_p_q -> u^p v^q, prefix table per projection, "
         "coefficient count drives model detection; (5) constructor wiring (CRPIX, CD, CD^-1, pole, defaults LONPOLE=180, "
         "theta0=90); (6) object-state discipline: every attribute written by a conversion call is a lazy cache behind a "
         "set-before-compute flag or scratch written before every read, and every attribute that is modified in place denotes an object "
         "owned by the instance (origin analysis: never a module-level object or an element of one, a class-level attribute value or a "
         "parameter default, directly, through a local, a helper's return value or a helper that modifies its parameter); (7) root finder: RA-wrapped "
         "longitude residual; _findxy is followed through its helpers in the term domain with the call of scipy's solver (found through imports, aliases and "
         "cached lookups) kept as a term of everything it can see: the callable is the residual method, the start vector is the closed-form inverse of the same "
         "target with find=False, the target buffer holds (lon, lat) when the solver runs, the tolerance is forwarded, the solution's components are returned on "
         "every path; for array input the loop over all points is run for one generic index and must equal the scalar solve of that point; (8) jacobian = central differences with wrapped RA difference; the RA-difference "
         "wrap returns input + 360 k in [-180, 180] for every finite scalar or array element and returns for nan/+-inf (case-partitioned "
         "interval x congruence analysis of the function and the helpers it calls; the loop-shape rules decide only where that analysis "
         "cannot); inverse-fit term enumeration agrees between design matrix and coefficient packing, and the fit drivers hand the "
         "fitter the convention's source and target coordinates over a grid covering the image (call summaries in the term domain); the dispatcher of the lazy fit binds every option to the "
         "same-named parameter of the driver of the model in use and the first inverse use fits with the order increase the object records; the image size is ZNAXISn when the header "
         "has them, else NAXISn; the two polynomials of a SIP model are each summed over their own matrix when A_ORDER != B_ORDER; "
         "helpers do not modify their inputs.",
    note="Not decided: the 1e-9 degree / 1e-6 pixel tolerances, convergence of fsolve, accuracy of the fitted inverse polynomial, "
         "numpy broadcasting. Assumes theta0 = 90 (TAN family, the property's quantifier). Trusted: sympy normaliser, CPython ast.",
    technique="static analysis: flag-specialised CFG dataflow (definite assignment, dominance), abstract interpretation over a symbolic "
              "term domain with normal-form comparison against transcribed FITS-WCS definitions (module-level coefficient tables are constant-evaluated, "
              "also when a generator function builds them), interval x congruence analysis with case partitioning, object-state (typestate) rules over the class's self-call graph",
)

MOD = "esutil.wcsutil"
W = MOD + ".WCS."
PROJS = ("-TAN", "-TPV", "-TAN-SIP")
MODEL_OF = {"-TAN": "scamp", "-TPV": "scamp", "-TAN-SIP": "sip"}
HASMODEL = "self.distort['name'] != 'none'"
N = 4  # coefficient matrices are (order+1) x (order+1) with order 3


def _mf(repo, name):
    """the module-level function `name` of esutil.wcsutil: defined there, or imported into it from another module of the package"""
    full = repo.resolve_name(repo.module(MOD), name)
    return repo.func(full if repo.has(full) else MOD + "." + name)


def M(name, k=N):
    return tuple(tuple(sp.Symbol("%s_%d_%d" % (name, i, j)) for j in range(k)) for i in range(k))


def P(mat, u, v):
    return sum(mat[i][j] * u ** i * v ** j for i in range(len(mat)) for j in range(len(mat[0])))


# ---------------------------------------------------------------------------
# term evaluator of this check: vcheck.symx plus the constructs the coefficient-table and inverse-fit code may use
#   * iter() / next() over literal sequences (constant evaluation of table-building code at module level),
#   * `self.<method>` used as a value (dict dispatch through bound methods) and calls through such a value,
#   * fancy-index stores m[rows, cols] = values with literal index lists,
#   * call summaries: a callee named in `se.summaries` is not entered; its arguments are bound to its parameter names
#     (positional, keyword and default alike), recorded in `se.calls`, and the summary's value is returned.
# Everything else is the shared evaluator; anything it does not know still stops it with symx.Unsupported (no verdict).
# ---------------------------------------------------------------------------
class _Iter:
    """iterator over a literal sequence"""

    def __init__(self, seq):
        self.seq = list(seq)
        self.pos = 0


class _Bound:
    """`self.<method>` as a value"""

    def __init__(self, name):
        self.name = name

    def __repr__(self):
        return "_Bound(%s)" % self.name


class _Gen:
    """an iterable over the points of the array input(s) that is not a literal sequence: range(n) for the number of points n, an array
    term, zip / enumerate of such.  at(i) is the value the loop target receives for the point with index i."""

    def __init__(self, at):
        self.at = at


class _IdxSet(symx.Mask):
    """what numpy.nonzero / numpy.where(cond) (`tup`: the 1-tuple of index arrays) and numpy.flatnonzero / numpy.argwhere / `(w,) = ...` /
    `...[0]` (the index array) give for an element-wise condition.  For the term domain it is the condition itself (x[w] is x where the
    condition holds, exactly as for the boolean mask), but its length is the number of selected elements, and its truth value, sum and
    bit operations say nothing about the condition."""

    def __init__(self, cond, tup=False):
        super().__init__(cond)
        self.tup = tup

    def __repr__(self):
        return "_IdxSet(%s%s)" % (self.cond, ", tuple" if self.tup else "")


class _Count:
    """the number of elements an element-wise condition selects: len / size / shape[0] of an index array, count_nonzero / sum of a boolean mask"""

    def __init__(self, mask):
        self.mask = mask

    def __repr__(self):
        return "_Count(%s)" % (self.mask.cond,)


# numpy callees that return the index set of a condition; value: (is the 1-tuple form, name of the array parameter)
_INDEX_SET_FUNCS = {"numpy.nonzero": (True, "a"), "numpy.where": (True, None), "numpy.flatnonzero": (False, "a"), "numpy.argwhere": (False, "a")}
# comparison / logical ufuncs and the operator they spell
_CMP_UFUNCS = {"numpy.greater": ast.Gt, "numpy.greater_equal": ast.GtE, "numpy.less": ast.Lt, "numpy.less_equal": ast.LtE, "numpy.equal": ast.Eq, "numpy.not_equal": ast.NotEq,
               "operator.gt": ast.Gt, "operator.ge": ast.GtE, "operator.lt": ast.Lt, "operator.le": ast.LtE, "operator.eq": ast.Eq, "operator.ne": ast.NotEq}
_LOGIC_UFUNCS = {"numpy.logical_and": ast.BitAnd, "numpy.bitwise_and": ast.BitAnd, "numpy.logical_or": ast.BitOr, "numpy.bitwise_or": ast.BitOr,
                 "operator.and_": ast.BitAnd, "operator.or_": ast.BitOr}
_NOT_UFUNCS = ("numpy.logical_not", "numpy.invert", "numpy.bitwise_not", "operator.invert", "operator.inv")

SUMMED = sp.Function("SUMMED")                                   # SUMMED(a + b): the value of the sum, kept apart from a sum it is a term of
NPTS = sp.Symbol("NPTS", integer=True, positive=True)          # number of points of a (non-empty) array input
IDX = sp.Symbol("IDX", integer=True, nonnegative=True)          # index of the generic point of a loop over all points
FORALL = sp.Function("FORALL")                                   # FORALL(IDX, t): the array whose element IDX is t, for every point

# uninterpreted functions of the term domain that are not element-wise maps of their arguments
_NOT_ELEMENTWISE = set(symx.REDUCE.values()) | {"AT", "SLICE", "SIZE", "LEN", "ARANGE", "SEARCHSORTED", "ARGSORT", "DOT", "INNER", "SOLVE", "MATMUL", "DIAG",
                                                "OUTER", "MESHGRID", "LINSPACE", "UNIQUE", "LEXSORT", "INTERP", "TRAPZ", "ARGMAX", "ARGMIN", "FORALL", "INT"}

# positional parameters of the scipy root finders (scipy.optimize documentation)
_SOLVER_SIG = {"scipy.optimize.fsolve": ("func", "x0", "args", "fprime", "full_output", "col_deriv", "xtol", "maxfev", "band", "epsfcn", "factor", "diag"),
               "scipy.optimize.leastsq": ("func", "x0", "args", "Dfun", "full_output", "col_deriv", "ftol", "xtol", "gtol", "maxfev", "epsfcn", "factor", "diag"),
               "scipy.optimize.root": ("fun", "x0", "args", "method", "jac", "tol", "callback", "options")}


def _denotes(repo, mod, fi, e, seen=frozenset()):
    """the set of fully qualified names the expression `e` (a callee) may denote, or None when that is not known.  Followed: imports
    (also function-local ones), local variables with plain assignments, module-level variables including those that functions assign
    after `global` (a lazily filled cache: the initial None is not a callable and is left out), and calls without arguments of package
    functions (what they return)."""
    if isinstance(e, ast.Call):
        d = dotted_name(e.func)
        if e.args or e.keywords or not d:
            return None
        full = repo.resolve_name(mod, d)
        if not repo.has(full) or full in seen:
            return None
        tgt = repo.func(full)
        rets = [x for x in walk_no_nested(tgt.node) if isinstance(x, ast.Return)]
        if not rets:
            return None
        out = set()
        for x in rets:
            o = _denotes(repo, tgt.module, tgt, x.value, seen | {full}) if x.value is not None else None
            if o is None:
                return None
            out |= o
        return out
    d = dotted_name(e)
    if not d:
        return None
    if "." not in d:
        key = ("var", mod.name, fi.qualname if fi is not None else None, d)
        if key in seen:
            return set()
        vals = None
        globs = set()
        if fi is not None:
            globs = {n for x in walk_no_nested(fi.node) if isinstance(x, ast.Global) for n in x.names}
            if d in [p.lstrip("*") for p in fi.params]:
                return None
            if d not in globs:
                stores = [x for x in walk_no_nested(fi.node) if isinstance(x, ast.Name) and isinstance(x.ctx, ast.Store) and x.id == d]
                plain = [x.value for x in walk_no_nested(fi.node) if isinstance(x, ast.Assign) and len(x.targets) == 1 and isinstance(x.targets[0], ast.Name) and x.targets[0].id == d]
                if stores:
                    if len(plain) != len(stores):
                        return None
                    vals = (fi, plain)
        if vals is None:
            writers = [(f, x.value) for f in repo.funcs.values() if f.module is mod and any(isinstance(g, ast.Global) and d in g.names for g in walk_no_nested(f.node))
                       for x in walk_no_nested(f.node) if isinstance(x, ast.Assign) and any(isinstance(t, ast.Name) and t.id == d for t in x.targets)]
            if d in mod.consts or writers:
                top = [(None, st.value) for st in mod.tree.body if isinstance(st, ast.Assign) and any(isinstance(t, ast.Name) and t.id == d for t in st.targets)]
                out = set()
                for f, v in top + writers:
                    if isinstance(v, ast.Constant) and v.value is None:
                        continue
                    o = _denotes(repo, mod, f, v, seen | {key})
                    if o is None:
                        return None
                    out |= o
                return out or None
        else:
            out = set()
            for v in vals[1]:
                o = _denotes(repo, mod, vals[0], v, seen | {key})
                if o is None:
                    return None
                out |= o
            return out
    return {repo.resolve_name(mod, d)}


class _Env(symx.Env):
    def exec_body(self, stmts, cond):
        sym = not (cond is sp.true or cond == sp.true)
        if sym:
            self.se._symdepth = getattr(self.se, "_symdepth", 0) + 1
        try:
            return super().exec_body(stmts, cond)
        finally:
            if sym:
                self.se._symdepth -= 1

    # -- loops over all points of an array input ------------------------------------------------------------------------------
    def _arrayish(self, v):
        ai = getattr(self.se, "array_inputs", None)
        return bool(ai) and isinstance(v, sp.Expr) and bool(v.free_symbols & ai)

    def _elem(self, v, i):
        """element i of the array term v: element-wise terms are mapped onto the elements of the array inputs"""
        ai = self.se.array_inputs
        for sub in sp.preorder_traversal(v):
            if isinstance(sub, sp.core.function.AppliedUndef) and sub.func.__name__ in _NOT_ELEMENTWISE:
                return sp.Function("AT")(v, i)
        return v.xreplace({s: sp.Function("AT")(s, i) for s in ai})

    def _as_gen(self, v):
        if isinstance(v, _Gen):
            return v
        if self._arrayish(v):
            return _Gen(lambda i, v=v: self._elem(v, i))
        return None

    def exec_for(self, st, cond):
        if not getattr(self.se, "array_inputs", None):
            return super().exec_for(st, cond)
        it = self.ev(st.iter)
        gen = self._as_gen(it)
        if gen is None:
            # evaluated once: hand the value to the shared loop code
            self.vars["$iter"] = it
            st2 = ast.copy_location(ast.For(target=st.target, iter=ast.copy_location(ast.Name(id="$iter", ctx=ast.Load()), st.iter), body=st.body, orelse=st.orelse), st)
            try:
                return super().exec_for(st2, cond)
            except symx.Unsupported as e:
                raise symx.Unsupported(str(e).replace("`$iter`", "`%s`" % norm(st.iter)))
            finally:
                self.vars.pop("$iter", None)
        if st.orelse or getattr(self.se, "_genloop", None) is not None or not (cond is sp.true or cond == sp.true):
            raise symx.Unsupported("symx: loop over all points with else / nested / under an undecided condition at %s" % self.where(st))
        body_ = symx._continue_to_else(st.body)
        tnames = {x.id for x in ast.walk(st.target) if isinstance(x, ast.Name)}

        def snap(vs):
            return {k: (list(v) if isinstance(v, list) else v) for k, v in vs.items()}

        def body():
            self.se._genloop = self.se._symdepth
            try:
                self.assign(st.target, gen.at(IDX), st)
                rets = self.exec_body(body_, cond)
            except symx._ContinueLoop:
                raise symx.Unsupported("symx: continue in a loop over all points at %s" % self.where(st))
            finally:
                self.se._genloop = None
            if rets:
                raise symx.Unsupported("symx: return inside a loop over all points at %s" % self.where(st))

        def changed(before):
            out = []
            for k, v in self.vars.items():
                if k in tnames:
                    continue
                if k not in before:
                    continue          # first assigned in the body: not carried into an iteration
                b = before[k]
                if isinstance(v, list) and isinstance(b, list):
                    if len(v) != len(b) or any(not symx._same(x, y) for x, y in zip(v, b)):
                        out.append(k)
                elif not symx._same(v, b):
                    out.append(k)
            return out

        # dry run: which variables does an iteration change?  those are unknown (left by the previous iteration) when an iteration starts
        before = snap(self.vars)
        keep_vars, keep_elem = self.vars, dict(self.elem)
        logs = [(l_, len(l_)) for l_ in (self.se.calls, getattr(self.se, "solver_log", None), self.se.notes, self.se.issues) if l_ is not None]
        self.vars = snap(self.vars)
        try:
            body()
            carried = changed(before)
        finally:
            # in-place changes of shared lists are undone by restoring the snapshot element by element
            for k, v in keep_vars.items():
                if isinstance(v, list) and isinstance(before.get(k), list):
                    v[:] = before[k]
            self.vars, self.elem = keep_vars, keep_elem
            for l_, n_ in logs:
                del l_[n_:]
        for k in carried:
            v = self.vars[k]
            tag = "".join(ch if ch.isalnum() else "_" for ch in k)
            if isinstance(v, list) and all(symx._is_expr(x) for x in v):
                v[:] = [sp.Symbol("CARRIED_%s_%d" % (tag, j)) for j in range(len(v))]
            elif symx._is_expr(v):
                self.vars[k] = sp.Symbol("CARRIED_%s" % tag)
            else:
                raise symx.Unsupported("symx: `%s` is carried from one iteration to the next in the loop over all points at %s" % (k, self.where(st)))
        elem0 = dict(self.elem)
        body()
        # arrays filled point by point
        for (arr, idx), v in list(self.elem.items()):
            if (arr, idx) in elem0 and symx._same(elem0[(arr, idx)], v):
                continue
            if idx != str(IDX) or arr not in self.vars or not symx._is_expr(v):
                raise symx.Unsupported("symx: store `%s[%s]` in the loop over all points at %s" % (arr, idx, self.where(st)))
            del self.elem[(arr, idx)]
            self.vars[arr] = FORALL(IDX, symx._as_expr(v))
        # what an iteration changes holds the values of the last point afterwards
        for k in carried:
            v = self.vars.get(k)
            tag = "".join(ch if ch.isalnum() else "_" for ch in k)
            if isinstance(v, list):
                v[:] = [sp.Symbol("LASTPOINT_%s_%d" % (tag, j)) for j in range(len(v))]
            elif isinstance(v, sp.Basic) and v.func is FORALL:
                continue
            else:
                self.vars[k] = sp.Symbol("LASTPOINT_%s" % tag)
        for k in tnames:
            self.vars.pop(k, None)
        return []

    # -- element-wise conditions: boolean masks, index sets, how many elements they select ------------------------------------------
    # The shared evaluator reads `x[w] = v` / `x[w] += v` under a condition w as the case distinction (v where w holds, x elsewhere)
    # and runs the statements guarded by "w selects something" unconditionally (a masked update is a no-op for an empty selection).
    # Here every everyday spelling of the three ingredients is mapped onto that reading:
    #   the condition : a comparison, numpy.greater & co, & | ~ and numpy.logical_*;
    #   the selection : the mask itself, numpy.where(c) / numpy.nonzero(c) / c.nonzero() (1-tuple, unpacked or [0]), numpy.flatnonzero(c),
    #                   numpy.argwhere(c), with layout-only calls in between;
    #   the guard     : w.size, len(w), w.shape[0], numpy.size(w) for an index array, c.any(), numpy.any(c), numpy.count_nonzero(c), c.sum(),
    #                   numpy.sum(c) for a mask, tested by truth value, `> 0`, `!= 0`, `>= 1`, their mirror images, or negated
    #                   (`== 0`, `< 1`, `<= 0`, `not ...`) with the statements in the else arm.
    # What is not one of these (the truth value or the sum of an index array, a guard with statements in both arms, a count compared
    # with another number) stops the evaluation: no verdict.
    def _index_set(self, v, tup, c):
        if isinstance(v, _IdxSet):
            raise symx.Unsupported("symx: index set of an index array `%s` at %s" % (norm(c)[:60], self.where(c)))
        if isinstance(v, symx.Mask):
            return _IdxSet(v.cond, tup)
        if v is True or v is False:
            return _IdxSet(sp.true if v else sp.false, tup)
        if isinstance(v, sp.Basic) and not isinstance(v, sp.core.function.AppliedUndef) and (v.is_Boolean or v.is_Relational):
            return _IdxSet(v, tup)
        if symx._is_expr(v):
            rel = sp.Ne(symx._as_expr(v), 0)          # the non-zero elements of a numeric array
            return _IdxSet(rel, tup)
        return None

    def _arr_mask(self, node):
        """the Mask an expression denotes (an index array or a boolean mask, not the 1-tuple numpy.nonzero returns), else None"""
        try:
            v = self.ev(node)
        except symx.Unsupported:
            return None
        if isinstance(v, symx.Mask) and not (isinstance(v, _IdxSet) and v.tup):
            return v
        return None

    def _count(self, node):
        """the _Count an expression denotes, else None"""
        if isinstance(node, ast.Attribute) and node.attr == "size" and norm(node) not in self.vars:
            m = self._arr_mask(node.value)
            if m is not None:
                return _Count(m)          # of a boolean mask: the number of points, no smaller than the number of selected ones
        if isinstance(node, ast.Subscript) and const_value(node.slice) == 0:
            b = node.value
            if isinstance(b, ast.Attribute) and b.attr == "shape":
                m = self._arr_mask(b.value)
                if m is not None:
                    return _Count(m)
            if isinstance(b, ast.Call) and len(b.args) == 1 and not b.keywords and self._full(b.func) == "numpy.shape":
                m = self._arr_mask(b.args[0])
                if m is not None:
                    return _Count(m)
        if isinstance(node, (ast.Name, ast.Call)):
            try:
                v = self.ev(node)
            except symx.Unsupported:
                return None
            if isinstance(v, _Count):
                return v
        return None

    def _module_ref(self, node):
        d = dotted_name(node)
        return bool(d) and d.split(".")[0] not in self.vars and d.split(".")[0] in self.mod.imports

    def _full(self, f):
        d = dotted_name(f)
        if not d or d.split(".")[0] in self.vars:
            return ""
        return self.se.repo.resolve_name(self.mod, d)

    def _sel_test(self, t):
        """'mask' when the test says that a condition selects something (or that the array is not empty), 'nomask' when it says the
        opposite, None when it is another kind of test"""
        if isinstance(t, ast.UnaryOp) and isinstance(t.op, ast.Not):
            k = self._sel_test(t.operand)
            return {"mask": "nomask", "nomask": "mask"}.get(k)
        if isinstance(t, ast.Call) and len(t.args) == 1 and not t.keywords and isinstance(t.func, ast.Name) and t.func.id == "bool" and "bool" not in self.vars:
            return self._sel_test(t.args[0])
        if isinstance(t, ast.Compare) and len(t.ops) == 1:
            a, b, op = t.left, t.comparators[0], type(t.ops[0])
            if const_value(a) in (0, 1) and not isinstance(const_value(a), bool):
                a, b = b, a
                op = {ast.Lt: ast.Gt, ast.Gt: ast.Lt, ast.LtE: ast.GtE, ast.GtE: ast.LtE}.get(op, op)
            n = const_value(b)
            if n in (0, 1) and not isinstance(n, bool):
                cnt = self._count(a)
                if cnt is not None:
                    self._sel_mask = cnt.mask
                    if (op, n) in ((ast.Gt, 0), (ast.NotEq, 0), (ast.GtE, 1)):
                        return "mask"
                    if (op, n) in ((ast.Eq, 0), (ast.Lt, 1), (ast.LtE, 0)):
                        return "nomask"
                    raise symx.Unsupported("symx: selection-size test `%s` at %s" % (norm(t), self.where(t)))
            return None
        cnt = self._count(t)
        if cnt is not None:
            self._sel_mask = cnt.mask
            return "mask"
        # c.any() / numpy.any(c) / any(c)
        arg = None
        if isinstance(t, ast.Call) and not t.keywords:
            if isinstance(t.func, ast.Attribute) and t.func.attr == "any" and not t.args and self._full(t.func) == "":
                arg = t.func.value
            elif len(t.args) == 1 and (self._full(t.func) == "numpy.any" or (isinstance(t.func, ast.Name) and t.func.id == "any" and "any" not in self.vars
                                                                                and "any" not in self.mod.imports and "any" not in self.mod.funcs)):
                arg = t.args[0]
        if arg is not None:
            try:
                v = self.ev(arg)
            except symx.Unsupported:
                v = None
            if isinstance(v, _IdxSet):
                raise symx.Unsupported("symx: `%s` asks whether an index is non-zero, not whether anything is selected, at %s" % (norm(t), self.where(t)))
            if isinstance(v, symx.Mask):
                self._sel_mask = v
                return "mask"
        return None

    def _noop_when_empty(self, s, m):
        """the statement only stores through the selection m: nothing happens when m selects nothing"""
        if isinstance(s, ast.Pass) or (isinstance(s, ast.Expr) and isinstance(s.value, ast.Constant)):
            return True
        if m is None or not isinstance(s, (ast.Assign, ast.AugAssign)):
            return False
        for t in (s.targets if isinstance(s, ast.Assign) else [s.target]):
            if not isinstance(t, ast.Subscript):
                return False
            try:
                idx = self.ev_index(t.slice)
            except symx.Unsupported:
                return False
            if not (isinstance(idx, symx.Mask) and idx.cond == m.cond):
                return False
        return True

    @staticmethod
    def _no_effect(stmts):
        return all(isinstance(s, ast.Pass) or (isinstance(s, ast.Expr) and isinstance(s.value, ast.Constant)) for s in stmts)

    def exec_if(self, st, cond):
        self._sel_mask = None
        k = self._sel_test(st.test)
        if k == "nomask":
            # `if nothing is selected: pass  else: masked updates`; updates through the empty selection itself do nothing
            if not all(self._noop_when_empty(s_, self._sel_mask) for s_ in st.body):
                raise symx.Unsupported("symx: statements that run only when `%s` selects nothing at %s" % (norm(st.test)[:60], self.where(st)))
            return self.exec_body(st.orelse, cond)
        if k == "mask":
            if not all(self._noop_when_empty(s_, self._sel_mask) for s_ in st.orelse):
                raise symx.Unsupported("symx: statements that run only when `%s` selects nothing at %s" % (norm(st.test)[:60], self.where(st)))
            return self.exec_body(st.body, cond)
        return super().exec_if(st, cond)

    def truth(self, t):
        if self.se.assume and ("text:" + norm(t)) in self.se.assume:
            return super().truth(t)
        k = self._sel_test(t)
        if k == "mask":
            return "mask"
        if k == "nomask":
            raise symx.Unsupported("symx: test `%s` (nothing selected) outside an if statement at %s" % (norm(t)[:60], self.where(t)))
        if isinstance(t, ast.BoolOp):
            for v in t.values:
                if self._sel_test(v) == "nomask":
                    raise symx.Unsupported("symx: test `%s` (nothing selected) combined with another test at %s" % (norm(v)[:60], self.where(t)))
            return super().truth(t)
        if isinstance(t, (ast.Name, ast.Attribute, ast.Subscript, ast.Call, ast.Compare)):
            # a test that mentions a selection and is none of the forms above must not be decided by a default
            sel = [x.id for x in ast.walk(t) if isinstance(x, ast.Name) and isinstance(self.vars.get(x.id), (symx.Mask, _Count))]
            if sel:
                try:
                    v = self.ev(t)
                except symx.Unsupported:
                    v = None
                if isinstance(v, (symx.Opaque, _IdxSet, _Count)):
                    raise symx.Unsupported("symx: cannot decide test `%s` about the selection `%s` at %s" % (norm(t)[:60], sel[0], self.where(t)))
        return super().truth(t)

    def binop(self, op, a, b, node):
        if isinstance(a, (_IdxSet, _Count)) or isinstance(b, (_IdxSet, _Count)):
            raise symx.Unsupported("symx: arithmetic on an index array / a count at %s" % self.where(node))
        if isinstance(op, (ast.Mult, ast.Add, ast.Sub)):
            # a boolean mask in arithmetic is 1 where the condition holds and 0 elsewhere: x + 360 * (x < 0)
            if isinstance(a, symx.Mask) and symx._is_expr(b):
                a = symx._as_expr(a)
            elif isinstance(b, symx.Mask) and symx._is_expr(a):
                b = symx._as_expr(b)
        c360 = getattr(self.se, "sym360", None)
        if c360 is not None and isinstance(op, (ast.Add, ast.Sub)) and isinstance(a, sp.Add) and a.has(c360) and isinstance(b, sp.Basic) and b.has(c360):
            a = SUMMED(a)          # (x + 360 m) - 360 n: the inner sum is computed (and rounded) first; sympy would merge the two sums
        return super().binop(op, a, b, node)

    def _masked_call(self, c, full0):
        """numpy calls that update an array where a condition holds: ufunc(..., out=x, where=c), numpy.putmask(x, c, v), numpy.copyto(x, v, where=c)"""
        wh = kwarg(c, "where")
        if full0 == "numpy.putmask" and len(c.args) == 3 and not c.keywords:
            dst, m, v = c.args[0], self.ev(c.args[1]), self.ev(c.args[2])
        elif full0 == "numpy.copyto" and len(c.args) == 2 and wh is not None and len(c.keywords) == 1:
            dst, m, v = c.args[0], self.ev(wh), self.ev(c.args[1])
        elif wh is not None and full0.startswith("numpy."):
            if isinstance(wh, ast.Constant) and wh.value is True:
                return NotImplemented
            c2 = ast.copy_location(ast.Call(func=c.func, args=c.args, keywords=[k for k in c.keywords if k.arg not in ("where", "out")]), c)
            nin = 2 if call_name(c) in ("add", "subtract", "multiply", "divide", "true_divide", "power", "mod", "fmod", "arctan2", "minimum", "maximum", "fmin", "fmax") else 1
            dst = kwarg(c, "out") or (c.args[nin] if len(c.args) > nin else None)
            if dst is None:
                raise symx.Unsupported("symx: `%s` leaves the elements outside `where` uninitialised at %s" % (norm(c)[:60], self.where(c)))
            c2.args = c2.args[:nin]
            m, v = self.ev(wh), self.ev(c2)
        else:
            return NotImplemented
        old = self.ev(symx._load(dst))
        if isinstance(m, _IdxSet) or not isinstance(m, symx.Mask) or not symx._is_expr(v) or not symx._is_expr(old):
            raise symx.Unsupported("symx: masked update `%s` at %s" % (norm(c)[:60], self.where(c)))
        new = sp.Piecewise((symx._as_expr(v), m.cond), (symx._as_expr(old), True))
        self.assign(dst, new, c)
        return None if full0 in ("numpy.putmask", "numpy.copyto") else new

    def subscript(self, base, idx, e):
        if isinstance(base, _IdxSet) and base.tup:
            if isinstance(idx, (int, sp.Integer)) and not isinstance(idx, bool) and int(idx) in (0, -1):
                return _IdxSet(base.cond, False)          # numpy.nonzero(c)[0]: the index array of a 1-d condition
            raise symx.Unsupported("symx: subscript `%s` of the tuple of index arrays at %s" % (norm(e)[:60], self.where(e)))
        return super().subscript(base, idx, e)

    def _selection_call(self, c, full0):
        """value of a call that builds a condition, an index set or a count; NotImplemented when the call is something else"""
        f = c.func
        nargs = len(c.args) + len(c.keywords)
        if full0 in _INDEX_SET_FUNCS and nargs == 1 and not any(isinstance(a, ast.Starred) for a in c.args):
            tup, pname = _INDEX_SET_FUNCS[full0]
            a = c.args[0] if c.args else (c.keywords[0].value if c.keywords[0].arg == pname and pname else None)
            if a is not None:
                r = self._index_set(self.ev(a), tup, c)
                if r is not None:
                    return r
            return NotImplemented
        if full0 in _CMP_UFUNCS and len(c.args) == 2 and not c.keywords:
            return self.ev(ast.copy_location(ast.Compare(left=c.args[0], ops=[_CMP_UFUNCS[full0]()], comparators=[c.args[1]]), c))
        if full0 in _LOGIC_UFUNCS and len(c.args) == 2 and not c.keywords:
            a, b = self.ev(c.args[0]), self.ev(c.args[1])
            if isinstance(a, symx.Mask) and isinstance(b, symx.Mask):
                return self.binop(_LOGIC_UFUNCS[full0](), a, b, c)
            return NotImplemented
        if full0 in _NOT_UFUNCS and len(c.args) == 1 and not c.keywords:
            a = self.ev(c.args[0])
            if isinstance(a, _IdxSet):
                raise symx.Unsupported("symx: `%s` of an index array at %s" % (norm(c)[:60], self.where(c)))
            if isinstance(a, symx.Mask):
                return symx.Mask(sp.Not(a.cond))
            return NotImplemented
        # counts
        arg = None
        kind = None
        if isinstance(f, ast.Name) and f.id == "len" and "len" not in self.vars and len(c.args) == 1 and not c.keywords:
            arg, kind = c.args[0], "len"
        elif full0 == "numpy.size" and len(c.args) == 1 and not c.keywords:
            arg, kind = c.args[0], "size"
        elif full0 in ("numpy.count_nonzero", "numpy.sum") and len(c.args) == 1 and not c.keywords:
            arg, kind = c.args[0], "true"
        elif isinstance(f, ast.Attribute) and f.attr in ("sum", "nonzero", "reshape") and not self._module_ref(f.value):
            try:
                rv = self.ev(f.value)
            except symx.Unsupported:
                return NotImplemented
            if not isinstance(rv, symx.Mask):
                if f.attr == "nonzero" and not c.args and not c.keywords and symx._is_expr(rv):
                    r = self._index_set(rv, True, c)
                    return r if r is not None else NotImplemented
                return NotImplemented
            if f.attr == "nonzero" and not c.args and not c.keywords:
                return self._index_set(rv, True, c)
            if f.attr == "reshape" and not c.keywords and not (isinstance(rv, _IdxSet) and rv.tup):
                shp = [const_value(a) for a in c.args]
                if shp == [-1] or (len(c.args) == 1 and isinstance(c.args[0], (ast.Tuple, ast.List)) and [const_value(x) for x in c.args[0].elts] == [-1]):
                    return rv          # flattened: the same elements
                return NotImplemented
            if f.attr == "sum" and not c.args and not c.keywords:
                if isinstance(rv, _IdxSet):
                    raise symx.Unsupported("symx: `%s` sums indices at %s" % (norm(c)[:60], self.where(c)))
                return _Count(rv)
            return NotImplemented
        if arg is None:
            return NotImplemented
        v = self.ev(arg)
        if not isinstance(v, symx.Mask):
            return NotImplemented
        if isinstance(v, _IdxSet) and v.tup:
            raise symx.Unsupported("symx: `%s` of the tuple of index arrays at %s" % (norm(c)[:60], self.where(c)))
        if kind == "true" and isinstance(v, _IdxSet):
            raise symx.Unsupported("symx: `%s` of an index array says nothing about how many elements are selected at %s" % (norm(c)[:60], self.where(c)))
        if kind == "len" and not isinstance(v, _IdxSet):
            return NotImplemented          # the number of points
        return _Count(v)

    # -- the root finder --------------------------------------------------------------------------------------------------------
    def _solver(self, c, full):
        sig = _SOLVER_SIG.get(full)
        if sig is None or any(isinstance(a, ast.Starred) for a in c.args) or any(k.arg is None for k in c.keywords) or len(c.args) > len(sig):
            raise symx.Unsupported("symx: cannot bind the arguments of `%s` at %s" % (norm(c)[:60], self.where(c)))
        bound = {p: self.ev(a) for p, a in zip(sig, c.args)}
        for k in c.keywords:
            if k.arg in bound:
                raise symx.Unsupported("symx: cannot bind `%s` of `%s` at %s" % (k.arg, norm(c)[:60], self.where(c)))
            bound[k.arg] = self.ev(k.value)
        scratch = getattr(self.se, "scratch", ())
        state = {k: tuple(v) for k, v in sorted(self.vars.items()) if k.startswith("self.") and (isinstance(v, list) or (isinstance(v, tuple) and k in scratch))
                 and all(symx._is_expr(x) for x in v)}

        def t(x):
            if isinstance(x, _Bound):
                return sp.Symbol("METHOD_" + x.name)
            if isinstance(x, bool):
                return sp.Symbol("TRUE" if x else "FALSE")
            if isinstance(x, (list, tuple)):
                return sp.Function("SEQ")(*[t(y) for y in x])
            if symx._is_expr(x):
                return symx._as_expr(x)
            return sp.Symbol("UNKNOWN_%d_%d" % (getattr(c, "lineno", 0), getattr(c, "col_offset", 0)))
        fn, x0 = bound.get(sig[0]), bound.get("x0")
        if isinstance(x0, list):
            x0 = tuple(x0)
        rec = dict(solver=full, func=fn, x0=x0, kw={k: v for k, v in bound.items() if k not in (sig[0], "x0")}, state=state,
                   top=getattr(self.se, "_symdepth", 0) == 0, where=self.where(c))
        self.se.solver_log.append(rec)
        # the solution is a function of everything the solver and the residual function can see: callable, start, options, scratch state
        return sp.Function("ROOT_" + full.rsplit(".", 1)[1])(t(fn), t(x0), *([sp.Function("KW_" + k)(t(v)) for k, v in sorted(rec["kw"].items())]
                                                                               + [sp.Function("STATE_" + k[5:])(*[symx._as_expr(x) for x in v]) for k, v in state.items()]))

    def _bind(self, c, tgt, meth):
        """{parameter: value} of a call of a package function / method of the analysed class (positional, keyword and default alike)"""
        params = [p for p in tgt.params if not p.startswith("*")]
        if meth and not any(isinstance(d_, ast.Name) and d_.id == "staticmethod" for d_ in tgt.node.decorator_list):
            params = params[1:]
        if any(isinstance(a, ast.Starred) for a in c.args) or any(k.arg is None for k in c.keywords) or len(c.args) > len(params):
            raise symx.Unsupported("symx: cannot bind the arguments of `%s` at %s" % (norm(c)[:60], self.where(c)))
        bound = {}
        for p, a in zip(params, c.args):
            bound[p] = self.ev(a)
        for k in c.keywords:
            if k.arg in bound or k.arg not in params:
                raise symx.Unsupported("symx: cannot bind `%s` of `%s` at %s" % (k.arg, norm(c)[:60], self.where(c)))
            bound[k.arg] = self.ev(k.value)
        given = set(bound)
        for p in params:
            if p not in bound:
                if p not in tgt.defaults:
                    raise symx.Unsupported("symx: missing argument `%s` of `%s` at %s" % (p, norm(c)[:60], self.where(c)))
                bound[p] = type(self)(self.se, tgt, tgt.module, {}, {}).ev(tgt.defaults[p])
        return params, bound, given

    def _method(self, node):
        """name of the method of the analysed class that `self.<name>` denotes, else None"""
        if isinstance(node, ast.Attribute) and isinstance(node.value, ast.Name) and node.value.id == "self" and self.fi is not None and self.fi.cls \
                and norm(node) not in self.vars and self.se.repo.has("%s.%s.%s" % (self.fi.module.name, self.fi.cls, node.attr)):
            return node.attr
        return None

    def ev(self, e, stmt_level=False):
        if isinstance(e, ast.Attribute) and self._method(e):
            return _Bound(e.attr)
        if isinstance(e, ast.Constant) and type(e.value) in (int, float) and e.value == 360 and getattr(self.se, "sym360", None) is not None:
            return self.se.sym360
        if isinstance(e, ast.UnaryOp) and isinstance(e.op, ast.Invert):
            v = self.ev(e.operand)
            if isinstance(v, _IdxSet):
                raise symx.Unsupported("symx: `~` of an index array at %s" % self.where(e))
            if isinstance(v, symx.Mask):
                return symx.Mask(sp.Not(v.cond))
        if isinstance(e, ast.JoinedStr):
            # f"{prefix}_{i}": the text, when every part is a string or an integer (as `prefix + "_" + str(i)` would be)
            parts = []
            for v in e.values:
                if isinstance(v, ast.Constant) and isinstance(v.value, str):
                    parts.append(v.value)
                    continue
                x = None
                if isinstance(v, ast.FormattedValue) and v.format_spec is None and v.conversion in (-1, 115):
                    try:
                        x = self.ev(v.value)
                    except symx.Unsupported:
                        x = None
                if isinstance(x, str):
                    parts.append(x)
                elif isinstance(x, (int, sp.Integer)) and not isinstance(x, bool):
                    parts.append(str(int(x)))
                else:
                    return symx.Opaque("fstring")
            return "".join(parts)
        if isinstance(e, (ast.Attribute, ast.Name)) and getattr(self.se, "solver_log", None) is not None and norm(e) not in self.vars:
            d = dotted_name(e)
            if d and d.split(".")[0] not in self.vars and d.split(".")[0] in self.mod.imports:
                full = self.se.repo.resolve_name(self.mod, d)
                if full in _SOLVER_SIG:
                    return symx.Opaque(full)          # the library function as a value (an alias of it is followed by _denotes)
        if isinstance(e, ast.DictComp):
            pairs = self._comprehension(ast.copy_location(ast.ListComp(elt=ast.copy_location(ast.Tuple(elts=[e.key, e.value], ctx=ast.Load()), e), generators=e.generators), e))
            if pairs is None:
                return symx.Opaque("comprehension")
            try:
                return dict(pairs)
            except TypeError:
                return symx.Opaque("comprehension")
        if isinstance(e, ast.Attribute) and e.attr == "size" and getattr(self.se, "array_inputs", None) and norm(e) not in self.vars:
            if self._arrayish(self.ev(e.value)):
                return NPTS          # every array built element-wise from the inputs has as many elements as they have points
        if isinstance(e, ast.Attribute) and e.attr == "ndim" and getattr(self.se, "input_kind", None) and norm(e) not in self.vars:
            k = self._kind_of(e.value)
            if k is not None:
                return sp.Integer(0 if k == "scalar" else 1)
        return super().ev(e, stmt_level)

    def _kind_of(self, node):
        """'scalar' / 'array' when the expression is built from the coordinate inputs of this run, else None"""
        ins = getattr(self.se, "coord_inputs", None)
        if not ins:
            return None
        try:
            v = self.ev(node)
        except symx.Unsupported:
            return None
        if isinstance(v, sp.Expr) and v.free_symbols & ins and not any(
                isinstance(s_, sp.core.function.AppliedUndef) and s_.func.__name__ in _NOT_ELEMENTWISE for s_ in sp.preorder_traversal(v)):
            return self.se.input_kind
        return None

    def _is_self(self, node):
        return isinstance(node, ast.Name) and node.id == "self" and isinstance(self.vars.get("self", symx.Opaque("self")), symx.Opaque)

    def _target(self, c):
        """(FuncInfo, is-method) of a call to a package function or to a method of the analysed class, else (None, False)"""
        d = dotted_name(c.func)
        if not d:
            return None, False
        full = self.se.repo.resolve_name(self.mod, d)
        if self.se.repo.has(full):
            return self.se.repo.func(full), False
        if self._method(c.func):
            return self.se.repo.func("%s.%s.%s" % (self.fi.module.name, self.fi.cls, c.func.attr)), True
        return None, False

    def call(self, c, stmt_level=False):
        f = c.func
        if isinstance(f, ast.Name) and f.id not in self.vars and f.id not in self.mod.funcs and f.id not in self.mod.imports:
            if f.id == "iter" and len(c.args) == 1 and not c.keywords:
                v = self.ev(c.args[0])
                if isinstance(v, _Iter):
                    return v
                if isinstance(v, (tuple, list, dict)):
                    return _Iter(v)
                raise symx.Unsupported("symx: iter() of a non-literal sequence at %s" % self.where(c))
            if f.id == "next" and len(c.args) in (1, 2) and not c.keywords:
                it = self.ev(c.args[0])
                if not isinstance(it, _Iter):
                    raise symx.Unsupported("symx: next() of %r at %s" % (it, self.where(c)))
                if getattr(self.se, "_symdepth", 0):
                    raise symx.Unsupported("symx: next() under an undecided condition at %s" % self.where(c))
                if it.pos < len(it.seq):
                    it.pos += 1
                    return it.seq[it.pos - 1]
                if len(c.args) == 2:
                    return self.ev(c.args[1])
                raise symx.Unsupported("symx: next() on an exhausted iterator at %s" % self.where(c))
            if f.id == "setattr" and len(c.args) == 3 and not c.keywords:
                nm_ = self.ev(c.args[1])
                if self._is_self(c.args[0]) and isinstance(nm_, str):
                    self.vars["self." + nm_] = self.ev(c.args[2])          # setattr(self, "name", v)  ==  self.name = v
                    return None
                raise symx.Unsupported("symx: `%s` at %s" % (norm(c)[:60], self.where(c)))
            if f.id == "getattr" and len(c.args) in (2, 3) and not c.keywords:
                nm_ = self.ev(c.args[1])
                if self._is_self(c.args[0]) and isinstance(nm_, str):
                    if "self." + nm_ in self.vars:
                        return self.vars["self." + nm_]
                    if self.fi is not None and self.fi.cls and self.se.repo.has("%s.%s.%s" % (self.fi.module.name, self.fi.cls, nm_)):
                        return _Bound(nm_)
                raise symx.Unsupported("symx: `%s` at %s" % (norm(c)[:60], self.where(c)))
            if getattr(self.se, "array_inputs", None) and f.id in ("range", "zip", "enumerate", "len") and not c.keywords and c.args:
                vals = [self.ev(a) for a in c.args]
                if f.id == "len" and len(vals) == 1 and self._arrayish(vals[0]):
                    return NPTS
                if f.id == "range" and len(vals) == 1 and vals[0] == NPTS:
                    return _Gen(lambda i: i)
                gens = [self._as_gen(v) for v in vals]
                if f.id == "zip" and all(g is not None for g in gens):
                    return _Gen(lambda i, gens=gens: tuple(g.at(i) for g in gens))
                if f.id == "enumerate" and len(vals) == 1 and gens[0] is not None:
                    return _Gen(lambda i, g=gens[0]: (i, g.at(i)))
                if any(g is not None for g in gens):
                    raise symx.Unsupported("symx: `%s` over the points of the input at %s" % (norm(c)[:60], self.where(c)))
                # literal arguments: the shared code (the arguments are evaluated again there; they are plain values)
        d0 = dotted_name(f)
        full0 = self.se.repo.resolve_name(self.mod, d0) if d0 else ""
        r_ = self._selection_call(c, self._full(f))
        if r_ is not NotImplemented:
            return r_
        r_ = self._masked_call(c, self._full(f))
        if r_ is not NotImplemented:
            return r_
        if full0 == "operator.index" and len(c.args) == 1 and not c.keywords:
            x = self.ev(c.args[0])
            if (isinstance(x, int) and not isinstance(x, bool)) or (isinstance(x, sp.Basic) and x.is_integer):
                return x          # the integer itself; anything else raises TypeError in the analysed code
        if full0 in ("numpy.isscalar", "numpy.ndim") and len(c.args) == 1 and not c.keywords and getattr(self.se, "input_kind", None):
            k = self._kind_of(c.args[0])
            if k is not None:
                return (k == "scalar") if full0 == "numpy.isscalar" else sp.Integer(0 if k == "scalar" else 1)
        if isinstance(f, ast.Attribute) and f.attr in ("items", "values", "update") and not isinstance(f.value, ast.Constant):
            # dict methods on tables the evaluator holds as dicts
            try:
                rv = self.ev(f.value)
            except symx.Unsupported:
                rv = None
            if isinstance(rv, dict):
                if f.attr == "items" and not c.args and not c.keywords:
                    return [(k_, v_) for k_, v_ in rv.items()]
                if f.attr == "values" and not c.args and not c.keywords:
                    return list(rv.values())
                if f.attr == "update" and len(c.args) <= 1:
                    new = {}
                    if c.args:
                        a = self.ev(c.args[0])
                        if isinstance(a, dict):
                            new.update(a)
                        elif isinstance(a, (list, tuple)) and all(isinstance(p_, tuple) and len(p_) == 2 for p_ in a):
                            new.update(dict(a))
                        else:
                            raise symx.Unsupported("symx: `%s` at %s" % (norm(c)[:60], self.where(c)))
                    for k in c.keywords:
                        if k.arg is None:
                            raise symx.Unsupported("symx: `%s` at %s" % (norm(c)[:60], self.where(c)))
                        new[k.arg] = self.ev(k.value)
                    rv.update(new)
                    return None
        if getattr(self.se, "solver_log", None) is not None:
            den = _denotes(self.se.repo, self.mod, self.fi, f)
            if den and len(den) == 1 and next(iter(den)) in _SOLVER_SIG:
                return self._solver(c, next(iter(den)))
        # a call through a value that denotes a method of the object: extractors[name](...), fn = self.m; fn(...)
        if isinstance(f, (ast.Subscript, ast.IfExp)) or (isinstance(f, ast.Name) and isinstance(self.vars.get(f.id), _Bound)):
            v = self.ev(f)
            if isinstance(v, _Bound):
                c2 = ast.Call(func=ast.Attribute(value=ast.Name(id="self", ctx=ast.Load()), attr=v.name, ctx=ast.Load()), args=c.args, keywords=c.keywords)
                ast.copy_location(c2, c)
                ast.fix_missing_locations(c2)
                return self.call(c2, stmt_level)
        summaries = getattr(self.se, "summaries", None)
        tgt, meth = self._target(c) if (summaries or self.se.opaque) else (None, False)
        if tgt is not None and summaries and tgt.qualname in summaries:
            params, bound, _ = self._bind(c, tgt, meth)
            self.se.calls.append((tgt.qualname, bound, getattr(self.se, "_symdepth", 0) == 0))
            return summaries[tgt.qualname](bound)
        if tgt is not None and meth and tgt.qualname in self.se.opaque:
            # a method kept as a function symbol: one term per meaning, however the call is spelled -- required arguments in the
            # callee's parameter order, optional ones only where they differ from the callee's default, as KW_<name>(value)
            try:
                params, bound, _ = self._bind(c, tgt, meth)
            except symx.Unsupported:
                return super().call(c, stmt_level)
            vals = []
            for p in params:
                v = bound[p]
                if p in tgt.defaults:
                    dv = type(self)(self.se, tgt, tgt.module, {}, {}).ev(tgt.defaults[p])
                    if v is dv or (type(v) is type(dv) and symx._same(v, dv)) or (symx._is_expr(v) and symx._is_expr(dv) and symx._same(symx._as_expr(v), symx._as_expr(dv))):
                        continue
                    if symx._is_expr(v) or isinstance(v, bool) or symx._is_matrix(v):
                        vals.append((1, sp.Function("KW_" + p)(symx._opaque_arg(v))))
                elif symx._is_expr(v) or symx._is_matrix(v):
                    vals.append((0, symx._opaque_arg(v)))
            return sp.Function(tgt.name)(*([v for k_, v in vals if k_ == 0] + [v for k_, v in vals if k_ == 1]))
        return super().call(c, stmt_level)

    def assign(self, t, v, st):
        if isinstance(t, (ast.Tuple, ast.List)) and isinstance(v, _IdxSet):
            if len(t.elts) == 1 and v.tup and not isinstance(t.elts[0], ast.Starred):
                return self.assign(t.elts[0], _IdxSet(v.cond, False), st)          # (w,) = numpy.nonzero(c)
            raise symx.Unsupported("symx: cannot unpack %r into %s at %s" % (v, norm(t), self.where(st)))
        if isinstance(t, ast.Subscript) and isinstance(t.slice, ast.Tuple) and len(t.slice.elts) == 2 and not any(isinstance(x, ast.Slice) for x in t.slice.elts):
            idx = self.ev(t.slice)
            if isinstance(idx, tuple) and all(isinstance(i, (list, tuple)) for i in idx):
                # m[rows, cols] = values: one element per (rows[k], cols[k])
                base = self.ev(t.value)
                rows, cols = idx
                isint = lambda z: isinstance(z, (int, sp.Integer)) and not isinstance(z, bool)
                if not (isinstance(base, list) and all(isinstance(r, list) for r in base) and len(rows) == len(cols) and all(isint(z) for z in list(rows) + list(cols))
                        and all(0 <= int(i) < len(base) and 0 <= int(j) < len(base[0]) for i, j in zip(rows, cols))):
                    raise symx.Unsupported("symx: fancy-index store `%s` at %s" % (norm(t), self.where(st)))
                n = len(rows)
                if isinstance(v, (tuple, list)) and len(v) == n:
                    vals = list(v)
                elif isinstance(v, sp.Basic) and getattr(v.func, "__name__", "") == "SLICE" and v.args[1] in (sp.Symbol("None"), sp.Integer(0)) and v.args[2] == n \
                        and v.args[3] in (sp.Symbol("None"), sp.Integer(1)):
                    vals = [sp.Function("AT")(v.args[0], sp.Integer(k)) for k in range(n)]          # a[:n] element by element
                else:
                    raise symx.Unsupported("symx: fancy-index store of %r at %s" % (v, self.where(st)))
                for i, j, x in zip(rows, cols, vals):          # in order: for a repeated position numpy keeps the last value
                    base[int(i)][int(j)] = x
                return
        return super().assign(t, v, st)


class _SE(symx.SymEval):
    """SymEval whose environments are _Env.  symx creates its environments through the module global `Env` (in run and
    module_const); it is pointed at _Env for the duration of these two calls only and restored afterwards."""

    def __init__(self, *a, **kw):
        super().__init__(*a, **kw)
        self.summaries = {}
        self.calls = []
        self._symdepth = 0
        self._genloop = None
        self.solver_log = None        # a list: calls of the scipy root finders are recorded and become ROOT_<solver>(...) terms
        self.input_kind = None        # 'scalar' / 'array': what isscalar / ndim say about the coordinate inputs of this run
        self.coord_inputs = set()     # the symbols that stand for the coordinate inputs
        self.array_inputs = set()     # those of them that are arrays (loops over their points are run for one generic point)

    def _with_env(self, fn, *a, **kw):
        old = symx.Env
        symx.Env = _Env
        try:
            return fn(*a, **kw)
        finally:
            symx.Env = old

    def run(self, *a, **kw):
        return self._with_env(super().run, *a, **kw)

    def module_const(self, mod, name, depth=0):
        """as symx.SymEval.module_const (a table filled by later module-level statements is replayed in source order), and the
        replay also knows `table.update(...)` statements"""
        key = (mod.name, name)
        if key in self._const_cache:
            return self._const_cache[key]
        if name not in mod.consts or depth > 6:
            return None
        self._const_cache[key] = None
        env = _Env(self, None, mod, {}, {})
        try:
            v = env.ev(mod.consts[name])
        except symx.Unsupported:
            v = None
        if isinstance(v, dict):
            started = False
            self._const_cache[key] = v
            for st in mod.tree.body:
                if isinstance(st, ast.Assign) and len(st.targets) == 1 and isinstance(st.targets[0], ast.Name):
                    if st.targets[0].id == name:
                        started = st.value is mod.consts[name]
                        continue
                    if started:
                        try:
                            env.vars[st.targets[0].id] = env.ev(st.value)
                        except symx.Unsupported:
                            env.vars.pop(st.targets[0].id, None)
                    continue
                if not started:
                    continue
                root = None
                if isinstance(st, ast.Assign) and isinstance(st.targets[0], ast.Subscript):
                    root = st.targets[0]
                    while isinstance(root, ast.Subscript):
                        root = root.value
                try:
                    if root is not None and isinstance(root, ast.Name) and root.id == name:
                        env.assign(st.targets[0], env.ev(st.value), st)
                    elif isinstance(st, ast.For) and any(isinstance(x, ast.Assign) and isinstance(x.targets[0], ast.Subscript) and norm(x.targets[0].value) == name for x in ast.walk(st)):
                        env.exec_for(st, sp.true)
                    elif isinstance(st, ast.Expr) and isinstance(st.value, ast.Call) and isinstance(st.value.func, ast.Attribute) and st.value.func.attr == "update" \
                            and norm(st.value.func.value) == name:
                        env.call(st.value, True)
                except (symx.Unsupported, KeyError, TypeError):
                    pass
        self._const_cache[key] = v
        return v


# rules that keep their verdict however the code is laid out (decided by term equality, effect analysis or dominance over
# resolved calls); every other rule of this check is a template rule (vcheck.core.Check.obt)
SEMANTIC = ('R10.1', 'R10.2', 'R10.3', 'R10.4', 'R10.5', 'R10.6', 'R10.7', 'R10.8', 'R10.9', 'R10.10', 'R10.11::wrap_ra_diff[', 'R10.12', 'R10.13')


def run(chk):
    repo = PyRepo()
    chk.set_templates(repo, semantic=SEMANTIC)
    chk.explanation = MANIFEST["text"]
    chk.trusted = ["sympy normaliser", "CPython ast", "networkx dominators"]
    chk.assume("theta0 = 90 (zenithal/TAN family): the general GetPole branches are outside the property's quantifier")
    chk.floor = 145
    for q in ("image2sky", "sky2image", "get_jacobian", "Distort", "ApplyCDMatrix", "image2sph", "sph2image", "Rotate", "_rotate",
              "CreateRotationMatrix", "GetPole", "ExtractPVCoeffs", "ExtractSIPCoeffs", "ExtractDistortionModel", "ExtractFromWCS",
              "_findxy", "_findxy_one", "_lonlatdiff", "__init__"):
        if q == "_findxy_one" and not repo.has(W + q):
            continue          # a private stage of _findxy: the root-finder rules follow _findxy through whatever helpers it has
        chk.analysed_unit(repo.func(W + q).qualname)
    unbound = defassign(chk, repo)
    chains(chk, repo, unbound)
    flags_honoured(chk, repo)
    tangent(chk, repo)
    rotation(chk, repo)
    coeffs(chk, repo)
    wiring(chk, repo)
    state(chk, repo)
    ownership(chk, repo)
    rootfind(chk, repo)
    jacobian(chk, repo)
    wrapdiff(chk, repo)
    invfit(chk, repo)
    lazyfit(chk, repo)
    imagesize(chk, repo)
    noalias(chk, repo)


# ---------------------------------------------------------------------------
# R10.1 definite assignment
# ---------------------------------------------------------------------------
def _projvar(fi):
    for x in walk_no_nested(fi.node):
        if isinstance(x, ast.Assign) and len(x.targets) == 1 and isinstance(x.targets[0], ast.Name) and "self.projection" in norm(x.value):
            return x.targets[0].id
    raise AnalysisError("%s: no local holding the projection name" % fi.qualname)


def defassign(chk, repo):
    """every local of image2sky / sky2image is assigned before use for all projection x model x distort x find combinations.
    Decided twice: by enumerating the option combinations in the term evaluator (a read of an unassigned local on a concrete path
    stops it with 'unknown name'), which does not depend on how the options are tested, and - when the function keeps the
    projection name in a local that its tests compare with literals - on the flag-specialised CFG as well.
    Returns the set of function names with a finding."""
    import re
    bad = set()
    x, y, lon, lat = symx.symbols("x", "y", "lon", "lat")
    for name, opts in (("image2sky", ("distort",)), ("sky2image", ("distort", "find"))):
        fi = repo.func(W + name)
        findings = {}
        ncomb = 0
        for proj in PROJS:
            for model in ("none", "scamp", "sip"):
                for vals in itertools.product((True, False), repeat=len(opts)):
                    st, _, _, _ = _state(proj, model)
                    se = _mkse(repo, ("image2sph", "sph2image", "_findxy", "Distort", "ApplyCDMatrix"))
                    args = dict(st, x=x, y=y) if name == "image2sky" else dict(st, longitude=lon, latitude=lat)
                    ncomb += 1
                    try:
                        se.run(fi, args, dict(zip(opts, vals)))
                    except symx.Unsupported as e:
                        m = re.search(r"unknown name `(\w+)` at \S+:(\d+)", str(e))
                        if not m:
                            raise
                        var, line = m.group(1), int(m.group(2))
                        stmt = next((norm(z).split("\n")[0][:80] for z in walk_no_nested(fi.node) if isinstance(z, ast.stmt) and getattr(z, "lineno", -1) == line), "line %d" % line)
                        f = findings.setdefault("%s::use-before-assignment@%s" % (name, stmt), (line, set(), []))
                        f[1].add(var)
                        f[2].append("projection=%s model=%s %s" % (proj, model, " ".join("%s=%s" % kv for kv in zip(opts, vals))))
        # flag-specialised CFG (only when the projection name is held in a local)
        try:
            pv = _projvar(fi)
        except AnalysisError:
            pv = None
        if pv is not None:
            cfg = cfg_of(fi)
            for proj in PROJS:
                for model in (True, False):
                    for vals in itertools.product((True, False), repeat=len(opts)):
                        flags = dict(zip(opts, vals))
                        flags[pv] = proj
                        view = cfg.specialise(flags=flags, assume={HASMODEL: model})
                        IN = view.definitely_assigned()
                        allv = set(cfg_params(cfg))
                        for n in view.nodes():
                            allv |= set(cfg.defs_uses(n)[0])
                        ncomb += 1
                        for n in view.nodes():
                            d, u = cfg.defs_uses(n)
                            for v in u:
                                if v in allv and v not in IN[n.id] and n.ast is not None:
                                    key = "%s::use-before-assignment@%s" % (name, norm(n.ast).split("\n")[0][:80])
                                    f = findings.setdefault(key, (n.ast.lineno, set(), []))
                                    f[1].add(v)
                                    c = "projection=%s model-present=%s %s" % (proj, model, " ".join("%s=%s" % kv for kv in zip(opts, vals)))
                                    if c not in f[2]:
                                        f[2].append(c)
        for key, (line, vs, combos) in findings.items():
            bad.add(name)
            chk.ob("R10.1", key, False, "%s:%d" % (fi.where().rsplit(":", 1)[0], line),
                   "local(s) %s read but not assigned on every path for: %s" % (", ".join("`%s`" % v for v in sorted(vs)), "; ".join(combos[:6]) + (" ..." if len(combos) > 6 else "")))
        if not findings:
            chk.ob("R10.1", "%s::definite-assignment" % name, True, fi.where(),
                   "every local is assigned before use for all projection x model x %s combinations (%d paths)" % (" x ".join(opts), ncomb))
    return bad


def cfg_params(cfg):
    from vcheck.cfg import func_params
    return func_params(cfg.fn)


# ---------------------------------------------------------------------------
# R10.2 / R10.5a chains
# ---------------------------------------------------------------------------
def _state(proj, model, inverse_ready=True):
    cx, cy = symx.symbols("cx", "cy")
    cd = tuple(tuple(sp.Symbol("cd%d%d" % (i, j)) for j in (1, 2)) for i in (1, 2))
    ci = tuple(tuple(sp.Symbol("ci%d%d" % (i, j)) for j in (1, 2)) for i in (1, 2))
    st = {"self.crpix": (cx, cy), "self.cd": cd, "self.cdinv": ci, "self.projection": proj, "self._inverse_computed": inverse_ready,
          "self.distort": {"name": model, "a": M("a"), "b": M("b"), "ap": M("ap"), "bp": M("bp")}}
    return st, (cx, cy), cd, ci


def _mul(m, u, v):
    return m[0][0] * u + m[0][1] * v, m[1][0] * u + m[1][1] * v


def _mkse(repo, opaque, **kw):
    se = _SE(repo, opaque={W + o for o in opaque}, inline_depth=6, **kw)
    se.assume["text:a[ix, iy] != 0.0"] = True     # the zero-coefficient skip in Apply2DPolynomial only saves work
    return se


def chains(chk, repo, unbound):
    x, y, lon, lat = symx.symbols("x", "y", "lon", "lat")
    combos = [("-TAN", "none"), ("-TAN", "scamp"), ("-TPV", "none"), ("-TPV", "scamp"), ("-TAN-SIP", "none"), ("-TAN-SIP", "sip")]
    fi = repo.func(W + "image2sky")
    for proj, model in combos:
        for distort in (True, False):
            tag = "image2sky[%s,model=%s,distort=%s]" % (proj, model, distort)
            st, (cx, cy), cd, ci = _state(proj, model)
            se = _mkse(repo, ("image2sph",))
            try:
                r = se.run(fi, dict(st, x=x, y=y), {"distort": distort})
            except symx.Unsupported as e:
                if "unknown name" in str(e) and "image2sky" in unbound:
                    chk.ob("R10.2", tag + "::forward-chain", True, fi.where(), "not evaluable: use-before-assignment already reported by R10.1 (%s)" % e, nontrivial=False)
                    continue
                raise
            dx, dy = x - cx, y - cy
            use = distort and model != "none"
            if proj in ("-TAN", "-TPV"):
                U, V = _mul(cd, dx, dy)
                if use:
                    U, V = P(st["self.distort"]["a"], U, V), P(st["self.distort"]["b"], U, V)
                what = "CD matrix first, then the PV polynomial replaces (xi, eta)" if use else "CD matrix only"
            else:
                if use:
                    dx, dy = dx + P(st["self.distort"]["a"], dx, dy), dy + P(st["self.distort"]["b"], dx, dy)
                U, V = _mul(cd, dx, dy)
                what = "SIP polynomial added to the pixel offsets first, then the CD matrix" if use else "CD matrix only"
            if isinstance(r, sp.Basic) and getattr(r, "func", None) is not None and r.func.__name__ == "image2sph" and len(r.args) == 2:
                # `return self.image2sph(u, v)`: the pair is returned as produced
                r = (sp.Function("image2sph_0")(*r.args), sp.Function("image2sph_1")(*r.args))
            ok = isinstance(r, tuple) and len(r) == 2 and all(getattr(t, "func", None) is not None and t.func.__name__ == "image2sph_%d" % i and len(t.args) == 2
                                                             for i, t in enumerate(r))
            why = ""
            if ok:
                for i, (got, want) in enumerate(zip(r[0].args, (U, V))):
                    eq, d = symx.equal(got, want)
                    if not eq:
                        ok = False
                        why = " (intermediate coordinate %d differs by %s)" % (i, str(d)[:200])
                if ok and r[1].args != r[0].args:
                    ok, why = False, " (longitude and latitude come from different intermediate coordinates)"
            else:
                why = " (result is not image2sph(u, v): %s)" % str(r)[:160]
            chk.ob("R10.2", tag + "::forward-chain", ok, fi.where(), "offset from CRPIX, %s, then image2sph%s" % (what, why))
    fi = repo.func(W + "sky2image")
    for proj, model in combos:
        for distort in (True, False):
            tag = "sky2image[%s,model=%s,distort=%s,find=False]" % (proj, model, distort)
            st, (cx, cy), cd, ci = _state(proj, model)
            se = _mkse(repo, ("sph2image",))
            r = se.run(fi, dict(st, longitude=lon, latitude=lat), {"distort": distort, "find": False})
            S = sp.Function("sph2image")(lon, lat)
            u0, v0 = sp.Function("sph2image_0")(*S.args), sp.Function("sph2image_1")(*S.args)
            use = distort and model != "none"
            if proj in ("-TAN", "-TPV"):
                u, v = u0, v0
                if use:
                    u, v = P(st["self.distort"]["ap"], u0, v0), P(st["self.distort"]["bp"], u0, v0)
                dx, dy = _mul(ci, u, v)
                what = "inverse PV polynomial, then CD^-1" if use else "CD^-1 only"
            else:
                u, v = _mul(ci, u0, v0)
                dx, dy = (u + P(st["self.distort"]["ap"], u, v), v + P(st["self.distort"]["bp"], u, v)) if use else (u, v)
                what = "CD^-1, then the inverse SIP polynomial added" if use else "CD^-1 only"
            ok = isinstance(r, tuple) and len(r) == 2
            why = ""
            if ok:
                for i, (got, want) in enumerate(zip(r, (dx + cx, dy + cy))):
                    eq, d = symx.equal(got, want)
                    if not eq:
                        ok = False
                        why = " (pixel coordinate %d differs by %s)" % (i, str(d)[:200])
            else:
                why = " (got %s)" % str(r)[:160]
            chk.ob("R10.2", tag + "::inverse-chain", ok, fi.where(), "sph2image, %s, plus CRPIX%s" % (what, why))
    # find=True with a model delegates to the root finder with the coordinates in order and the tolerance forwarded
    st, _, _, _ = _state("-TPV", "scamp")
    se = _mkse(repo, ("_findxy",))
    tol = sp.Symbol("xtol")
    r = se.run(fi, dict(st, longitude=lon, latitude=lat, xtol=tol), {"distort": True, "find": True})
    if isinstance(r, sp.Basic) and getattr(r, "func", None) is not None and r.func.__name__ == "_findxy":
        r = (sp.Function("_findxy_0")(*r.args), sp.Function("_findxy_1")(*r.args))
    ok = isinstance(r, tuple) and len(r) == 2 and all(getattr(t, "func", None) is not None and t.func.__name__ == "_findxy_%d" % i for i, t in enumerate(r)) \
        and r[0].args[:2] == (lon, lat) and (sp.Function("KW_xtol")(tol) in r[0].args or (len(r[0].args) > 2 and r[0].args[2] == tol))
    chk.ob("R10.2", "sky2image[model,distort=True,find=True]::root-finder", bool(ok), fi.where(),
           "with a distortion model and find=True the result is _findxy(longitude, latitude, xtol=xtol) (got %s)" % str(r)[:160])
    # find is irrelevant without a model
    for find in (True, False):
        st, (cx, cy), cd, ci = _state("-TAN", "none")
        se = _mkse(repo, ("sph2image", "_findxy"))
        r = se.run(fi, dict(st, longitude=lon, latitude=lat), {"distort": True, "find": find})
        ok = isinstance(r, tuple) and not any("_findxy" in str(t) for t in r)
        chk.ob("R10.2", "sky2image[-TAN,model=none,find=%s]::closed-form" % find, ok, fi.where(), "without a distortion model the closed-form inverse is used")


# ---------------------------------------------------------------------------
# R10.8 the distort option is honoured on every path
# ---------------------------------------------------------------------------
def flags_honoured(chk, repo):
    x, y, lon, lat = symx.symbols("x", "y", "lon", "lat")
    fi = repo.func(W + "sky2image")
    for proj, model in (("-TPV", "scamp"), ("-TAN-SIP", "sip")):
        for find in (True, False):
            st, _, _, _ = _state(proj, model)
            se = _mkse(repo, ("sph2image", "_findxy", "Distort"))
            r = se.run(fi, dict(st, longitude=lon, latitude=lat), {"distort": False, "find": find})
            txt = str(r)
            ok = "_findxy" not in txt and "Distort" not in txt
            chk.ob("R10.8", "sky2image[distort=False]::no-distortion-applied" if not ok else "sky2image[%s,distort=False,find=%s]::no-distortion-applied" % (proj, find),
                   ok, fi.where(),
                   "with distort=False the result must be the closed-form inverse of image2sky(distort=False): neither Distort nor the root finder "
                   "(which inverts the *distorted* transform) may be reached%s" % ("" if ok else " -- find=%s reaches %s" % (find, "_findxy" if "_findxy" in txt else "Distort")))
    fi = repo.func(W + "image2sky")
    for proj, model in (("-TPV", "scamp"),):
        st, _, _, _ = _state(proj, model)
        se = _mkse(repo, ("image2sph", "Distort"))
        r = se.run(fi, dict(st, x=x, y=y), {"distort": False})
        chk.ob("R10.8", "image2sky[%s,distort=False]::no-distortion-applied" % proj, "Distort" not in str(r), fi.where(), "distort=False never reaches Distort")
    fi = repo.func(W + "get_jacobian")
    calls = [c for c in walk_no_nested(fi.node) if isinstance(c, ast.Call) and dotted_name(c.func) == "self.image2sky"]
    ok = len(calls) >= 5 and all(kwarg(c, "distort") is not None and norm(kwarg(c, "distort")) == "distort" for c in calls)
    chk.ob("R10.8", "get_jacobian::distort-forwarded", ok, fi.where(), "all %d image2sky calls of the finite-difference stencil forward distort=distort" % len(calls))
    # the residual function of the root finder must use the full (distorted) transform
    fi = repo.func(W + "_lonlatdiff")
    calls = [c for c in walk_no_nested(fi.node) if isinstance(c, ast.Call) and dotted_name(c.func) == "self.image2sky"]
    ok = len(calls) == 1 and (kwarg(calls[0], "distort") is None or const_value(kwarg(calls[0], "distort")) is True) and len(calls[0].args) == 2
    chk.ob("R10.8", "_lonlatdiff::uses-distorted-transform", ok, fi.where(), "the root finder's residual evaluates image2sky with the distortion model on")


# ---------------------------------------------------------------------------
# R10.5b tangent plane <-> native sphere, range fold, scalar/array arms
# ---------------------------------------------------------------------------
RM = tuple(tuple(sp.Symbol("r%d%d" % (i, j)) for j in range(3)) for i in range(3))


def _mat(m):
    return sp.Function("MAT3x3")(*[e for row in m for e in row])


def _tr(m):
    return tuple(tuple(m[i][j] for i in range(3)) for j in range(3))


def _peel_default(t, depth=4):
    """innermost default value of nested Piecewise terms"""
    for _ in range(depth):
        if isinstance(t, sp.Piecewise):
            d = [v for v, c in t.args if c == sp.true]
            if not d:
                break
            t = d[0]
        else:
            break
    return t


_NEG = {sp.LessThan: sp.StrictGreaterThan, sp.GreaterThan: sp.StrictLessThan, sp.Ne: sp.Eq}


def _pw2(t):
    """(value-if, condition, value-else) of a two-armed Piecewise with the condition oriented to <, > or ==
    (`X if c else Y` and `Y if not c else X` are the same term), else None"""
    if isinstance(t, sp.Piecewise) and len(t.args) == 2 and t.args[1][1] == sp.true:
        (x, c), (y, _) = t.args
        if isinstance(c, sp.Not):
            c, x, y = c.args[0], y, x
        if type(c) in _NEG:
            c, x, y = _NEG[type(c)](c.lhs, c.rhs), y, x
        if isinstance(c, sp.StrictLessThan):
            c = sp.StrictGreaterThan(c.rhs, c.lhs)
        return x, c, y
    return None


def _arms_equal(a, b):
    """equality of two terms; two-armed case distinctions are compared arm by arm after orienting their conditions, which needs
    no simplifier (cheap and independent of machine load); everything else goes to symx.equal"""
    if a == b:
        return True
    pa, pb = _pw2(a), _pw2(b)
    if pa is not None and pb is not None and type(pa[1]) is type(pb[1]) and isinstance(pa[1], sp.Rel):
        same = pa[1] == pb[1]
        if not same:
            try:
                # t > 0 and k t > 0 are the same condition for a positive number k
                q = sp.cancel((pa[1].lhs - pa[1].rhs) / (pb[1].lhs - pb[1].rhs))
                same = bool(q.is_number and q.is_positive) and not isinstance(pa[1], sp.Eq) or bool(q.is_number and q != 0 and isinstance(pa[1], sp.Eq))
            except Exception:
                same = False
        if same and _arms_equal(pa[0], pb[0]) and _arms_equal(pa[2], pb[2]):
            return True
    return bool(symx.equal(a, b)[0])


def tangent(chk, repo):
    x, y, lon, lat = symx.symbols("x", "y", "lon", "lat")
    fi = repo.func(W + "image2sph")
    res = {}
    for scalar in (True, False):
        se = _mkse(repo, ("_rotate",), opaque_tests=scalar)
        res[scalar] = se.run(fi, {"x": x, "y": y, "self.rotation_matrix": RM}, {})
    r = res[False]
    rr = sp.sqrt(x ** 2 + y ** 2) * sp.pi / 180
    theta = sp.Piecewise((sp.atan(1 / rr), rr > 0), (sp.pi / 2, True))
    phi = sp.atan2(x, -y)
    ok = isinstance(r, tuple) and len(r) == 2
    # a result that holds the trace of a value or test the evaluator could not see into says nothing about the code: no verdict
    unk = lambda t_: None if _unknown(t_) else False
    if not ok:
        chk.ob("R10.5", "image2sph::returns-pair", False if isinstance(r, (tuple, list, sp.Basic)) else None, fi.where(), "got %r" % (r,))
    else:
        want1 = sp.Function("_rotate_1")(phi, theta, _mat(_tr(RM)))
        want0 = sp.Function("_rotate_0")(phi, theta, _mat(_tr(RM)))
        got0 = _peel_default(r[0]) if isinstance(r[0], sp.Basic) else r[0]
        okf = getattr(got0, "func", None) is not None and got0.func.__name__ == "_rotate_0" and len(got0.args) == 3
        call = None
        if not okf:
            # the longitude is not `rotated longitude, folded by case distinctions`: look at the call of the rotation itself
            call, r2, err = _rotation_run(repo, fi, False)
            if call is not None and call[0] == "Rotate":
                call = None          # the arguments of _rotate are what the rules below are about
        if call is not None and len(call[1]) == 3 and all(symx._is_expr(a_) for a_ in call[1][:2]) and symx._is_matrix(call[1][2]):
            a_lon, a_lat, a_mat = call[1]
            chk.ob("R10.5", "image2sph::rotation-is-applied-in-reverse", symx._opaque_arg(a_mat) == _mat(_tr(RM)), fi.where(),
                   "native -> celestial uses the transposed (reverse) rotation matrix")
            eq, d = symx.equal(a_lon, phi)
            chk.ob("R10.5", "image2sph::native-longitude", eq or unk(symx._as_expr(a_lon)), fi.where(), "phi = atan2(x, -y), converted to degrees and back to radians exactly once%s" % ("" if eq else " (differs by %s)" % str(d)[:160]))
            eq = a_lat == theta or symx.equal(a_lat, theta)[0]
            chk.ob("R10.5", "image2sph::native-latitude", eq or unk(symx._as_expr(a_lat)), fi.where(),
                   "theta = atan(180/(pi R)) for R > 0 and exactly 90 deg at the reference point (R = 0)%s" % ("" if eq else " (got %s)" % str(a_lat)[:200]))
            eq = isinstance(r2, tuple) and len(r2) == 2 and r2[1] == BROT
            chk.ob("R10.5", "image2sph::latitude-from-rotation", eq or unk(r2[1] if isinstance(r2, tuple) and len(r2) == 2 else None), fi.where(), "latitude is the rotated latitude, unchanged")
            okf = None
        else:
            chk.ob("R10.5", "image2sph::rotation-is-applied-in-reverse", (okf and got0.args[2] == _mat(_tr(RM))) or unk(r[0]), fi.where(),
                   "native -> celestial uses the transposed (reverse) rotation matrix")
        if okf:
            eq, d = symx.equal(got0.args[0], phi)
            chk.ob("R10.5", "image2sph::native-longitude", eq or unk(got0.args[0]), fi.where(), "phi = atan2(x, -y), converted to degrees and back to radians exactly once%s" % ("" if eq else " (differs by %s)" % str(d)[:160]))
            eq = got0.args[1] == theta or symx.equal(got0.args[1], theta)[0]
            chk.ob("R10.5", "image2sph::native-latitude", eq or unk(got0.args[1]), fi.where(),
                   "theta = atan(180/(pi R)) for R > 0 and exactly 90 deg at the reference point (R = 0)%s" % ("" if eq else " (got %s)" % str(got0.args[1])[:200]))
        if okf is not None:
            eq = isinstance(r[1], sp.Basic) and (r[1] == want1 or symx.equal(r[1], want1)[0])
            chk.ob("R10.5", "image2sph::latitude-from-rotation", eq or unk(r[1]), fi.where(), "latitude is the rotated latitude, unchanged")
    if ok and isinstance(res[True], tuple) and len(res[True]) == 2 and (_unknown(res[True]) or _unknown(res[False])):
        eq = None
    else:
        eq = all(_arms_equal(a, b) for a, b in zip(res[True], res[False])) if ok and isinstance(res[True], tuple) else False
        if not eq and ok and isinstance(res[True], tuple) and len(res[True]) == 2:
            # the two arms spell the fold differently (if tests / masked stores / arithmetic with the mask): the result is
            # fold(rotation(arguments)), so the arms agree when the arguments, the use of the rotated latitude and the two folds as functions
            # of the rotated longitude agree
            runs = {sc: _rotation_run(repo, fi, sc, sym360=True) for sc in (True, False)}
            if all(c_ is not None and isinstance(r_, tuple) and len(r_) == 2 and all(isinstance(t_, sp.Basic) for t_ in r_) for c_, r_, _ in runs.values()):
                (ca, ra, _), (cb, rb, _) = runs[True], runs[False]
                args_same = ca[0] == cb[0] and len(ca[1]) == len(cb[1]) and all(
                    (symx._is_matrix(u) and symx._is_matrix(v) and symx._opaque_arg(u) == symx._opaque_arg(v)) or
                    (symx._is_expr(u) and symx._is_expr(v) and _arms_equal(symx._as_expr(u), symx._as_expr(v))) for u, v in zip(ca[1], cb[1]))
                if _unknown(ra) or _unknown(rb):
                    eq = None
                elif args_same:
                    sames = [_same_fold(u, v) for u, v in zip(ra, rb)]
                    eq = True if all(v is True for v in sames) else (False if any(v is False for v in sames) else None)
    chk.ob("R10.7", "image2sph::scalar-and-array-arms-agree", eq, fi.where(), "the scalar arm and the array arm denote the same terms")
    _fold(chk, repo, fi)
    # projection
    fi = repo.func(W + "sph2image")
    res = {}
    for scalar in (True, False):
        se = _mkse(repo, ("_rotate",), opaque_tests=scalar)
        res[scalar] = se.run(fi, {"longitude": lon, "latitude": lat, "self.rotation_matrix": RM}, {})
    r = res[False]
    d2r = sp.pi / 180
    a0 = (lon * d2r, lat * d2r, _mat(RM))
    ph, th = sp.Function("_rotate_0")(*a0) * d2r, sp.Function("_rotate_1")(*a0) * d2r
    Rth = (180 / sp.pi) / sp.tan(th)
    wantx = sp.Piecewise((Rth * sp.sin(ph), th > 0), (0, True))
    wanty = sp.Piecewise((-Rth * sp.cos(ph), th > 0), (0, True))
    ok = isinstance(r, tuple) and len(r) == 2
    if ok:
        for nm, got, want in (("x", r[0], wantx), ("y", r[1], wanty)):
            if _unknown(got):
                chk.ob("R10.5", "sph2image::%s" % nm, None, fi.where(), "the result depends on a test or value the evaluator cannot see into: %s" % str(got)[:160])
                continue
            eq = _arms_equal(got, want)
            if not eq and isinstance(got, sp.Piecewise) and len(got.args) == 2:
                eq = symx.equal(got.args[0][0], want.args[0][0])[0] and got.args[1][0] == 0 and \
                    symx.equal(got.args[0][1].lhs - got.args[0][1].rhs, th)[0] and isinstance(got.args[0][1], sp.StrictGreaterThan)
            chk.ob("R10.5", "sph2image::%s" % nm, bool(eq), fi.where(),
                   "%s = %s R_theta %s phi with R_theta = (180/pi)/tan(theta) for theta > 0, forward rotation (matrix not transposed), radians taken once%s"
                   % (nm, "" if nm == "x" else "-", "sin" if nm == "x" else "cos", "" if eq else " (got %s)" % str(got)[:200]))
    else:
        chk.ob("R10.5", "sph2image::returns-pair", False if isinstance(r, (tuple, list, sp.Basic)) else None, fi.where(), "got %r" % (r,))
    if ok and isinstance(res[True], tuple) and len(res[True]) == 2 and (_unknown(res[True]) or _unknown(res[False])):
        eq = None
    else:
        eq = all(_arms_equal(a, b) for a, b in zip(res[True], res[False])) if ok and isinstance(res[True], tuple) else False
    chk.ob("R10.7", "sph2image::scalar-and-array-arms-agree", eq, fi.where(), "the scalar arm and the array arm denote the same terms")


# -- the longitude fold into [0,360) as a function of the rotated longitude ----------------------------------------------------
C360 = sp.Symbol("C360", positive=True)          # the literal 360 of the analysed code: kept symbolic so that `L + 360 >= 360` is not rewritten to `L >= 0`
LROT, BROT = sp.Symbol("LROT", real=True), sp.Symbol("BROT", real=True)          # what the spherical rotation returns


class _NoVerdict(Exception):
    pass


def _unknown(t):
    """the term is not a term, or holds the trace of something the evaluator could not see into"""
    if isinstance(t, (tuple, list)):
        return any(_unknown(x) for x in t)
    if not isinstance(t, sp.Basic):
        return True
    return any(str(s_).startswith(("OPAQUE_", "B_")) for s_ in t.free_symbols)


def _rat(e):
    if isinstance(e, sp.Float):
        return sp.Rational(repr(float(e)))
    return sp.Rational(e)


class _FoldEval:
    """evaluation of a case-distinction term in L (and the period C360) at a point a + b*eps of the extended number line: eps is a
    positive infinitesimal, so p - eps / p + eps are the floating-point neighbours of p.  With `rounding` an addition that moves such
    a number away from its `a` (e.g. -eps + 360) may absorb the eps part (the nearest double of 360 - 1e-20 is 360.0) or keep it
    (360 - 6e-14 is a double): both outcomes are followed, the same one wherever the same numbers are added.  Cancellation to a = 0 is exact."""

    def __init__(self, lval, choose=None):
        self.lval = lval
        self.choose = choose

    def num(self, e):
        if e == LROT:
            return self.lval
        if e == C360:
            return (sp.Integer(360), sp.Integer(0))
        if isinstance(e, sp.Number) and e.is_finite:
            return (_rat(e), sp.Integer(0))
        if isinstance(e, sp.Piecewise):
            for v, c in e.args:
                if self.cond(c):
                    return self.num(v)
            raise _NoVerdict("no arm of %s applies" % str(e)[:80])
        if e.func == SUMMED:
            return self.num(e.args[0])
        if isinstance(e, sp.Add):
            vals = [self.num(x) for x in e.args]
            a = sum((v[0] for v in vals), sp.Integer(0))
            b = sum((v[1] for v in vals), sp.Integer(0))
            carried = [v for v in vals if v[1] != 0]
            if self.choose is not None and b != 0 and a != 0 and any(v[0] != a for v in carried):
                # the same operands give the same rounded sum wherever they are added (sympy moves comparisons into case distinctions)
                if self.choose(tuple(sorted((v for v in vals if v != (0, 0)), key=str))):
                    b = sp.Integer(0)
            return (a, b)
        if isinstance(e, sp.Mul):
            vals = [self.num(x) for x in e.args]
            if sum(1 for v in vals if v[1] != 0) > 1:
                raise _NoVerdict("product of two inexact factors")
            a = sp.Integer(1)
            for v in vals:
                a *= v[0]
            b = sp.Integer(0)
            for i, v in enumerate(vals):
                if v[1] != 0:
                    b = v[1]
                    for j, u in enumerate(vals):
                        if j != i:
                            b *= u[0]
            return (a, b)
        raise _NoVerdict("term %s" % str(e)[:80])

    def cond(self, c):
        if c is sp.true or c == sp.true:
            return True
        if c is sp.false or c == sp.false:
            return False
        if isinstance(c, sp.And):
            return all(self.cond(x) for x in c.args)
        if isinstance(c, sp.Or):
            return any(self.cond(x) for x in c.args)
        if isinstance(c, sp.Not):
            return not self.cond(c.args[0])
        if isinstance(c, sp.ITE):
            return self.cond(c.args[1]) if self.cond(c.args[0]) else self.cond(c.args[2])
        if isinstance(c, sp.core.relational.Relational):
            x, y = self.num(c.lhs), self.num(c.rhs)
            d = (x[0] - y[0], x[1] - y[1])
            sgn = 1 if (d[0] > 0 or (d[0] == 0 and d[1] > 0)) else (-1 if (d[0] < 0 or (d[0] == 0 and d[1] < 0)) else 0)
            if isinstance(c, sp.StrictLessThan):
                return sgn < 0
            if isinstance(c, sp.LessThan):
                return sgn <= 0
            if isinstance(c, sp.StrictGreaterThan):
                return sgn > 0
            if isinstance(c, sp.GreaterThan):
                return sgn >= 0
            if isinstance(c, sp.Eq):
                return sgn == 0
            if isinstance(c, sp.Ne):
                return sgn != 0
        raise _NoVerdict("condition %s" % str(c)[:80])

    def resolve(self, e):
        """the term with every case distinction replaced by the arm that applies at this point"""
        if isinstance(e, sp.Piecewise):
            for v, c in e.args:
                if self.cond(c):
                    return self.resolve(v)
            raise _NoVerdict("no arm of %s applies" % str(e)[:80])
        if isinstance(e, (sp.Add, sp.Mul)):
            return e.func(*[self.resolve(x) for x in e.args])
        if e in (LROT, C360) or isinstance(e, sp.Number):
            return e
        raise _NoVerdict("term %s" % str(e)[:80])


def _alternatives(e, limit=64):
    """the case-free terms a term may stand for (every arm of every case distinction)"""
    if isinstance(e, sp.Piecewise):
        out = []
        for v, _ in e.args:
            out += _alternatives(v, limit)
    elif isinstance(e, (sp.Add, sp.Mul)):
        out = [[]]
        for x in e.args:
            out = [o + [y] for o in out for y in _alternatives(x, limit)]
            if len(out) > limit:
                raise _NoVerdict("too many cases")
        out = [e.func(*o) for o in out]
    else:
        out = [e]
    if len(out) > limit:
        raise _NoVerdict("too many cases")
    return out


def _fold_breakpoints(T):
    """every value of L at which a comparison of the term may change its outcome"""
    pts = set()
    for rel in T.atoms(sp.core.relational.Relational):
        for alt in _alternatives((rel.lhs - rel.rhs).subs(C360, 360)):
            alt = sp.expand(alt)
            if alt.free_symbols - {LROT}:
                raise _NoVerdict("comparison `%s` is not about the rotated longitude" % str(rel)[:80])
            try:
                po = sp.Poly(alt, LROT)
            except sp.PolynomialError:
                raise _NoVerdict("comparison `%s` is not linear" % str(rel)[:80])
            if po.degree() > 1:
                raise _NoVerdict("comparison `%s` is not linear" % str(rel)[:80])
            if po.degree() == 1:
                c1, c0 = po.all_coeffs()
                pts.add(_rat(-c0 / c1))
    return pts


def _fold_outcomes(T, lval, limit=256):
    """all values the term may take at lval under the rounding model"""
    out = []
    stack = [[]]
    while stack:
        script = stack.pop()
        memo, used = {}, []

        def choose(key):
            if key not in memo:
                bit = script[len(used)] if len(used) < len(script) else 0
                used.append(bit)
                memo[key] = bit
            return memo[key]
        out.append(_FoldEval(lval, choose).num(T))
        for i in range(len(script), len(used)):
            stack.append(used[:i] + [1])
        if len(out) > limit:
            raise _NoVerdict("too many rounding cases")
    return out


def _unsummed(t):
    return t.replace(lambda x: x.func == SUMMED, lambda x: x.args[0])


def _fold_analyse(T, lo=-180, hi=180):
    """decides, for every L in [lo, hi] and its two floating-point neighbours, whether T(L) is L + 360 k and lies in [0,360).
    Case partition at the term's own comparison points: between two neighbouring points every comparison has one outcome, the term is
    one case-free expression there, and the two facts are decided for that expression symbolically.
    Returns {aspect: (ok, message)} with ok None when the term is outside the fragment this analysis understands."""
    res = {}
    try:
        TR, T = T, _unsummed(T)          # the order of additions matters for rounding only
        if T.free_symbols - {LROT, C360} or T.atoms(sp.core.function.AppliedUndef):
            raise _NoVerdict("the longitude is not a case distinction over the rotated longitude alone: %s" % str(T)[:120])
        lo, hi = sp.Integer(lo), sp.Integer(hi)
        pts = sorted({p for p in _fold_breakpoints(T) if lo < p < hi} | {lo, hi})
        bad_c, bad_r = [], []
        # exact arithmetic: the points and the open intervals between them
        for p in pts:
            v = _FoldEval((p, sp.Integer(0))).num(T)
            k = (v[0] - p) / 360
            if not k.is_integer:
                bad_c.append("L = %s gives %s" % (p, v[0]))
            elif not (0 <= v[0] < 360):
                bad_r.append("L = %s gives %s" % (p, v[0]))
        for p, q in zip(pts, pts[1:]):
            es = [_FoldEval((p + (q - p) * f, sp.Integer(0))).resolve(T) for f in (sp.Rational(1, 3), sp.Rational(2, 3))]
            es = [sp.expand(e.subs(C360, 360)) for e in es]
            if es[0] != es[1]:
                raise _NoVerdict("the case partition missed a comparison point in (%s, %s)" % (p, q))
            k = sp.expand(es[0] - LROT)
            if not k.is_number or not (k / 360).is_integer:
                bad_c.append("%s < L < %s gives %s" % (p, q, es[0]))
            elif not (p + k >= 0 and q + k <= 360):
                bad_r.append("%s < L < %s gives L %+d" % (p, q, int(k)))
        res["congruent"] = (not bad_c, "; ".join(bad_c[:3]))
        res["range"] = (None if bad_c and not bad_r else not bad_r, "; ".join(bad_r[:3]))
        # the floating-point neighbours of the points
        numeric_period = any(isinstance(x, sp.Number) and x != 0 and any(y.has(LROT) for y in e.args) for e in T.atoms(sp.Add) for x in e.args)
        bad_f = []
        T = TR
        if any(len(e.args) > 2 for e in T.atoms(sp.Add)):
            # x += 360 * (x < 0); x -= 360 * (x >= 360) becomes one sum of three terms: which addition rounds first is no longer visible
            raise _NoVerdict("the term is a sum of more than two terms, the order of the additions (and so their rounding) is not visible in it")
        for p in pts:
            for sgn in (-1, 1):
                for v in _fold_outcomes(T, (p, sp.Integer(sgn))):
                    k = (v[0] - p) / 360
                    inr = (v[0] > 0 or (v[0] == 0 and v[1] >= 0)) and (v[0] < 360 or (v[0] == 360 and v[1] < 0))
                    if not k.is_integer or not inr:
                        bad_f.append("L = %s %s eps may give %s%s" % (p, "+" if sgn > 0 else "-", v[0], "" if v[1] == 0 else (" + eps" if v[1] > 0 else " - eps")))
        if bad_f and numeric_period and not (bad_c or bad_r):
            res["rounding"] = (None, "the period is not spelled as the literal 360 next to the longitude: rounding cannot be followed (%s)" % bad_f[0])
        else:
            res["rounding"] = (not bad_f, "; ".join(sorted(set(bad_f))[:3]))
    except _NoVerdict as e:
        for k in ("congruent", "range", "rounding"):
            res.setdefault(k, (None, str(e)))
    return res


def _same_fold(ta, tb):
    """two case-distinction terms in L denote the same function of L on the whole real line (exact arithmetic): decided on the common
    case partition, point by point and interval by interval (symbolically there).  True / False / None (outside the fragment)."""
    if ta == tb:
        return True
    try:
        ta, tb = _unsummed(ta), _unsummed(tb)
        for t in (ta, tb):
            if t.free_symbols - {LROT, C360} or t.atoms(sp.core.function.AppliedUndef):
                return None
        pts = sorted(_fold_breakpoints(ta) | _fold_breakpoints(tb))
        if not pts:
            pts = [sp.Integer(0)]
        for p in pts:
            if _FoldEval((p, sp.Integer(0))).num(ta) != _FoldEval((p, sp.Integer(0))).num(tb):
                return False
        reps = [pts[0] - 1] + [(p + q) / 2 for p, q in zip(pts, pts[1:])] + [pts[-1] + 1]
        for m in reps:
            ea, eb = (sp.expand(_FoldEval((m, sp.Integer(0))).resolve(t).subs(C360, 360)) for t in (ta, tb))
            if ea != eb:
                return False
        return True
    except _NoVerdict:
        return None


def _rotation_run(repo, fi, scalar, sym360=False):
    """image2sph evaluated with the spherical rotation replaced by its summary (it returns the pair LROT, BROT and its arguments are
    recorded): (arguments of the call in the callee's parameter order, result, error text)"""
    x, y = symx.symbols("x", "y")
    for helper in ("_rotate", "Rotate"):
        if not repo.has(W + helper):
            continue
        se = _mkse(repo, (), opaque_tests=scalar)
        if sym360:
            se.sym360 = C360
        se.input_kind = "scalar" if scalar else "array"
        se.coord_inputs = {x, y}
        se.summaries = {repo.func(W + helper).qualname: lambda bound: (LROT, BROT)}
        try:
            r = se.run(fi, {"x": x, "y": y, "self.rotation_matrix": RM}, {})
        except symx.Unsupported as e:
            return None, None, str(e)
        if not se.calls:
            continue
        if len(se.calls) != 1 or not se.calls[0][2]:
            return None, None, "the spherical rotation is called %d times or under a condition" % len(se.calls)
        return (helper, list(se.calls[0][1].values())), r, ""
    return None, None, "image2sph does not call the spherical rotation"


def _fold_term(repo, fi, scalar):
    """the longitude image2sph returns as a term in the longitude the spherical rotation returns (LROT); (term, error text)"""
    call, r, err = _rotation_run(repo, fi, scalar, sym360=True)
    if call is None:
        return None, err
    if not (isinstance(r, tuple) and len(r) == 2 and isinstance(r[0], sp.Basic)):
        return None, "image2sph returns %s" % str(r)[:80]
    if _unknown(r[0]):
        return None, "the longitude depends on a test or value the evaluator cannot see into: %s" % str(r[0])[:120]
    return r[0], ""


def _fold(chk, repo, fi):
    """longitude fold into [0,360).  The spherical rotation returns L = atan2(..) in degrees (rule _rotate::longitude), i.e. [-180, 180]
    up to one rounding; what image2sph returns for it, as a term T(L) evaluated by the term evaluator (whatever the spelling: if tests,
    numpy.where index arrays, nonzero / flatnonzero, boolean masks, three-argument numpy.where, a helper), must be L + 360 k, lie in
    [0,360), and stay there when L + 360 rounds: -1e-20 + 360 is 360.0, so the upper wrap must test >= 360 and run after the lower one."""
    for scalar in (True, False):
        tag = "image2sph::longitude-fold[%s]" % ("scalar" if scalar else "array")
        T, err = _fold_term(repo, fi, scalar)
        if T is None:
            chk.ob("R10.5", tag, None, fi.where(), "the fold of the longitude into [0,360) is not evaluable in the term domain (%s)" % err)
            continue
        res = _fold_analyse(T)
        for key, what in (("congruent", "the returned longitude is the rotated longitude plus a multiple of 360"),
                          ("range", "the returned longitude lies in [0,360) for every rotated longitude in [-180, 180]"),
                          ("rounding", "[0,360) is open at the top: a tiny negative longitude plus 360 rounds to 360.0 and must still be wrapped "
                                       "(upper wrap tests >= 360 and runs after the lower wrap)")):
            ok, why = res[key]
            chk.ob("R10.5", "%s::%s" % (tag, key), ok, fi.where(), what + (" -- " + why if why else ""))


# ---------------------------------------------------------------------------
# R10.5c spherical rotation, rotation matrix, pole
# ---------------------------------------------------------------------------
def _trig_zero(e):
    e = sp.expand(sp.expand_trig(sp.expand(e)))
    if e == 0:
        return True
    # polynomial identity in sin/cos of the base symbols, modulo sin^2 + cos^2 = 1
    return sp.simplify(e) == 0


def rotation(chk, repo):
    se = _SE(repo, inline_depth=6)
    lo, la = symx.symbols("lo", "la")
    fi = repo.func(W + "_rotate")
    r = se.run(fi, {"longitude": lo, "latitude": la, "r": RM}, {})
    v = (sp.cos(la) * sp.cos(lo), sp.cos(la) * sp.sin(lo), sp.sin(la))
    b = [sum(RM[j][k] * v[j] for j in range(3)) for k in range(3)]     # b = r^T v (as documented in the code: r[j,k] v_j)
    ok = isinstance(r, tuple) and len(r) == 2
    if ok:
        eq, d = symx.equal(r[0], sp.atan2(b[1], b[0]) * 180 / sp.pi)
        chk.ob("R10.5", "_rotate::longitude", eq, fi.where(), "lon' = atan2(b1, b0) in degrees with b = r^T (cos lat cos lon, cos lat sin lon, sin lat)")
        k, rest = r[1].as_independent(lo, la, *[e for row in RM for e in row], as_Add=False)
        okk = sp.simplify(k - 180 / sp.pi) == 0
        CL = sp.Function("CLIP")
        if okk and isinstance(rest, sp.asin):
            chk.ob("R10.5", "_rotate::latitude", False, fi.where(),
                   "lat' must not be asin(b2): d(asin x)/dx = 1/cos(lat'), so the rounding of b2 (1.1e-16) grows without bound towards lat' = 90 -- and the native "
                   "latitude of every pixel near CRPIX is close to 90, as is the celestial latitude for reference points near a pole (both in the property's "
                   "quantifier, 1e-9 degree / 1e-6 pixel); the atan2(b2, hypot(b0, b1)) form is accurate everywhere")
        elif okk and isinstance(rest, sp.atan2):
            a, h = rest.args
            inner = a.args[0] if isinstance(a, CL) else a
            good = symx.equal(inner, b[2])[0] and symx.equal(h ** 2, b[0] ** 2 + b[1] ** 2)[0] and (not isinstance(a, CL) or a.args[1:] == (-1, 1))
            chk.ob("R10.5", "_rotate::latitude", bool(good), fi.where(), "lat' = atan2(b2, sqrt(b0^2 + b1^2)) in degrees")
        else:
            chk.ob("R10.5", "_rotate::latitude", False, fi.where(), "unrecognised latitude form %s" % str(r[1])[:160])
    else:
        chk.ob("R10.5", "_rotate::returns-pair", False, fi.where(), "got %r" % (r,))
    # Rotate: degrees -> radians once, reverse => transpose
    fi = repo.func(W + "Rotate")
    for rev in (False, True):
        se2 = _mkse(repo, ("_rotate",))
        r = se2.run(fi, {"lon": lo, "lat": la, "self.rotation_matrix": RM}, {"reverse": rev})
        want = sp.Function("_rotate")(lo * sp.pi / 180, la * sp.pi / 180, _mat(_tr(RM) if rev else RM))
        chk.ob("R10.5", "Rotate[reverse=%s]" % rev, r == want, fi.where(),
               "inputs converted from degrees to radians; the matrix is %s (got %s)" % ("transposed" if rev else "used as is", str(r)[:160]))
    # rotation matrix against Calabretta & Greisen (2002) eq. 2: celestial unit vector of the native point (phi, theta)
    fi = repo.func(W + "CreateRotationMatrix")
    ap, dp, pp = symx.symbols("alphap", "deltap", "phip")
    se = _SE(repo, inline_depth=6)
    R = se.run(fi, {"self.longpole": pp * 180 / sp.pi, "self.native_longpole": ap, "self.native_latpole": dp}, {})
    ok = symx._is_matrix(R) and len(R) == 3 and len(R[0]) == 3
    if not ok:
        chk.ob("R10.5", "CreateRotationMatrix::is-3x3", False, fi.where(), "got %r" % (R,))
    else:
        ph, th = symx.symbols("phi", "theta")
        nat = (sp.cos(th) * sp.cos(ph), sp.cos(th) * sp.sin(ph), sp.sin(th))
        C = sp.sin(th) * sp.cos(dp) - sp.cos(th) * sp.sin(dp) * sp.cos(ph - pp)       # cos(delta) cos(alpha - alpha_p)
        S = -sp.cos(th) * sp.sin(ph - pp)                                              # cos(delta) sin(alpha - alpha_p)
        Z = sp.sin(th) * sp.sin(dp) + sp.cos(th) * sp.cos(dp) * sp.cos(ph - pp)        # sin(delta)
        cel = (sp.cos(ap) * C - sp.sin(ap) * S, sp.sin(ap) * C + sp.cos(ap) * S, Z)
        for k, nm in enumerate("xyz"):
            got = sum(R[k][j] * nat[j] for j in range(3))
            chk.ob("R10.5", "CreateRotationMatrix::row-%s" % nm, _trig_zero(got - cel[k]), fi.where(),
                   "R (native unit vector) = celestial unit vector of Calabretta & Greisen eq. 2, component %s" % nm)
        pole = tuple(R[k][2] for k in range(3))
        wantp = (sp.cos(ap) * sp.cos(dp), sp.sin(ap) * sp.cos(dp), sp.sin(dp))
        chk.ob("R10.5", "CreateRotationMatrix::native-pole-maps-to-reference-point", all(_trig_zero(a - b) for a, b in zip(pole, wantp)), fi.where(),
               "the native pole (theta = 90, the reference pixel of a TAN projection) maps to (alpha_p, delta_p) = CRVAL")
    # pole for theta0 = 90
    fi = repo.func(W + "GetPole")
    c1, c2 = symx.symbols("crval1", "crval2")
    r = se.run(fi, {"self.wcs": {"crval1": c1, "crval2": c2}, "self.theta0": sp.Integer(90), "self.longpole": sp.Integer(180), "self.latpole": sp.Integer(90)}, {})
    ok = isinstance(r, tuple) and len(r) == 2 and sp.simplify(r[0] - c1 * sp.pi / 180) == 0 and sp.simplify(r[1] - c2 * sp.pi / 180) == 0
    chk.ob("R10.5", "GetPole[theta0=90]", ok, fi.where(), "for zenithal projections the celestial pole of the native system is (CRVAL1, CRVAL2) in radians (got %s)" % (r,))
    fi = repo.func(W + "__init__")
    dflt = {k: const_value(v) for k, v in fi.defaults.items()}
    chk.ob("R10.5", "WCS.__init__::default-angles", dflt.get("longpole") == 180.0 and dflt.get("theta0") == 90.0 and dflt.get("latpole") == 90.0, fi.where(),
           "LONPOLE defaults to 180 and theta0 to 90 (zenithal projections) (found %s)" % dflt)


# ---------------------------------------------------------------------------
# R10.4 coefficient tables
# ---------------------------------------------------------------------------
def _tpv_terms(xi, eta):
    """TPV convention (Calabretta et al. 2004 draft / scamp): term of PVi_k for axis 1; axis 2 has xi and eta exchanged.
    k = 3 and k = 11 are the radial terms, which this library documents as unsupported (skipped)."""
    return {0: 1, 1: xi, 2: eta, 4: xi ** 2, 5: xi * eta, 6: eta ** 2, 7: xi ** 3, 8: xi ** 2 * eta, 9: xi * eta ** 2, 10: eta ** 3}


def coeffs(chk, repo):
    u, v = symx.symbols("u", "v")
    se = _SE(repo, inline_depth=6)
    se.assume["text:a[ix, iy] != 0.0"] = True
    fi = repo.func(W + "ExtractPVCoeffs")
    ap2d = _mf(repo, "Apply2DPolynomial")
    chk.analysed_unit(ap2d.qualname)
    for prefix, axis in (("pv1", 1), ("pv2", 2), ("pvi1", 1), ("pvi2", 2)):
        syms = {k: sp.Symbol("%s_%d" % (prefix, k)) for k in range(12)}
        wcs = {"%s_%d" % (prefix, k): s for k, s in syms.items()}
        r = se.run(fi, {"wcs": wcs, "prefix": prefix}, {})
        ok = isinstance(r, tuple) and len(r) == 3 and symx._is_matrix(r[0])
        if not ok:
            chk.ob("R10.4", "ExtractPVCoeffs[%s]::returns-matrix-count-order" % prefix, False, fi.where(), "got %s" % str(r)[:160])
            continue
        mat, count, order = r
        poly = se.run(ap2d, {"a": tuple(tuple(row) for row in mat), "x": u, "y": v}, {})
        terms = _tpv_terms(u, v) if axis == 1 else _tpv_terms(v, u)
        want = sum(syms[k] * t for k, t in terms.items())
        eq, d = symx.equal(poly, want)
        chk.ob("R10.4", "ExtractPVCoeffs[%s]::index-to-power-map" % prefix, eq, fi.where(),
               "header keys %s_k -> matrix -> polynomial equals the TPV series for axis %d (k = 0,1,2,4..10; radial terms 3 and 11 not used)%s"
               % (prefix, axis, "" if eq else " (difference %s)" % str(d)[:200]))
        chk.ob("R10.4", "ExtractPVCoeffs[%s]::count-and-order" % prefix, count == 10 and order == 3, fi.where(),
               "the number of coefficients found (%s) is what switches the distortion model on; order %s" % (count, order))
    # sparse header: only what is present is used
    wcs = {"pv2_1": sp.Symbol("p1"), "pv2_7": sp.Symbol("p7")}
    r = se.run(fi, {"wcs": wcs, "prefix": "pv2"}, {})
    poly = se.run(ap2d, {"a": tuple(tuple(row) for row in r[0]), "x": u, "y": v}, {})
    chk.ob("R10.4", "ExtractPVCoeffs[sparse]", symx.equal(poly, sp.Symbol("p1") * v + sp.Symbol("p7") * v ** 3)[0] and r[1] == 2, fi.where(),
           "missing keys contribute nothing and are not counted")
    # SIP
    fi = repo.func(W + "ExtractSIPCoeffs")
    for prefix in ("a", "b", "ap", "bp"):
        wcs = {prefix + "_order": sp.Integer(3)}
        syms = {(i, j): sp.Symbol("%s_%d_%d" % (prefix, i, j)) for i in range(4) for j in range(4) if i + j <= 3}
        wcs.update({"%s_%d_%d" % (prefix, i, j): s for (i, j), s in syms.items()})
        r = se.run(fi, {"wcs": wcs, "prefix": prefix}, {})
        ok = isinstance(r, tuple) and len(r) == 3 and symx._is_matrix(r[0])
        if not ok:
            chk.ob("R10.4", "ExtractSIPCoeffs[%s]::returns-matrix-count-order" % prefix, False, fi.where(), "got %s" % str(r)[:160])
            continue
        poly = se.run(ap2d, {"a": tuple(tuple(row) for row in r[0]), "x": u, "y": v}, {})
        want = sum(s * u ** i * v ** j for (i, j), s in syms.items())
        eq, d = symx.equal(poly, want)
        chk.ob("R10.4", "ExtractSIPCoeffs[%s]::A_p_q-multiplies-u^p-v^q" % prefix, eq and r[1] == len(syms) and r[2] == 3, fi.where(),
               "SIP keyword %s_p_q is the coefficient of u^p v^q; %d coefficients counted, order from %s_ORDER" % (prefix.upper(), len(syms), prefix.upper()))
    # model selection per projection
    fi = repo.func(W + "ExtractDistortionModel")
    want = {"-TAN": ("scamp", "pv1", "pv2", "pvi1", "pvi2"), "-TPV": ("scamp", "pv1", "pv2", "pvi1", "pvi2"), "-TAN-SIP": ("sip", "a", "b", "ap", "bp")}
    for proj, (name, pa, pb, pap, pbp) in want.items():
        wcs = {}
        for pre in (pa, pb, pap, pbp):
            if name == "scamp":
                wcs.update({"%s_%d" % (pre, k): sp.Symbol("%s_%d" % (pre, k)) for k in (0, 1, 2, 4, 5, 6, 7, 8, 9, 10)})
            else:
                wcs[pre + "_order"] = sp.Integer(2)
                wcs.update({"%s_%d_%d" % (pre, i, j): sp.Symbol("%s_%d_%d" % (pre, i, j)) for i in range(3) for j in range(3) if i + j == 2})
        se2 = _SE(repo, inline_depth=8)
        st = {"self.projection": proj, "self.wcs": wcs, "self.distort": {"name": "none"}, "self._inverse_computed": False}
        se2.run(fi, st, {})
        dist = se2.last_env.vars.get("self.distort")
        ok = isinstance(dist, dict) and dist.get("name") == name
        if ok:
            for key, pre in (("a", pa), ("b", pb), ("ap", pap), ("bp", pbp)):
                m = dist.get(key)
                names = {str(s) for row in m for e in row for s in sp.sympify(e).free_symbols} if symx._is_matrix(m) else set()
                ok = ok and bool(names) and all(n.startswith(pre + "_") for n in names)
        chk.ob("R10.4", "ExtractDistortionModel[%s]" % proj, bool(ok), fi.where(),
               "projection %s selects the %s model with forward coefficients from %s/%s and inverse from %s/%s" % (proj, name, pa, pb, pap, pbp))
        # no coefficients -> no model
        se3 = _SE(repo, inline_depth=8)
        st = {"self.projection": proj, "self.wcs": ({} if name == "scamp" else {"a_order": sp.Integer(2)}), "self.distort": {"name": "none"}, "self._inverse_computed": False}
        se3.run(fi, st, {})
        dist = se3.last_env.vars.get("self.distort")
        chk.ob("R10.4", "ExtractDistortionModel[%s,no-coefficients]" % proj, isinstance(dist, dict) and dist.get("name") == "none", fi.where(),
               "a header without forward coefficients leaves the model off")
    # polynomial evaluator itself
    A = M("a")
    poly = se.run(ap2d, {"a": A, "x": u, "y": v}, {})
    chk.ob("R10.4", "Apply2DPolynomial::sum-a_ij-x^i-y^j", symx.equal(poly, P(A, u, v))[0], ap2d.where(), "Apply2DPolynomial(a, x, y) = sum_ij a[i,j] x^i y^j (first index is the x power)")
    # sparse coefficient sets: the result may depend on the coefficients only through the sum, whatever rows or columns are entirely
    # zero (skips of zero rows / zero coefficients are optimisations).  All 2^4 patterns of zero rows and of zero columns.
    bad = []
    for axis in ("rows", "cols"):
        for mask in range(16):
            keep = [bool(mask >> k & 1) for k in range(N)]
            B = tuple(tuple((A[i][j] if (keep[i] if axis == "rows" else keep[j]) else sp.Integer(0)) for j in range(N)) for i in range(N))
            try:
                got = se.run(ap2d, {"a": B, "x": u, "y": v}, {})
                ok_ = symx.equal(got, P(B, u, v))[0]
            except symx.Unsupported:
                ok_ = None
            if ok_ is False:
                bad.append("%s kept=%s" % (axis, "".join("1" if k else "0" for k in keep)))
            elif ok_ is None:
                bad.append(None)
    chk.ob("R10.4", "Apply2DPolynomial::sparse-coefficient-sets", (None if (None in bad and not [b for b in bad if b]) else not [b for b in bad if b]), ap2d.where(),
           "for every pattern of all-zero rows or columns of the coefficient matrix the result is still sum_ij a[i,j] x^i y^j%s" % ("" if not [b for b in bad if b] else " -- wrong for: " + ", ".join([b for b in bad if b][:6])))
    # Distort: scamp replaces, sip adds
    fi = repo.func(W + "Distort")
    for model, inverse in itertools.product(("scamp", "sip"), (False, True)):
        st, _, _, _ = _state("-TPV" if model == "scamp" else "-TAN-SIP", model)
        r = se.run(fi, dict(st, x=u, y=v), {"inverse": inverse})
        a, b = (st["self.distort"]["ap"], st["self.distort"]["bp"]) if inverse else (st["self.distort"]["a"], st["self.distort"]["b"])
        base = (0, 0) if model == "scamp" else (u, v)
        ok = isinstance(r, tuple) and len(r) == 2 and symx.equal(r[0], base[0] + P(a, u, v))[0] and symx.equal(r[1], base[1] + P(b, u, v))[0]
        chk.ob("R10.4", "Distort[%s,inverse=%s]" % (model, inverse), bool(ok), fi.where(),
               "%s: result = %s with the %s coefficient pair in (x, y) order" % (model, "P(x, y)" if model == "scamp" else "(x, y) + P(x, y)", "inverse" if inverse else "forward"))
    # the two polynomials of a SIP model have independent orders (A_ORDER / B_ORDER and AP_ORDER / BP_ORDER are separate keywords and
    # ExtractSIPCoeffs sizes each matrix from its own): each polynomial is the full sum over its own coefficient matrix
    for inverse in (False, True):
        for ka, kb in ((N - 1, N), (N, N - 1)):
            st, _, _, _ = _state("-TAN-SIP", "sip")
            na, nb = ("ap", "bp") if inverse else ("a", "b")
            A_, B_ = M(na, ka), M(nb, kb)
            st["self.distort"].update({na: A_, nb: B_, na + "_order": sp.Integer(ka - 1), nb + "_order": sp.Integer(kb - 1)})
            key = "Distort[sip,inverse=%s,orders=%d/%d]" % (inverse, ka - 1, kb - 1)
            what = "the x polynomial is the sum over all of the %s matrix and the y polynomial the sum over all of the %s matrix when their orders differ (%d and %d)" % (na, nb, ka - 1, kb - 1)
            try:
                r = se.run(fi, dict(st, x=u, y=v), {"inverse": inverse})
            except IndexError as e:
                # most likely an element outside one of the two matrices is read (bounds taken from the other one), which the run with the
                # orders exchanged reports as lost coefficients; an IndexError of the evaluator itself cannot be told apart here: no verdict
                chk.ob("R10.4", key, None, fi.where(), what + " -- an index outside a sequence is read while evaluating (%s)" % e)
                continue
            except (symx.Unsupported, KeyError, TypeError, AttributeError) as e:
                chk.ob("R10.4", key, None, fi.where(), what + " -- not evaluable in the term domain: %s" % e)
                continue
            if not (isinstance(r, tuple) and len(r) == 2 and all(symx._is_expr(t) for t in r)):
                chk.ob("R10.4", key, None, fi.where(), what + " -- result is not a pair of terms (%s)" % str(r)[:120])
                continue
            bad = []
            for nm, got, base, mat in (("x", r[0], u, A_), ("y", r[1], v, B_)):
                eq, d = symx.equal(got, base + P(mat, u, v))
                if not eq:
                    lost = sorted(str(s_) for s_ in (set(e_ for row in mat for e_ in row) - symx._as_expr(got).free_symbols))
                    bad.append("%s result %s" % (nm, ("does not depend on coefficient(s) %s" % ", ".join(lost[:8])) if lost else ("differs by %s" % str(d)[:160])))
            chk.ob("R10.4", key, not bad, fi.where(), what + ("" if not bad else " -- " + "; ".join(bad)))


# ---------------------------------------------------------------------------
# constructor wiring
# ---------------------------------------------------------------------------
def wiring(chk, repo):
    fi = repo.func(W + "ExtractFromWCS")
    keys = ["crpix1", "crpix2", "crval1", "crval2", "cd1_1", "cd1_2", "cd2_1", "cd2_2"]
    hs = {k: sp.Symbol(k) for k in keys}
    wcs = dict(hs, ctype1="RA---TAN", ctype2="DEC--TAN", cunit1="deg")
    se = _SE(repo, inline_depth=8)
    st = {"self.wcs": wcs, "self.longpole": sp.Integer(180), "self.latpole": sp.Integer(90), "self.theta0": sp.Integer(90),
          "self.distort": {"name": "none"}, "self._inverse_computed": False}
    se.run(fi, st, {})
    V = se.last_env.vars
    chk.ob("R10.6", "ExtractFromWCS::crpix", tuple(V.get("self.crpix", ())) == (hs["crpix1"], hs["crpix2"]), fi.where(), "reference pixel = (CRPIX1, CRPIX2)")
    cd = V.get("self.cd")
    okcd = symx._is_matrix(cd) and [list(r) for r in cd] == [[hs["cd1_1"], hs["cd1_2"]], [hs["cd2_1"], hs["cd2_2"]]]
    chk.ob("R10.6", "ExtractFromWCS::cd-matrix", bool(okcd), fi.where(), "cd[i][j] = CD(i+1)_(j+1)")
    ci = V.get("self.cdinv")
    okci = False
    if okcd and symx._is_matrix(ci):
        prod = sp.Matrix([[sp.sympify(e) for e in r] for r in cd]) * sp.Matrix([[sp.sympify(e) for e in r] for r in ci])
        okci = sp.simplify(prod - sp.eye(2)) == sp.zeros(2, 2)
    chk.ob("R10.6", "ExtractFromWCS::cd-inverse", bool(okci), fi.where(), "cdinv is the matrix inverse of the same cd")
    chk.ob("R10.6", "ExtractFromWCS::projection", V.get("self.projection") == "-TAN", fi.where(), "projection code = CTYPE1[4:]")
    pole = (V.get("self.native_longpole"), V.get("self.native_latpole"))
    okp = all(symx._is_expr(p) for p in pole) and sp.simplify(pole[0] - hs["crval1"] * sp.pi / 180) == 0 and sp.simplify(pole[1] - hs["crval2"] * sp.pi / 180) == 0
    chk.ob("R10.6", "ExtractFromWCS::pole-from-crval", bool(okp), fi.where(), "the pole handed to the rotation matrix is (CRVAL1, CRVAL2) in radians")
    R = V.get("self.rotation_matrix")
    okr = symx._is_matrix(R) and len(R) == 3 and all(_trig_zero(sp.sympify(a) - b) for a, b in zip(
        (R[0][2], R[1][2], R[2][2]), (sp.cos(pole[0]) * sp.cos(pole[1]), sp.sin(pole[0]) * sp.cos(pole[1]), sp.sin(pole[1])))) if okp else False
    chk.ob("R10.6", "ExtractFromWCS::rotation-matrix-built-after-pole", bool(okr), fi.where(), "the rotation matrix is built from that pole (its third column is the CRVAL unit vector)")
    # header-supplied LONPOLE is honoured
    fi2 = repo.func(W + "SetAngles")
    se2 = _SE(repo)
    lp = sp.Symbol("hdr_longpole")
    se2.run(fi2, {"self.wcs": {"longpole": lp}, "longpole": sp.Integer(180), "latpole": sp.Integer(90), "theta0": sp.Integer(90)}, {})
    V2 = se2.last_env.vars
    chk.ob("R10.6", "SetAngles::header-overrides-default", V2.get("self.longpole") == lp and V2.get("self.theta0") == 90 and V2.get("self.latpole") == 90, fi2.where(),
           "LONPOLE/LATPOLE/THETA0 come from the header when present, else from the constructor defaults")
    # constructor order
    init = repo.func(W + "__init__")
    calls = [norm(c.func) for c in walk_no_nested(init.node) if isinstance(c, ast.Call) and dotted_name(c.func) and dotted_name(c.func).startswith("self.")]
    order_ok = calls.index("self.ConvertWCS") < calls.index("self.SetAngles") < calls.index("self.ExtractFromWCS") if all(
        c in calls for c in ("self.ConvertWCS", "self.SetAngles", "self.ExtractFromWCS")) else False
    chk.ob("R10.6", "WCS.__init__::order", order_ok, init.where(), "header converted, then angles, then derived state (pole and rotation matrix need the angles)")


# ---------------------------------------------------------------------------
# R10.3 object-state discipline (history independence)
# ---------------------------------------------------------------------------
ENTRIES = ("image2sky", "sky2image", "get_jacobian")
MUTATORS = {"append", "extend", "update", "pop", "clear", "setdefault", "insert", "remove", "sort", "fill", "resize", "popitem", "put"}


def _methods(repo):
    return {fi.name: fi for q, fi in repo.funcs.items() if fi.cls == "WCS" and fi.module.name == MOD}


def _self_refs(fi, methods):
    """(method name, ast node) for every self.<method> call or reference (e.g. passed to a solver)"""
    out = []
    for x in walk_no_nested(fi.node):
        if isinstance(x, ast.Attribute) and isinstance(x.value, ast.Name) and x.value.id == "self" and x.attr in methods:
            out.append((x.attr, x))
    return out


def _attr_root(t):
    """self attribute name a store target is rooted at, following subscripts: self.a[...][...] -> a"""
    while isinstance(t, ast.Subscript):
        t = t.value
    if isinstance(t, ast.Attribute) and isinstance(t.value, ast.Name) and t.value.id == "self":
        return t.attr
    return None


def _subkey(t):
    if isinstance(t, ast.Subscript):
        return norm(t.slice)
    return None


def _state_writes(fi):
    """[(cfg node, attr, subkey or None)] for stores into self state, including through local aliases `x = self.attr`"""
    cfg = cfg_of(fi)
    alias = {}
    for x in walk_no_nested(fi.node):
        if isinstance(x, ast.Assign) and len(x.targets) == 1 and isinstance(x.targets[0], ast.Name):
            a = _attr_root(x.value) if isinstance(x.value, (ast.Attribute, ast.Subscript)) else None
            if a is not None and isinstance(x.value, ast.Attribute):
                alias[x.targets[0].id] = a
    out = []
    for n in cfg.nodes:
        a = n.ast
        if n.kind != "stmt":
            continue
        tgts = []
        if isinstance(a, ast.Assign):
            for t in a.targets:
                tgts += list(rules._flat_targets(t))
        elif isinstance(a, (ast.AugAssign, ast.AnnAssign)):
            tgts = [a.target]
        for t in tgts:
            r = _attr_root(t)
            if r is not None:
                out.append((n, r, _subkey(t)))
            elif isinstance(t, ast.Subscript):
                b = t
                while isinstance(b, ast.Subscript):
                    b = b.value
                if isinstance(b, ast.Name) and b.id in alias:
                    out.append((n, alias[b.id], _subkey(t)))
        for c in rules.stmts_calls(n):
            if isinstance(c.func, ast.Attribute) and c.func.attr in MUTATORS:
                r = _attr_root(c.func.value)
                if r is not None:
                    out.append((n, r, "." + c.func.attr))
    return out, alias


def _flag_guard(view, n):
    """(flag attr, branch node) if node n runs only while a computed-flag is still false: controlled by a test containing
    `not self.<flag>` taken true, or by a plain `self.<flag>` test taken false (the guard-clause form `if self.flag: return`)"""
    for b, lab in view.controlling_branches(n):
        if b.kind != "branch":
            continue
        t = b.ast.test
        if lab == "T":
            for x in ast.walk(t):
                if isinstance(x, ast.UnaryOp) and isinstance(x.op, ast.Not):
                    r = _attr_root(x.operand) if isinstance(x.operand, ast.Attribute) else None
                    if r is not None and not (isinstance(t, ast.BoolOp) and isinstance(t.op, ast.Or)):
                        return r, b
        if lab == "F" and isinstance(t, ast.Attribute):
            r = _attr_root(t)
            if r is not None:
                return r, b
    return None, None


def state(chk, repo):
    methods = _methods(repo)
    for e in ENTRIES:
        if e not in methods:
            raise AnalysisError("entry %s vanished" % e)
    # constructor-only methods
    import networkx as nx
    g = nx.DiGraph()
    guarded_edges = set()
    for name, fi in methods.items():
        g.add_node(name)
        cfg = cfg_of(fi)
        view = cfg.view()
        for callee, node in _self_refs(fi, methods):
            g.add_edge(name, callee)
            # is this reference inside a lazily-guarded region?
            holder = None
            for n in cfg.nodes:
                if n.ast is not None and n.kind in ("stmt", "return", "branch") and any(y is node for y in ast.walk(n.ast if n.kind != "branch" else n.ast.test)):
                    holder = n
                    break
            if holder is not None and _flag_guard(view, holder)[0] is not None:
                guarded_edges.add((name, callee))
    g.add_node("<entry>")
    for e in ENTRIES:
        g.add_edge("<entry>", e)
    reach_all = nx.descendants(g, "<entry>")
    g2 = g.copy()
    g2.remove_edges_from(guarded_edges)
    reach_plain = nx.descendants(g2, "<entry>")          # reachable without entering a lazily guarded call
    lazy_only = reach_all - reach_plain
    ctor_reach = nx.descendants(g, "__init__") | {"__init__"}
    chk.notes["state_call_graph"] = {"reachable_from_entries": sorted(reach_all - {"<entry>"}), "only_through_lazy_guard": sorted(lazy_only),
                                     "guarded_call_sites": sorted("%s->%s" % e for e in guarded_edges)}
    flags = {}
    lazy_written = set()
    scratch = {}
    for name in sorted(reach_all - {"<entry>"}):
        fi = methods[name]
        cfg = cfg_of(fi)
        view = cfg.view()
        writes, alias = _state_writes(fi)
        for n, attr, sub in writes:
            key = "%s::self.%s%s" % (name, attr, "[%s]" % sub if sub else "")
            if name in lazy_only:
                lazy_written.add((attr, sub))
                chk.ob("R10.3", key + "::lazy-cache(by-call-graph)", True, fi.where(n.ast),
                       "written only while the lazily computed inverse is being built (method reachable from the entries only through a flag-guarded call)")
                continue
            flag, b = _flag_guard(view, n)
            if flag is not None:
                if attr == flag:
                    flags.setdefault(flag, []).append((fi, n, b))
                    ok = isinstance(n.ast, ast.Assign) and const_value(n.ast.value) is True
                    chk.ob("R10.3", key + "::lazy-flag-set", ok, fi.where(n.ast), "the computed-flag is set to True inside its own `not flag` guard")
                else:
                    lazy_written.add((attr, sub))
                    chk.ob("R10.3", key + "::lazy-cache", True, fi.where(n.ast), "written under the `not self.%s` guard (computed once)" % flag)
                continue
            scratch.setdefault(attr, []).append((fi, n, sub))
    # flags: set before the guarded compute call, and never reset outside the constructor
    for flag, sites in flags.items():
        for fi, n, b in sites:
            cfg = cfg_of(fi)
            view = cfg.view()
            compute = [m for m in cfg.nodes if m.kind == "stmt" and any(dotted_name(c.func) and dotted_name(c.func).startswith("self.") and c.func.attr in lazy_only
                                                                       for c in rules.stmts_calls(m)) and _flag_guard(view, m)[0] == flag]
            ok = bool(compute) and all(view.dominates(n, m) for m in compute)
            chk.ob("R10.3", "%s::self.%s::set-before-compute" % (fi.name, flag), ok, fi.where(n.ast),
                   "the flag is set before the inverse is computed (the computation re-enters sky2image; setting it afterwards would recurse or recompute)")
        resets = []
        for name, fi in methods.items():
            if name in ctor_reach and name not in reach_all:
                continue
            for n, attr, sub in _state_writes(fi)[0]:
                if attr == flag and not (isinstance(n.ast, ast.Assign) and const_value(n.ast.value) is True):
                    if name in ctor_reach and name not in (reach_all - {"<entry>"}):
                        continue
                    resets.append("%s:%s" % (name, n.ast.lineno))
        chk.ob("R10.3", "self.%s::never-reset-after-construction" % flag, not resets, "esutil/wcsutil.py", "the computed-flag is cleared only by constructor code (%s)" % (resets or "no other store"))
    if not flags:
        chk.ob("R10.3", "lazy-inverse::guard-present", False, "esutil/wcsutil.py", "no `not self.<flag>` guard found around the lazily computed inverse coefficients")
    # lazily written keys are read only behind the guard
    # methods that make sure the lazy value exists: they hold the compute-once guard themselves
    ensurers = set()
    for name, fi in methods.items():
        cfg = cfg_of(fi)
        view = cfg.view()
        if any(_flag_guard(view, n)[0] is not None for n in cfg.nodes) and any(attr in flags for n_, attr, sub in _state_writes(fi)[0]):
            ensurers.add(name)
    for name in sorted(reach_plain - {"<entry>"}):
        fi = methods[name]
        cfg = cfg_of(fi)
        for n in cfg.nodes:
            if n.ast is None or n.kind not in ("stmt", "return", "branch"):
                continue
            root = n.ast.test if n.kind == "branch" else n.ast
            for x in ast.walk(root):
                if isinstance(x, ast.Subscript) and isinstance(x.ctx, ast.Load):
                    r = _attr_root(x)
                    if r is not None and (r, _subkey(x)) in lazy_written and isinstance(x.value, ast.Attribute):
                        # decide under the truth values this read's own controlling tests give to plain parameter flags (stable predicates)
                        fl = {}
                        for b, lab in cfg.view().controlling_branches(n):
                            if b.kind == "branch" and isinstance(b.ast.test, ast.Name) and b.ast.test.id in fi.params:
                                fl[b.ast.test.id] = (lab == "T")
                        view = cfg.specialise(flags=fl)
                        guards = [b for m_ in view.nodes() for f, b in [_flag_guard(view, m_)] if f is not None]
                        ens = [m_ for m_ in view.nodes() if m_.kind == "stmt" and any(dotted_name(c.func) and dotted_name(c.func).startswith("self.") and c.func.attr in ensurers
                                                                                         for c in rules.stmts_calls(m_))]
                        ok = any(view.dominates(b, n) and b.id != n.id for b in guards) or any(view.dominates(m_, n) and m_.id != n.id for m_ in ens)
                        chk.ob("R10.3", "%s::read-of-lazy::self.%s[%s]" % (name, r, _subkey(x)), ok, fi.where(n.ast),
                               "the lazily computed value is read only after the compute-once guard has been passed (in this method or in a helper it calls first)")
    # scratch: written before every read
    init = methods["__init__"]
    alloc = {}
    for x in walk_no_nested(init.node):
        if isinstance(x, ast.Assign) and isinstance(x.value, ast.Call) and call_name(x.value) in ("zeros", "empty", "ones") and x.value.args:
            r = _attr_root(x.targets[0])
            nval = const_value(x.value.args[0])
            if r is not None and isinstance(nval, int):
                alloc[r] = nval
    for attr, sites in sorted(scratch.items()):
        writers = {fi.name for fi, n, sub in sites}
        key = "self.%s" % attr
        if len(writers) != 1:
            chk.ob("R10.3", key + "::single-writer", False, sites[0][0].where(sites[0][1].ast), "scratch state written by several methods: %s" % sorted(writers))
            continue
        wname = next(iter(writers))
        wfi = methods[wname]
        cfg = cfg_of(wfi)
        view = cfg.view()
        wnodes = [n for fi, n, sub in sites]
        subs = {sub for fi, n, sub in sites}
        if attr in alloc:
            need = {str(i) for i in range(alloc[attr])}
            full = need <= subs or None in subs or ":" in subs
            chk.ob("R10.3", key + "::every-component-rewritten", full, wfi.where(wnodes[0].ast),
                   "all %d components of the scratch buffer are overwritten before use (written: %s)" % (alloc[attr], sorted(s for s in subs if s)))
        else:
            chk.ob("R10.3", key + "::allocated-in-constructor", False, wfi.where(wnodes[0].ast),
                   "state written by %s is neither a lazy cache nor a scratch buffer allocated by the constructor: results may depend on earlier calls" % wname)
            continue
        # readers
        readers = set()
        for name in reach_all - {"<entry>"}:
            fi = methods[name]
            for x in walk_no_nested(fi.node):
                if isinstance(x, ast.Attribute) and isinstance(x.ctx, ast.Load) and isinstance(x.value, ast.Name) and x.value.id == "self" and x.attr == attr:
                    readers.add(name)
        # in the writer: every read (or call that leads to a reader) is dominated by all write nodes
        okall = True
        why = []
        _, alias = _state_writes(wfi)
        anames = {k for k, v in alias.items() if v == attr}
        for n in cfg.nodes:
            if n.ast is None or n in wnodes or n.kind not in ("stmt", "return", "branch"):
                continue
            root = n.ast.test if n.kind == "branch" else n.ast
            uses = False
            for x in ast.walk(root):
                if isinstance(x, ast.Name) and isinstance(x.ctx, ast.Load) and x.id in anames and not (isinstance(n.ast, ast.Assign) and x is n.ast.value):
                    uses = True
                if isinstance(x, ast.Attribute) and isinstance(x.value, ast.Name) and x.value.id == "self" and x.attr in methods:
                    tgt = x.attr
                    if tgt in readers or (nx.descendants(g, tgt) & readers):
                        uses = True
                if isinstance(x, ast.Attribute) and isinstance(x.ctx, ast.Load) and isinstance(x.value, ast.Name) and x.value.id == "self" and x.attr == attr \
                        and not (isinstance(n.ast, ast.Assign) and x is n.ast.value):
                    uses = True
            if uses and not all(view.dominates(w, n) for w in wnodes):
                okall = False
                why.append("line %d" % n.ast.lineno)
        chk.ob("R10.3", key + "::written-before-read", okall, wfi.where(), "every use of the scratch buffer in %s (directly or through a callee that reads it) comes after it was rewritten%s"
               % (wname, "" if okall else " -- not at " + ", ".join(why)))
        # other readers are reachable from the entries only through the writer
        for rname in sorted(readers - {wname}):
            g3 = g.copy()
            g3.remove_node(wname)
            only = rname not in nx.descendants(g3, "<entry>")
            chk.ob("R10.3", key + "::reader-%s-only-through-writer" % rname, only, methods[rname].where(),
                   "%s reads the scratch buffer and is reachable from the public entries only through %s, which rewrites it first" % (rname, wname))
    chk.ob("R10.3", "state-writes-classified", True, "esutil/wcsutil.py",
           "post-construction state: lazy=%s scratch=%s" % (sorted("%s[%s]" % t for t in lazy_written), sorted(scratch)), nontrivial=False)


# ---------------------------------------------------------------------------
# R10.3 (continued) instance ownership: state that is modified in place belongs to one object
# ---------------------------------------------------------------------------
_ELEM_METHODS = {"get", "setdefault", "pop", "__getitem__"}
_IMMUTABLE_CTORS = {"int", "float", "str", "bool", "tuple", "frozenset", "bytes", "len", "complex", "range", "compile", "getLogger"}
_FRESH_NODES = (ast.Dict, ast.List, ast.Set, ast.ListComp, ast.DictComp, ast.SetComp, ast.GeneratorExp, ast.Constant, ast.Tuple, ast.JoinedStr,
                ast.BinOp, ast.UnaryOp, ast.Compare, ast.Lambda)


def _peel(t):
    while isinstance(t, ast.Subscript):
        t = t.value
    return t


class _Own:
    """Origin analysis ('which object may this expression denote') over the functions of one module; reaching definitions
    for locals, flow-insensitive over the attributes of `self`, parameter pass-through and in-place effects on parameters
    summarised per function.  Origins:
      ('G', name)            a mutable object created when the module is imported (or an element of one): one per process
      ('C', class, attr)     a mutable class-level attribute value that no method rebinds: one per class
      ('D', function, param) a mutable default value of a parameter: one per function
      ('P', param)           the caller's argument (placeholder, substituted at call sites)
      'fresh'                an object created by evaluating the expression;  'unknown' anything else."""

    def __init__(self, repo, mod):
        self.repo, self.mod = repo, mod
        self.funcs = [fi for fi in repo.funcs.values() if fi.module.name == mod.name]
        self.globals = self._module_mutables()
        self._b = {}
        self.attr_bind = {}
        self.class_attrs = {}
        for cname, cdef in mod.classes.items():
            for st in cdef.body:
                if isinstance(st, ast.Assign) and self._mutable_expr(st.value):
                    for t in st.targets:
                        if isinstance(t, ast.Name):
                            self.class_attrs[(cname, t.id)] = st
        for fi in self.funcs:
            sn = self.selfname(fi)
            if sn is None:
                continue
            for x in walk_no_nested(fi.node):
                pairs = []
                if isinstance(x, ast.Assign):
                    for t in x.targets:
                        pairs += list(self._pairs(t, x.value))
                elif isinstance(x, ast.AnnAssign) and x.value is not None:
                    pairs += list(self._pairs(x.target, x.value))
                for t, kind, v in pairs:
                    if isinstance(t, ast.Attribute) and isinstance(t.value, ast.Name) and t.value.id == sn:
                        self.attr_bind.setdefault((fi.cls, t.attr), []).append((fi, x, kind, v))
        self._ret = {}
        self.mutparams = {}

    # -- module level ------------------------------------------------------
    @staticmethod
    def _mutable_expr(v):
        if isinstance(v, (ast.Dict, ast.List, ast.Set, ast.ListComp, ast.DictComp, ast.SetComp)):
            return True
        return isinstance(v, ast.Call) and call_name(v) not in _IMMUTABLE_CTORS

    def _module_mutables(self):
        out = {}
        for _ in range(2):          # second round: aliases `x = y` / `x = y[k]` of what the first round found
            for x in walk_no_nested(self.mod.tree):
                if isinstance(x, ast.Assign) or (isinstance(x, ast.AnnAssign) and x.value is not None):
                    tg = x.targets if isinstance(x, ast.Assign) else [x.target]
                    r = _peel(x.value)
                    if self._mutable_expr(x.value) or (isinstance(r, ast.Name) and r.id in out and not isinstance(x.value, ast.Call)):
                        for t in tg:
                            if isinstance(t, ast.Name):
                                out.setdefault(t.id, x)
        return out

    # -- per function --------------------------------------------------------
    def selfname(self, fi):
        if not fi.cls or any(isinstance(d, ast.Name) and d.id in ("staticmethod", "classmethod") for d in fi.node.decorator_list):
            return None
        return fi.params[0] if fi.params and not fi.params[0].startswith("*") else None

    @staticmethod
    def _pairs(t, v):
        """(leaf target, 'expr' | 'elem', value expression): the leaf is bound to the value, or to an element of it"""
        if isinstance(t, (ast.Tuple, ast.List)):
            if isinstance(v, (ast.Tuple, ast.List)) and len(v.elts) == len(t.elts) and not any(isinstance(e, ast.Starred) for e in list(t.elts) + list(v.elts)):
                for a, b in zip(t.elts, v.elts):
                    for p in _Own._pairs(a, b):
                        yield p
            else:
                for a in t.elts:
                    for leaf, _, _ in _Own._pairs(a.value if isinstance(a, ast.Starred) else a, v):
                        yield leaf, "elem", v
        else:
            yield t, "expr", v

    def bindings(self, fi):
        b = self._b.get(fi.qualname)
        if b is not None:
            return b
        names, globs = {}, set()

        def bind(t, v, st, force=None):
            for leaf, kind, vv in self._pairs(t, v):
                if isinstance(leaf, ast.Name):
                    names.setdefault(leaf.id, []).append((force or kind, vv, st))

        for x in walk_no_nested(fi.node):
            if isinstance(x, ast.Global):
                globs |= set(x.names)
            elif isinstance(x, ast.Assign):
                for t in x.targets:
                    bind(t, x.value, x)
            elif isinstance(x, ast.AnnAssign) and x.value is not None:
                bind(x.target, x.value, x)
            elif isinstance(x, ast.NamedExpr):
                bind(x.target, x.value, None)
            elif isinstance(x, (ast.For, ast.comprehension)):
                it, t = x.iter, x.target
                st = x if isinstance(x, ast.For) else None
                if isinstance(it, ast.Call) and isinstance(it.func, ast.Attribute) and it.func.attr in ("items", "values") and not it.args:
                    if it.func.attr == "values":
                        bind(t, it.func.value, st, "elem")
                    elif isinstance(t, (ast.Tuple, ast.List)) and len(t.elts) == 2:
                        bind(t.elts[1], it.func.value, st, "elem")
                elif isinstance(it, ast.Call) and call_name(it) == "enumerate" and it.args and isinstance(t, (ast.Tuple, ast.List)) and len(t.elts) == 2:
                    bind(t.elts[1], it.args[0], st, "elem")
                elif not isinstance(it, ast.Call):
                    bind(t, it, st, "elem")
        for x in walk_no_nested(fi.node):
            if isinstance(x, ast.Name) and isinstance(x.ctx, (ast.Store, ast.Del)) and x.id not in names:
                names[x.id] = [("unknown", None, None)]
        cfg = cfg_of(fi)
        nodeof = {id(n.ast): n.id for n in cfg.nodes if n.ast is not None and n.kind in ("stmt", "return", "loop")}
        try:
            IN = cfg.view().reaching_defs()[0]
        except Exception:
            IN = None
        b = self._b[fi.qualname] = dict(names=names, globals=globs, nodeof=nodeof, IN=IN, entry=cfg.entry.id,
                                         params=[p.lstrip("*") for p in fi.params])
        return b

    def _at(self, fi, st):
        return self.bindings(fi)["nodeof"].get(id(st)) if st is not None else None

    @staticmethod
    def _elem(s):
        out = {t for t in s if isinstance(t, tuple)}
        if not out or len(out) != len(s):
            out.add("unknown")
        return out

    def _param_origin(self, fi, p):
        out = {("P", p)}
        d = fi.defaults.get(p)
        if d is not None and self._mutable_expr(d):
            out.add(("D", fi.qualname, p))
        return out

    def origin(self, fi, e, at=None, seen=frozenset()):
        if isinstance(e, ast.Name):
            b = self.bindings(fi)
            isparam = e.id in b["params"]
            if e.id in b["names"] and e.id not in b["globals"]:
                key = (fi.qualname, e.id, at)
                if key in seen:
                    return set()
                binds = b["names"][e.id]
                withparam = isparam
                rd = b["IN"].get(at, {}).get(e.id) if (b["IN"] is not None and at is not None) else None
                if rd and all(st is not None and id(st) in b["nodeof"] for _, _, st in binds):
                    sel = [bd for bd in binds if b["nodeof"][id(bd[2])] in rd]
                    if len(sel) >= len(rd - {b["entry"]}):          # every reaching definition is one of the recorded bindings
                        binds = sel
                        withparam = isparam and b["entry"] in rd
                out = set()
                for kind, v, st in binds:
                    if kind == "unknown":
                        out.add("unknown")
                        continue
                    o = self.origin(fi, v, self._at(fi, st), seen | {key})
                    out |= o if kind == "expr" else self._elem(o)
                if withparam:
                    out |= self._param_origin(fi, e.id)
                return out
            if isparam:
                return self._param_origin(fi, e.id)
            if e.id in self.globals and e.id not in self.mod.funcs and e.id not in self.mod.classes:
                return {("G", e.id)}
            return {"unknown"}
        if isinstance(e, ast.Subscript):
            return self._elem(self.origin(fi, e.value, at, seen))
        if isinstance(e, ast.Attribute):
            sn = self.selfname(fi)
            if sn is not None and isinstance(e.value, ast.Name) and e.value.id == sn and e.value.id not in self.bindings(fi)["names"]:
                return self.attr_origin(fi.cls, e.attr, seen)
            return {"unknown"}
        if isinstance(e, (ast.IfExp,)):
            return self.origin(fi, e.body, at, seen) | self.origin(fi, e.orelse, at, seen)
        if isinstance(e, ast.BoolOp):
            out = set()
            for v in e.values:
                out |= self.origin(fi, v, at, seen)
            return out
        if isinstance(e, ast.NamedExpr):
            return self.origin(fi, e.value, at, seen)
        if isinstance(e, ast.Call):
            f = e.func
            if isinstance(f, ast.Attribute) and f.attr in _ELEM_METHODS and not (isinstance(f.value, ast.Name) and f.value.id in self.mod.imports):
                out = self._elem(self.origin(fi, f.value, at, seen))
                if f.attr in ("get", "setdefault", "pop") and len(e.args) == 2:
                    out |= self.origin(fi, e.args[1], at, seen)
                return out
            tgt, bound = self.callee(fi, e)
            if tgt is not None:
                key = ("ret", tgt.qualname)
                if key in seen:
                    return set()
                out = set()
                for o in self.returns(tgt, seen | {key}):
                    if isinstance(o, tuple) and o[0] == "P":
                        out |= self.origin(fi, bound[o[1]], at, seen | {key}) if (bound and o[1] in bound) else {"unknown"}
                    else:
                        out.add(o)
                return out or {"unknown"}
            return {"fresh"}
        if isinstance(e, _FRESH_NODES):
            return {"fresh"}
        return {"unknown"}

    def attr_origin(self, cls, attr, seen=frozenset()):
        key = ("attr", cls, attr)
        if key in seen:
            return set()
        out = set()
        for fi, st, kind, v in self.attr_bind.get((cls, attr), []):
            o = self.origin(fi, v, self._at(fi, st), seen | {key})
            out |= o if kind == "expr" else self._elem(o)
        if not self.attr_bind.get((cls, attr)):
            out.add(("C", cls, attr) if (cls, attr) in self.class_attrs else "unknown")
        return out

    def callee(self, fi, c):
        """(FuncInfo of this module, {parameter: argument expression} or None when the arguments cannot be bound)"""
        d = dotted_name(c.func)
        if not d:
            return None, None
        sn = self.selfname(fi)
        tgt, skip = None, 0
        if sn is not None and d.startswith(sn + ".") and d.count(".") == 1 and self.repo.has("%s.%s.%s" % (self.mod.name, fi.cls, d.split(".")[1])):
            tgt = self.repo.func("%s.%s.%s" % (self.mod.name, fi.cls, d.split(".")[1]))
            skip = 1 if self.selfname(tgt) is not None else 0
        else:
            full = self.repo.resolve_name(self.mod, d)
            if self.repo.has(full) and self.repo.func(full).module.name == self.mod.name and not self.repo.func(full).cls:
                tgt = self.repo.func(full)
        if tgt is None:
            return None, None
        params = [p for p in tgt.params if not p.startswith("*")][skip:]
        if any(isinstance(a, ast.Starred) for a in c.args) or any(k.arg is None for k in c.keywords) or len(c.args) > len(params):
            return tgt, None
        bound = dict(zip(params, c.args))
        for k in c.keywords:
            if k.arg in params and k.arg not in bound:
                bound[k.arg] = k.value
        return tgt, bound

    def returns(self, fi, seen=frozenset()):
        if fi.qualname in self._ret:
            return self._ret[fi.qualname]
        out = set()
        for x in walk_no_nested(fi.node):
            if isinstance(x, ast.Return) and x.value is not None and not isinstance(x.value, ast.Tuple):
                out |= self.origin(fi, x.value, self._at(fi, x), seen)
        if not seen:
            self._ret[fi.qualname] = out
        return out

    # -- in-place modifications ------------------------------------------------
    def sites(self):
        """[(function, statement, expression denoting the modified object, its origins, text)] for every in-place modification
        in the module's functions: subscript stores and deletes, mutator method calls, and calls of functions of this module that
        modify their parameter (summaries, iterated to a fixed point)"""
        direct = []
        calls = []
        for fi in self.funcs:
            for x in walk_no_nested(fi.node):
                if not isinstance(x, (ast.Assign, ast.AugAssign, ast.AnnAssign, ast.Delete, ast.Expr, ast.Return)):
                    continue
                at = self._at(fi, x)
                tg = []
                if isinstance(x, ast.Assign):
                    for t in x.targets:
                        tg += list(rules._flat_targets(t))
                elif isinstance(x, (ast.AugAssign, ast.AnnAssign)):
                    tg = [x.target]
                elif isinstance(x, ast.Delete):
                    tg = list(x.targets)
                for t in tg:
                    if isinstance(t, ast.Subscript):
                        direct.append((fi, x, _peel(t), at, "`%s%s`" % (norm(t)[:60], " = ..." if not isinstance(x, ast.Delete) else " deleted")))
                for c in walk_no_nested(x):
                    if not isinstance(c, ast.Call):
                        continue
                    if isinstance(c.func, ast.Attribute) and c.func.attr in MUTATORS and not (isinstance(c.func.value, ast.Name) and c.func.value.id in self.mod.imports):
                        direct.append((fi, x, _peel(c.func.value), at, "`%s`" % norm(c)[:60]))
                    tgt, bound = self.callee(fi, c)
                    if tgt is not None and bound:
                        calls.append((fi, x, c, tgt, bound, at))
        out = []
        for fi, x, root, at, txt in direct:
            o = self.origin(fi, root, at)
            out.append((fi, x, root, o, txt))
            for t in o:
                if isinstance(t, tuple) and t[0] == "P":
                    self.mutparams.setdefault(fi.qualname, {}).setdefault(t[1], txt)
        done = set()
        for _ in range(4):
            grew = False
            for fi, x, c, tgt, bound, at in calls:
                for p, txt in list(self.mutparams.get(tgt.qualname, {}).items()):
                    if p not in bound or (id(c), p) in done:
                        continue
                    done.add((id(c), p))
                    o = self.origin(fi, _peel(bound[p]), at)
                    desc = "`%s` (%s modifies its parameter `%s`: %s)" % (norm(c)[:50], tgt.name, p, txt)
                    out.append((fi, x, _peel(bound[p]), o, desc))
                    for t in o:
                        if isinstance(t, tuple) and t[0] == "P" and t[1] not in self.mutparams.get(fi.qualname, {}):
                            self.mutparams.setdefault(fi.qualname, {})[t[1]] = desc
                            grew = True
            if not grew:
                break
        return out

    @staticmethod
    def describe(t):
        if t[0] == "G":
            return "the module-level object `%s` (or an element of it), of which there is one per process" % t[1]
        if t[0] == "C":
            return "the class-level attribute value `%s.%s`, of which there is one per class" % (t[1], t[2])
        return "the default value of parameter `%s` of %s, of which there is one per process" % (t[2], t[1])


def ownership(chk, repo):
    """An object that a method modifies in place and that an instance keeps as its state must belong to that instance alone:
    it must not be (an element of) a module-level object, a class-level attribute value or a parameter default, because those
    exist once per process and every other WCS object built or used later reads and writes the same one -- results would then
    depend on which other objects exist, not on the header the object was built from."""
    mod = repo.module(MOD)
    own = _Own(repo, mod)
    sites = own.sites()
    shared = lambda o: {t for t in o if isinstance(t, tuple) and t[0] in ("G", "C", "D")}
    cls = "WCS"
    attrs = sorted({a for (c, a) in list(own.attr_bind) + list(own.class_attrs) if c == cls})
    claimed = set()
    for attr in attrs:
        o = own.attr_origin(cls, attr)
        sh = shared(o)
        selfroot = [s for s in sites if s[0].cls == cls and isinstance(s[2], ast.Attribute) and isinstance(s[2].value, ast.Name)
                    and s[2].value.id == own.selfname(s[0]) and s[2].attr == attr]
        hits = [s for s in sites if shared(s[3]) & sh]
        if not sh:
            if selfroot:
                chk.ob("R10.3", "instance-owned::self.%s" % attr, True, selfroot[0][0].where(selfroot[0][1]),
                       "modified in place at %d site(s); every binding of the attribute is an object created for this instance or handed in by the caller" % len(selfroot))
            continue
        claimed |= {id(s[1]) for s in hits}
        bind = next(((fi, st) for fi, st, kind, v in own.attr_bind.get((cls, attr), []) if shared(own.origin(fi, v, own._at(fi, st)))), None)
        where = bind[0].where(bind[1]) if bind else "esutil/wcsutil.py"
        what = "; ".join(own.describe(t) for t in sorted(sh))
        if hits:
            chk.ob("R10.3", "instance-owned::self.%s" % attr, False, where,
                   "self.%s is bound%s to %s, and that object is modified in place: %s -- the state of one WCS object is overwritten when another one is "
                   "built or used, so conversions depend on which other objects exist (bind a copy, or build the instance's own container)"
                   % (attr, " in %s by `%s`" % (bind[0].name, norm(bind[1]).split("\n")[0][:70]) if bind else "", what,
                      ", ".join("%s in %s line %s" % (s[4], s[0].name, getattr(s[1], "lineno", "?")) for s in hits[:5]) + (" ..." if len(hits) > 5 else "")))
        else:
            chk.ob("R10.3", "instance-owned::self.%s" % attr, True, where, "bound to %s but never modified in place (read-only sharing)" % what)
    # a method that writes into process-wide state which no attribute holds: a cache keyed by its inputs, or model state kept
    # outside the object -- the two cannot be told apart here
    for fi, st, root, o, txt in sites:
        if fi.cls == cls and shared(o) and id(st) not in claimed:
            chk.ob("R10.3", "process-wide-state-written::%s::%s" % (fi.name, norm(root)[:40]), None, fi.where(st),
                   "%s modifies %s; not recognised as either a pure cache or per-object state" % (txt, "; ".join(own.describe(t) for t in sorted(shared(o)))))


# ---------------------------------------------------------------------------
# R10.9 root finder
# ---------------------------------------------------------------------------
def _scratch(repo):
    """{self.<attr>: number of components} for the small buffers the constructor allocates (np.zeros(n) / empty / ones with a literal n)"""
    init = repo.func(W + "__init__")
    out = {}
    for x in walk_no_nested(init.node):
        if isinstance(x, ast.Assign) and isinstance(x.value, ast.Call) and call_name(x.value) in ("zeros", "empty", "ones") and x.value.args:
            r = _attr_root(x.targets[0]) if isinstance(x.targets[0], ast.Attribute) else None
            nval = const_value(x.value.args[0])
            if r is not None and isinstance(nval, int) and not isinstance(nval, bool) and 0 < nval <= 8:
                out["self." + r] = nval
    return out


def _pix(b):
    return tuple(sp.Function("pix_%d" % i)(symx._as_expr(b["longitude"]), symx._as_expr(b["latitude"]), _flag(b["distort"]), _flag(b["find"])) for i in (0, 1))


def _findxy_run(repo, kind, tol):
    """_findxy(lon, lat, xtol) in the term domain for scalar or array input, whatever helpers it is divided into: the closed-form
    conversion it starts from is summarised as pix_i(lon, lat, distort, find), a call of a scipy root finder is recorded (callable,
    start vector, options, the scratch buffers of the object at that moment) and its result is one term ROOT_<solver>(all of that).
    The scratch buffers hold unknown values left by earlier calls when the run starts.  -> (result, recorded solver calls, summarised calls)"""
    fi = repo.func(W + "_findxy")
    lonp, latp = fi.params[1:3]
    lo, la = symx.symbols("lon", "lat")
    se = _mkse(repo, ())
    se.summaries = {W + "sky2image": _pix}
    se.solver_log = []
    se.input_kind = kind
    se.coord_inputs = {lo, la}
    se.array_inputs = {lo, la} if kind == "array" else set()
    st = {k: [sp.Symbol("STALE_%s_%d" % (k[5:], j)) for j in range(n)] for k, n in _scratch(repo).items()}
    se.scratch = set(st)
    args = dict(st)
    args.update({lonp: lo, latp: la})
    if "xtol" in fi.params:
        args["xtol"] = tol
    r = se.run(fi, args, {})
    return r, se.solver_log, se.calls


def rootfind(chk, repo):
    mod = repo.module(MOD)
    fi = repo.func(W + "_lonlatdiff")
    se = _mkse(repo, ("image2sky",))
    se.opaque.add(_mf(repo, "wrap_ra_diff").qualname)
    xy0, xy1, a0, a1 = symx.symbols("xy0", "xy1", "ans0", "ans1")
    r = se.run(fi, {"xy": (xy0, xy1), "self.lonlat_answer": (a0, a1)}, {})
    I = sp.Function("image2sky")(xy0, xy1)
    i0, i1 = sp.Function("image2sky_0")(*I.args), sp.Function("image2sky_1")(*I.args)
    want = [sp.Function("wrap_ra_diff")(i0 - a0), i1 - a1]
    ok = isinstance(r, (tuple, list)) and len(r) == 2 and all(symx._is_expr(a) and symx.equal(a, b)[0] for a, b in zip(r, want))
    chk.ob("R10.9", "_lonlatdiff::residual", bool(ok), fi.where(),
           "residual = (wrap_ra_diff(lon(x,y) - target_lon), lat(x,y) - target_lat): the longitude residual is wrapped so that targets near the RA = 0 seam are reachable (got %s)" % str(r)[:200])
    # The solve for one point, followed from _findxy through whatever helpers it uses (scalar input).  What the rules are about is found
    # by its meaning: the call of scipy's root finder (through imports, aliases, cached lookups), what it is given, what the object's
    # target buffer holds at that moment, and what is returned.
    top = repo.func(W + "_findxy")
    one = repo.func(W + "_findxy_one") if repo.has(W + "_findxy_one") else top
    fs = repo.func(W + "_fsolve_xy") if repo.has(W + "_fsolve_xy") else one
    tol = sp.Symbol("xtol", positive=True)
    lo, la = symx.symbols("lon", "lat")
    keys = [("_findxy_one::target-roles", one), ("_findxy_one::initial-guess", one), ("_findxy_one::solver-starts-from-guess", one),
            ("_findxy_one::returns-solution-components", one), ("_fsolve_xy::solver-call", fs)]
    try:
        rs, log, _ = _findxy_run(repo, "scalar", tol)
        err = None
    except (symx.Unsupported, KeyError, TypeError, IndexError, AttributeError) as e:
        rs, log, err = None, [], "the root-finding path is not evaluable in the term domain for scalar input: %s" % e
    if err is None and len(log) > 1:
        err = "%d calls of a scipy root finder on the path of one point (%s): which one produces the result is not recognised" % (len(log), ", ".join(l_["where"] for l_ in log))
    if err is not None:
        for k_, f_ in keys:
            chk.ob("R10.9", k_, None, f_.where(), err)
    elif not log:
        # positively identified: the value returned for one point does not come out of a root finder at all
        chk.ob("R10.9", "_findxy_one::returns-solution-components", False, one.where(),
               "no call of scipy.optimize.fsolve is reached for a scalar (lon, lat): the returned value %s is not the solution of lonlat(x, y) = target" % (str(rs)[:160],))
    else:
        rec = log[0]
        isroot = lambda t, i: isinstance(t, sp.Basic) and getattr(t.func, "__name__", "") == "AT" and len(t.args) == 2 and t.args[1] == i \
            and getattr(t.args[0].func, "__name__", "").startswith("ROOT_")
        # target buffer at the time of the solve
        tgt = rec["state"].get("self.lonlat_answer")
        chk.ob("R10.9", "_findxy_one::target-roles", (None if tgt is None else (len(tgt) == 2 and tgt[0] == lo and tgt[1] == la)), one.where(),
               "when the solver runs the target buffer holds (longitude, latitude) of this point in the residual's component order (found %s)" % (tgt,))
        # start vector
        x0 = rec["x0"]
        ispix = lambda t: isinstance(t, sp.Basic) and getattr(t.func, "__name__", "") in ("pix_0", "pix_1") and len(t.args) == 4
        okx = isinstance(x0, tuple) and len(x0) == 2 and all(ispix(t) for t in x0)
        ok = okx and all(t.args[0] == lo and t.args[1] == la and t.args[3] == sp.Symbol("FALSE") for t in x0)
        chk.ob("R10.9", "_findxy_one::initial-guess", (bool(ok) if (okx or (isinstance(x0, tuple) and all(symx._is_expr(t) for t in x0))) else None), one.where(),
               "the starting point is the closed-form inverse sky2image(lon, lat, find=False, ...) of the same target (find=False also ends the recursion) (start vector %s)" % (str(x0)[:200],))
        xt = rec["kw"].get("xtol")
        extra = sorted(k_ for k_, v_ in rec["kw"].items() if k_ not in ("xtol",) and not (k_ == "args" and v_ == ()))
        ok = okx and x0[0].func.__name__ == "pix_0" and x0[1].func.__name__ == "pix_1" and x0[0].args == x0[1].args and xt == tol
        chk.ob("R10.9", "_findxy_one::solver-starts-from-guess", (None if (ok and extra) else bool(ok)), one.where(),
               "the solver receives the freshly computed guess (x, y) in order and the caller's xtol (start vector %s, xtol=%s%s)" % (str(x0)[:160], xt, (", unrecognised options %s" % extra) if extra else ""))
        ok = isinstance(rs, tuple) and len(rs) == 2 and all(isroot(t, i) for i, t in enumerate(rs)) and rs[0].args[0] == rs[1].args[0] and rec["top"]
        chk.ob("R10.9", "_findxy_one::returns-solution-components", bool(ok), one.where(),
               "returns (xy[0], xy[1]) of the solver's result, on every path%s" % ("" if ok else " (got %s%s)" % (str(rs)[:200], "" if rec["top"] else "; the solver runs only under a condition")))
        fn = rec["func"]
        if rec["solver"] != "scipy.optimize.fsolve":
            ok = False          # positively identified: another solver
        elif not isinstance(fn, _Bound):
            ok = None           # a callable that is not a method of the object (lambda, closure, partial): not recognised
        else:
            ok = fn.name == "_lonlatdiff" and xt == tol
        chk.ob("R10.9", "_fsolve_xy::solver-call", ok, fs.where(), "scipy.optimize.fsolve(self._lonlatdiff, guess, xtol=xtol) (found %s(%s, ..., xtol=%s))" % (rec["solver"], fn, xt))
    # array input: every point is solved as a scalar point would be
    key = "_findxy::array-arm-is-elementwise-scalar-arm"
    what = "array input solves each (lon[i], lat[i]) as the scalar arm would: same target, same start, same tolerance, results stored at the same index"
    if rs is None or err is not None:
        chk.ob("R10.7", key, None, top.where(), what + " -- the scalar arm is not evaluable (%s)" % err)
    else:
        try:
            ra, loga, _ = _findxy_run(repo, "array", tol)
            erra = None
        except (symx.Unsupported, KeyError, TypeError, IndexError, AttributeError) as e:
            ra, erra = None, str(e)
        if erra is not None or not (isinstance(ra, tuple) and isinstance(rs, tuple) and len(ra) == len(rs) == 2):
            chk.ob("R10.7", key, None, top.where(), what + " -- the array arm is not evaluable in the term domain (%s)" % (erra or "result %s" % str(ra)[:120]))
        else:
            sub = {lo: sp.Function("AT")(lo, IDX), la: sp.Function("AT")(la, IDX)}
            bad = []
            unk = False
            for i, (ga, gs) in enumerate(zip(ra, rs)):
                if not (isinstance(ga, sp.Basic) and ga.func is FORALL and symx._is_expr(gs)):
                    unk = True
                    bad.append("component %d is not filled point by point (%s)" % (i, str(ga)[:100]))
                    continue
                got, want_ = ga.args[1], symx._as_expr(gs).xreplace(sub)
                if got != want_ and not symx.equal(got, want_)[0]:
                    if any(str(s_).startswith(("CARRIED_", "UNKNOWN_")) for s_ in got.free_symbols):
                        unk = True
                    bad.append("element IDX of component %d is %s, the scalar arm gives %s" % (i, str(got)[:240], str(want_)[:240]))
            chk.ob("R10.7", key, (None if (bad and unk) else not bad), top.where(), what + ("" if not bad else " -- " + "; ".join(bad)))
    tol = mod.consts.get("DEFTOL")
    tv = const_value(tol) if tol is not None else None
    chain = [repo.func(W + "sky2image"), top] + [f for f in (one, fs) if f is not top]
    dflts = [const_value(f.defaults.get("xtol")) if not isinstance(f.defaults.get("xtol"), ast.Name) else f.defaults["xtol"].id for f in chain if "xtol" in f.params]
    chk.ob("R10.9", "DEFTOL", isinstance(tv, float) and 0 < tv <= 1e-8 and all(d == "DEFTOL" for d in dflts), "esutil/wcsutil.py",
           "default root-finding tolerance is the documented 1e-8 or tighter on the whole call chain (DEFTOL = %s, defaults %s)" % (tv, dflts))


# ---------------------------------------------------------------------------
# R10.10 jacobian, R10.11 RA-difference wrap
# ---------------------------------------------------------------------------
def jacobian(chk, repo):
    fi = repo.func(W + "get_jacobian")
    x, y, h = symx.symbols("x", "y", "h")
    names = ("dra_dx", "dra_dy", "ddec_dx", "ddec_dy")
    res = {nm: [] for nm in names}
    # both values of the distort option: the forward transform is kept as a function symbol whose term carries the option only where it
    # differs from image2sky's default, so an option that is not forwarded shows up as a different term for one of the two values
    for distort in (True, False):
        se = _mkse(repo, ("image2sky",))
        se.opaque.add(_mf(repo, "wrap_ra_diff").qualname)
        r = se.run(fi, {"x": x, "y": y, "step": h}, {"distort": distort})
        i2s = repo.func(W + "image2sky")
        dflt = const_value(i2s.defaults.get("distort")) if "distort" in i2s.defaults else None
        kw = () if distort is dflt else (sp.Function("KW_distort")(sp.Symbol("TRUE" if distort else "FALSE")),)

        def sky(i, a, b):
            return sp.Function("image2sky_%d" % i)(a, b, *kw)
        wr = sp.Function("wrap_ra_diff")
        c = -sp.cos(sky(1, x, y) * sp.pi / 180)
        f = sp.Integer(3600) / (2 * h)
        want = (f * wr(sky(0, x + h, y) - sky(0, x - h, y)) * c, f * wr(sky(0, x, y + h) - sky(0, x, y - h)) * c,
                f * (sky(1, x + h, y) - sky(1, x - h, y)), f * (sky(1, x, y + h) - sky(1, x, y - h)))
        ok = isinstance(r, tuple) and len(r) == 4
        if not ok:
            chk.ob("R10.10", "get_jacobian::returns-four", False, fi.where(), "got %s" % str(r)[:200])
            return
        for nm, got, w in zip(names, r, want):
            eq, d = symx.equal(got, w)
            res[nm].append((distort, eq, d))
    for nm in names:
        bad = [(dv, d) for dv, eq, d in res[nm] if not eq]
        chk.ob("R10.10", "get_jacobian::%s" % nm, not bad, fi.where(),
               "%s = 3600/(2 step) x central difference%s of image2sky(..., distort=distort), for distort on and off%s"
               % (nm, " of the wrapped RA difference x (-cos dec)" if nm.startswith("dra") else "", "" if not bad else " (distort=%s differs: %s)" % (bad[0][0], str(bad[0][1])[:160])))


# ---------------------------------------------------------------------------
# R10.11 decided semantically: a case-partitioned interval x congruence analysis of the RA-difference wrap.
# One element of the input is followed through the function (a scalar is its own element).  A case ("world") maps every
# variable to: a finite value known by an interval and by its offset from the input modulo 360; one of nan / +inf / -inf;
# or a truth value.  A comparison with a number splits the case at that number, so truth values are exact within a case;
# +-k, fmod, % 360, np.where, masked stores, if / while and calls of package helpers have transfer functions; loops are
# iterated to a fixpoint of cases at the loop head.  `np.any(mask)` of an array is true when this element's mask is, and
# undetermined otherwise (the other elements decide).  The four kinds of input (finite, nan, +inf, -inf) are analysed
# separately for scalar and array input.  Nothing is sampled or executed: the finite case starts from (-inf, inf).
# ---------------------------------------------------------------------------
_INF = float("inf")
_UNK = "undetermined"


class _NoVerdict(Exception):
    pass


def _fin(lo, loc, hi, hic, off):
    return ("fin", lo, bool(loc and lo != -_INF), hi, bool(hic and hi != _INF), off)


def _empty(v):
    return v[1] > v[3] or (v[1] == v[3] and not (v[2] and v[4]))


def _meet(v, lo, loc, hi, hic):
    """finite value v restricted to the interval lo..hi"""
    _, a, ac, b, bc, off = v
    if lo > a or (lo == a and not loc):
        a, ac = lo, loc
    if hi < b or (hi == b and not hic):
        b, bc = hi, hic
    r = _fin(a, ac, b, bc, off)
    return None if _empty(r) else r


def _cut(v, op, c):
    """(part of finite v where `v op c` holds, part where it does not); either may be None"""
    if op is ast.Lt:
        return _meet(v, -_INF, False, c, False), _meet(v, c, True, _INF, False)
    if op is ast.LtE:
        return _meet(v, -_INF, False, c, True), _meet(v, c, False, _INF, False)
    if op is ast.Gt:
        return _meet(v, c, False, _INF, False), _meet(v, -_INF, False, c, True)
    if op is ast.GtE:
        return _meet(v, c, True, _INF, False), _meet(v, -_INF, False, c, False)
    if op is ast.Eq:
        p = _meet(v, c, True, c, True)
        return p, (None if (p is not None and v[1] == v[3]) else v)
    if op is ast.NotEq:
        f, t = _cut(v, ast.Eq, c)
        return t, f
    raise _NoVerdict("comparison operator %s" % op.__name__)


_FLIP = {ast.Lt: ast.Gt, ast.LtE: ast.GtE, ast.Gt: ast.Lt, ast.GtE: ast.LtE, ast.Eq: ast.Eq, ast.NotEq: ast.NotEq}
_PYOP = {ast.Lt: lambda a, b: a < b, ast.LtE: lambda a, b: a <= b, ast.Gt: lambda a, b: a > b, ast.GtE: lambda a, b: a >= b,
         ast.Eq: lambda a, b: a == b, ast.NotEq: lambda a, b: a != b}
_SPECIAL = {"nan": float("nan"), "+inf": _INF, "-inf": -_INF}


def _isval(v):
    return isinstance(v, tuple) and v and v[0] in ("fin", "nan", "+inf", "-inf")


def _contains(big, small):
    if isinstance(big, tuple) and isinstance(small, tuple) and big[0] == "fin" and small[0] == "fin":
        return big[5] == small[5] and (big[1] < small[1] or (big[1] == small[1] and (big[2] or not small[2]))) \
            and (big[3] > small[3] or (big[3] == small[3] and (big[4] or not small[4])))
    return big == small


class _Wrap:
    def __init__(self, repo, fi, array, prefix="", depth=0):
        self.repo, self.fi, self.array, self.prefix, self.depth = repo, fi, array, prefix, depth
        self.rets = []

    # -- names ---------------------------------------------------------------
    def full(self, f):
        d = dotted_name(f)
        return self.repo.resolve_name(self.fi.module, d) if d else None

    def get(self, w, name):
        k = self.prefix + name
        if k not in w:
            raise _NoVerdict("name `%s` has no tracked value at %s" % (name, self.fi.where()))
        return w[k]

    @staticmethod
    def put(w, k, v):
        w2 = dict(w)
        w2[k] = v
        return w2

    # -- arithmetic ------------------------------------------------------------
    def shift(self, v, c):
        if v[0] != "fin":
            return v
        off = None if v[5] is None else (v[5] + c) % 360.0
        return _fin(v[1] + c, v[2], v[3] + c, v[4], off)

    def rem(self, v, m, pysign):
        """fmod (sign of the dividend) or % (sign of the divisor) by the positive number m"""
        if v[0] == "nan" or v[0] in ("+inf", "-inf"):
            return ("nan",)
        off = v[5] if (v[5] is not None and m % 360.0 == 0) else None
        lo, loc, hi, hic = v[1:5]
        if pysign:
            if lo >= 0 and hi < m:
                return _fin(lo, loc, hi, hic, off)
            return _fin(0.0, True, m, False, off)
        if lo > -m and hi < m:
            return _fin(lo, loc, hi, hic, off)
        if lo >= 0:
            return _fin(0.0, True, m, False, off)
        if hi <= 0:
            return _fin(-m, False, 0.0, True, off)
        return _fin(-m, False, m, False, off)

    def arith(self, op, a, b, node):
        if isinstance(a, float) and isinstance(b, float):
            try:
                return {ast.Add: a + b, ast.Sub: a - b, ast.Mult: a * b}[type(op)]
            except KeyError:
                raise _NoVerdict("operator at %s" % self.fi.where(node))
        if isinstance(op, ast.Add) and _isval(a) and isinstance(b, float):
            return self.shift(a, b)
        if isinstance(op, ast.Add) and _isval(b) and isinstance(a, float):
            return self.shift(b, a)
        if isinstance(op, ast.Sub) and _isval(a) and isinstance(b, float):
            return self.shift(a, -b)
        if isinstance(op, (ast.Mult, ast.Div)) and _isval(a) and b == 1.0:
            return a
        if isinstance(op, ast.Mult) and _isval(b) and a == 1.0:
            return b
        if isinstance(op, ast.Mod) and _isval(a) and isinstance(b, float) and 0 < b < _INF:
            return self.rem(a, b, True)
        raise _NoVerdict("arithmetic `%s` at %s" % (norm(node), self.fi.where(node)))

    # -- expressions: list of (world, value) ------------------------------------
    def cmp1(self, w, lnode, lv, op, rnode, rv):
        if isinstance(lv, float) and _isval(rv):
            return self.cmp1(w, rnode, rv, _FLIP[op], lnode, lv)
        if isinstance(lv, float) and isinstance(rv, float):
            return [(w, _PYOP[op](lv, rv))]
        if not (_isval(lv) and isinstance(rv, float)):
            raise _NoVerdict("comparison of %r with %r" % (lv, rv))
        if lv[0] != "fin":
            return [(w, _PYOP[op](_SPECIAL[lv[0]], rv))]
        t, f = _cut(lv, op, rv)
        name = self.prefix + lnode.id if isinstance(lnode, ast.Name) and (self.prefix + lnode.id) in w and w[self.prefix + lnode.id] == lv else None
        out = []
        for part, truth in ((t, True), (f, False)):
            if part is not None:
                out.append((self.put(w, name, part) if name else w, truth))
        return out

    def ev(self, e, w):
        if isinstance(e, ast.Constant):
            if isinstance(e.value, bool):
                return [(w, e.value)]
            if isinstance(e.value, (int, float)):
                return [(w, float(e.value))]
            raise _NoVerdict("constant %r" % (e.value,))
        if isinstance(e, ast.Name):
            return [(w, self.get(w, e.id))]
        if isinstance(e, ast.UnaryOp):
            out = []
            for w1, v in self.ev(e.operand, w):
                if isinstance(e.op, ast.USub) and isinstance(v, float):
                    out.append((w1, -v))
                elif isinstance(e.op, ast.UAdd):
                    out.append((w1, v))
                elif isinstance(e.op, (ast.Not, ast.Invert)) and (isinstance(v, bool) or v == _UNK):
                    out.append((w1, v if v == _UNK else not v))
                else:
                    raise _NoVerdict("unary operator at %s" % self.fi.where(e))
            return out
        if isinstance(e, ast.BinOp):
            out = []
            for w1, a in self.ev(e.left, w):
                for w2, b in self.ev(e.right, w1):
                    if isinstance(e.op, (ast.BitAnd, ast.BitOr)) and all(isinstance(z, bool) for z in (a, b)):
                        out.append((w2, (a and b) if isinstance(e.op, ast.BitAnd) else (a or b)))
                    else:
                        out.append((w2, self.arith(e.op, a, b, e)))
            return out
        if isinstance(e, ast.BoolOp):
            isand = isinstance(e.op, ast.And)
            cur = [(w, isand)]
            for sub in e.values:
                nxt = []
                for w1, acc in cur:
                    if acc is not isand:
                        nxt.append((w1, acc))          # decided already: the rest is not evaluated
                        continue
                    for w2, v in self.ev(sub, w1):
                        if not isinstance(v, bool):
                            raise _NoVerdict("truth value of %r at %s" % (v, self.fi.where(e)))
                        nxt.append((w2, v))
                cur = nxt
            return cur
        if isinstance(e, ast.Compare):
            # np.ndim(x) == 0 and friends: the kind of input of this run
            if len(e.ops) == 1 and isinstance(e.left, ast.Call) and call_name(e.left) == "ndim" and const_value(e.comparators[0]) == 0:
                return [(w, _PYOP[type(e.ops[0])](1 if self.array else 0, 0))]
            if len(e.ops) == 1 and isinstance(e.left, ast.Attribute) and e.left.attr == "ndim" and const_value(e.comparators[0]) == 0:
                return [(w, _PYOP[type(e.ops[0])](1 if self.array else 0, 0))]
            cur = [(w, True, None)]
            left = e.left
            for op, right in zip(e.ops, e.comparators):
                nxt = []
                for w1, acc, lv in cur:
                    if acc is False:
                        nxt.append((w1, False, None))
                        continue
                    lvs = [(w1, lv)] if lv is not None else self.ev(left, w1)
                    for w2, a in lvs:
                        for w3, b in self.ev(right, w2):
                            for w4, t in self.cmp1(w3, left, a, type(op), right, b):
                                # the middle operand of a chain keeps its (possibly refined) value
                                mid = w4.get(self.prefix + right.id, b) if isinstance(right, ast.Name) else b
                                nxt.append((w4, t, mid))
                cur = nxt
                left = right
            return [(w1, acc) for w1, acc, _ in cur]
        if isinstance(e, ast.IfExp):
            out = []
            for w1, t in self.ev(e.test, w):
                if not isinstance(t, bool):
                    raise _NoVerdict("undetermined test of a conditional expression at %s" % self.fi.where(e))
                out += self.ev(e.body if t else e.orelse, w1)
            return out
        if isinstance(e, ast.Call):
            return self.call(e, w)
        raise _NoVerdict("expression `%s` at %s" % (norm(e)[:60], self.fi.where(e)))

    def call(self, c, w):
        nm = call_name(c)
        full = self.full(c.func) or ""
        lib = full.startswith(("numpy.", "math."))
        if isinstance(c.func, ast.Name) and c.func.id in ("float", "abs", "any") and c.func.id not in self.fi.module.funcs and c.func.id not in self.fi.module.imports:
            lib = True
        if isinstance(c.func, ast.Attribute) and not lib and nm in ("copy", "any") and not c.args:
            # x.copy(), mask.any()
            c = ast.copy_location(ast.Call(func=ast.Name(id=nm, ctx=ast.Load()), args=[c.func.value], keywords=[]), c)
            lib = True
        if lib:
            if nm in ("array", "asarray", "asanyarray", "atleast_1d", "copy", "float", "float64", "ascontiguousarray") and len(c.args) >= 1:
                dt = kwarg(c, "dtype") or (c.args[1] if len(c.args) > 1 else None)
                if dt is not None and symx._dtype_class(dt) != "keep":
                    raise _NoVerdict("conversion `%s`" % norm(c))
                return self.ev(c.args[0], w)
            if nm in ("fmod", "mod", "remainder") and len(c.args) == 2:
                out = []
                for w1, a in self.ev(c.args[0], w):
                    for w2, m in self.ev(c.args[1], w1):
                        if not (_isval(a) and isinstance(m, float) and 0 < m < _INF):
                            raise _NoVerdict("`%s`" % norm(c))
                        out.append((w2, self.rem(a, m, nm != "fmod")))
                return out
            if nm in ("isfinite", "isnan", "isinf") and len(c.args) == 1:
                out = []
                for w1, a in self.ev(c.args[0], w):
                    if not _isval(a):
                        raise _NoVerdict("`%s`" % norm(c))
                    out.append((w1, {"isfinite": a[0] == "fin", "isnan": a[0] == "nan", "isinf": a[0] in ("+inf", "-inf")}[nm]))
                return out
            if nm == "where" and len(c.args) == 3:
                out = []
                for w1, t in self.ev(c.args[0], w):
                    if not isinstance(t, bool):
                        raise _NoVerdict("`%s`" % norm(c))
                    out += self.ev(c.args[1] if t else c.args[2], w1)
                return out
            if nm == "any" and len(c.args) == 1:
                out = []
                for w1, t in self.ev(c.args[0], w):
                    if not isinstance(t, bool):
                        raise _NoVerdict("`%s`" % norm(c))
                    out.append((w1, t if (t or not self.array) else _UNK))
                return out
            if nm == "isscalar" and len(c.args) == 1:
                return [(w, not self.array)]
            raise _NoVerdict("library call `%s` at %s" % (norm(c)[:60], self.fi.where(c)))
        if self.repo.has(full) and self.depth < 3 and not c.keywords:
            tgt = self.repo.func(full)
            params = [p for p in tgt.params if not p.startswith("*")]
            if len(c.args) != len(params) or tgt.cls:
                raise _NoVerdict("call `%s`" % norm(c)[:60])
            sub = _Wrap(self.repo, tgt, self.array, prefix="%s%s$" % (self.prefix, tgt.name), depth=self.depth + 1)
            cur = [w]
            for p, a in zip(params, c.args):
                nxt = []
                for w1 in cur:
                    for w2, v in self.ev_masked(a, w1):
                        nxt.append(self.put(w2, sub.prefix + p, v))
                cur = nxt
            left = sub.block(tgt.node.body, cur)
            if left:
                raise _NoVerdict("helper %s may end without returning a value" % tgt.name)
            return [({k: v for k, v in w1.items() if not k.startswith(sub.prefix)}, v) for w1, v in sub.rets]
        raise _NoVerdict("call `%s` at %s" % (norm(c)[:60], self.fi.where(c)))

    def ev_masked(self, e, w, mask_text=None):
        """value of e, where x[mask] (mask true for this element, checked by the caller) stands for x"""
        if isinstance(e, ast.Subscript):
            if self._mask_text is None or norm(e.slice) != self._mask_text:
                raise _NoVerdict("subscript `%s` outside a store under the same mask at %s" % (norm(e), self.fi.where(e)))
            return self.ev(e.value, w)
        return self.ev(e, w)

    _mask_text = None

    # -- statements -----------------------------------------------------------
    def store(self, tgt, value_node, w, aug=None):
        """worlds after `tgt = value` / `tgt op= value`"""
        if isinstance(tgt, ast.Name):
            out = []
            src = value_node if aug is None else ast.copy_location(ast.BinOp(left=ast.Name(id=tgt.id, ctx=ast.Load()), op=aug, right=value_node), value_node)
            for w1, v in self.ev(src, w):
                out.append(self.put(w1, self.prefix + tgt.id, v))
            return out
        if isinstance(tgt, ast.Subscript) and isinstance(tgt.value, ast.Name):
            if isinstance(tgt.slice, ast.Slice) and tgt.slice.lower is None and tgt.slice.upper is None and tgt.slice.step is None:
                return self.store(tgt.value, value_node, w, aug)
            out = []
            for w1, m in self.ev(tgt.slice, w):
                if m is False:
                    out.append(w1)
                    continue
                if m is not True:
                    raise _NoVerdict("store under `%s`, which is not a mask, at %s" % (norm(tgt.slice), self.fi.where(tgt)))
                sub = _Masked(self, norm(tgt.slice))
                src = value_node if aug is None else ast.copy_location(ast.BinOp(left=ast.Name(id=tgt.value.id, ctx=ast.Load()), op=aug, right=value_node), value_node)
                for w2, v in sub.ev(src, w1):
                    if not _isval(v):
                        raise _NoVerdict("masked store of %r" % (v,))
                    out.append(self.put(w2, self.prefix + tgt.value.id, v))
            return out
        raise _NoVerdict("assignment target `%s` at %s" % (norm(tgt), self.fi.where(tgt)))

    def block(self, stmts, worlds):
        for st in stmts:
            if not worlds:
                break
            worlds = self.stmt(st, worlds)
        return worlds

    def stmt(self, st, worlds):
        out = []
        if isinstance(st, ast.Expr) and isinstance(st.value, ast.Constant):
            return worlds
        if isinstance(st, ast.Pass):
            return worlds
        if isinstance(st, ast.Assign) and len(st.targets) == 1:
            for w in worlds:
                out += self.store(st.targets[0], st.value, w)
            return out
        if isinstance(st, ast.AugAssign):
            for w in worlds:
                out += self.store(st.target, st.value, w, aug=st.op)
            return out
        if isinstance(st, ast.Return):
            if st.value is None:
                raise _NoVerdict("bare return at %s" % self.fi.where(st))
            for w in worlds:
                self.rets += self.ev(st.value, w)
            return []
        if isinstance(st, ast.If):
            for w in worlds:
                for w1, t in self.ev(st.test, w):
                    if not (isinstance(t, bool) or t == _UNK):
                        raise _NoVerdict("test `%s` at %s" % (norm(st.test), self.fi.where(st)))
                    if t is True or t == _UNK:
                        out += self.block(st.body, [w1])
                    if t is False or t == _UNK:
                        out += self.block(st.orelse, [w1])
            return out
        if isinstance(st, ast.While) and not st.orelse:
            seen, work, rounds = [], list(worlds), 0
            while work:
                rounds += 1
                if rounds > 40 or len(seen) > 400:
                    raise _NoVerdict("loop at %s: the cases at the loop head did not stabilise" % self.fi.where(st))
                nxt = []
                for w in work:
                    if any(set(s) == set(w) and all(_contains(s[k], w[k]) for k in w) for s in seen):
                        continue
                    seen.append(w)
                    for w1, t in self.ev(st.test, w):
                        if not (isinstance(t, bool) or t == _UNK):
                            raise _NoVerdict("loop test `%s` at %s" % (norm(st.test), self.fi.where(st)))
                        if t is True or t == _UNK:
                            nxt += self.block(st.body, [w1])
                        if t is False or t == _UNK:
                            out.append(w1)
                work = nxt
            return out
        raise _NoVerdict("statement %s at %s" % (type(st).__name__, self.fi.where(st)))


class _Masked(_Wrap):
    """expression evaluation on the right of a store under a mask: x[mask] stands for this element of x"""

    def __init__(self, outer, mask_text):
        _Wrap.__init__(self, outer.repo, outer.fi, outer.array, outer.prefix, outer.depth)
        self._mask_text = mask_text

    def ev(self, e, w):
        if isinstance(e, ast.Subscript):
            return self.ev_masked(e, w)
        return _Wrap.ev(self, e, w)

    def call(self, c, w):
        # a helper applied to the selected elements sees plain values
        return _Wrap.call(self, c, w)


def _wrap_semantics(repo, fi):
    """{(arm, input kind): list of result values}; raises _NoVerdict when a construct has no transfer function"""
    params = [p for p in fi.params if not p.startswith("*")]
    if len(params) != 1:
        raise _NoVerdict("wrap_ra_diff no longer takes one argument")
    res = {}
    for array in (False, True):
        for kind in ("fin", "nan", "+inf", "-inf"):
            v0 = _fin(-_INF, False, _INF, False, 0.0) if kind == "fin" else (kind,)
            a = _Wrap(repo, fi, array)
            left = a.block(fi.node.body, [{params[0]: v0}])
            if left:
                raise _NoVerdict("wrap_ra_diff may end without returning a value")
            res[("array" if array else "scalar", kind)] = [v for _, v in a.rets]
    return res


def wrapdiff(chk, repo):
    fi = _mf(repo, "wrap_ra_diff")
    chk.analysed_unit(fi.qualname)
    # Decided semantically where the analysis has a transfer function for every construct of the function:
    #  * non-finite input: nan, +inf and -inf are single concrete values with exact transfer functions, so "no case reaches a return" is a
    #    definite statement (the loop state repeats) and "some case does" a proof -- verdict either way, however the code is laid out;
    #  * finite input: range and congruence of every result case is a proof when it succeeds; when it does not (intervals over-approximate)
    #    the shape rules below decide as before.
    try:
        res, why = _wrap_semantics(repo, fi), None
    except _NoVerdict as e:
        res, why = None, "construct without transfer function: %s" % e
    wraps_proved = False
    if res is not None:
        for arm in ("scalar", "array"):
            stuck = [k_ for k_ in ("nan", "+inf", "-inf") if not res[(arm, k_)]]
            chk.ob("R10.11", "wrap_ra_diff[%s]::returns-for-non-finite-input" % arm, not stuck, fi.where(),
                   "nan, +inf and -inf reach a return: no wrap loop keeps running on a value that +-360 cannot move%s"
                   % ("" if not stuck else " -- never returns for %s input %s" % (arm, ", ".join(stuck))))
        ok_arm = {}
        for arm in ("scalar", "array"):
            vals = res[(arm, "fin")]
            ok_arm[arm] = bool(vals) and all(_isval(v_) and v_[0] == "fin" and v_[5] == 0.0 and v_[1] >= -180.0 and v_[3] <= 180.0 for v_ in vals)
        wraps_proved = all(ok_arm.values())
        if wraps_proved:
            for arm in ("scalar", "array"):
                vals = res[(arm, "fin")]
                chk.ob("R10.11", "wrap_ra_diff[%s]::wraps-into-[-180,180]-by-multiples-of-360" % arm, True, fi.where(),
                       "for every finite %s input the result lies in [-180, 180] and differs from the input by a multiple of 360 (interval x congruence analysis "
                       "starting from (-inf, inf): %d result case(s), hull [%g, %g])" % (arm, len(vals), min(v_[1] for v_ in vals), max(v_[3] for v_ in vals)))
            return
        why = "range/congruence not proved for: %s" % sorted(a_ for a_, v_ in ok_arm.items() if not v_)
    # ... and by the shape of the reviewed code otherwise (template rules)
    chk.notes["wrap_ra_diff_semantic_analysis"] = why
    loops = [x for x in walk_no_nested(fi.node) if isinstance(x, ast.While)]
    desc = []
    for lp in loops:
        # the loop condition is either the comparison itself (scalar arm) or np.any(mask) with mask = (cmp) & finite (array arm)
        t = lp.test
        arm = "scalar"
        cmp_ = t if isinstance(t, ast.Compare) else None
        finite = None
        if cmp_ is None and isinstance(t, ast.Call) and call_name(t) == "any" and t.args and isinstance(t.args[0], ast.Name):
            arm = "array"
            mname = t.args[0].id
            defs = [s for s in walk_no_nested(fi.node) if isinstance(s, ast.Assign) and norm(s.targets[0]) == mname and s.lineno < lp.lineno]
            inner = [s for s in lp.body if isinstance(s, ast.Assign) and norm(s.targets[0]) == mname]
            last = max(defs, key=lambda s: s.lineno) if defs else None
            if last is not None and inner and norm(last.value) == norm(inner[-1].value) and isinstance(last.value, ast.BinOp) and isinstance(last.value.op, ast.BitAnd):
                parts = [last.value.left, last.value.right]
                cmp_ = next((p for p in parts if isinstance(p, ast.Compare)), None)
                finite = next((p for p in parts if isinstance(p, ast.Name)), None)
        step = None
        for s in lp.body:
            if isinstance(s, ast.Assign) and isinstance(s.value, ast.BinOp) and const_value(s.value.right) in (360, 360.0):
                step = ("+" if isinstance(s.value.op, ast.Add) else "-", norm(s.targets[0]).split("[")[0], norm(s.value.left).split("[")[0])
            if isinstance(s, ast.AugAssign) and const_value(s.value) in (360, 360.0):
                step = ("+" if isinstance(s.op, ast.Add) else "-", norm(s.target).split("[")[0], norm(s.target).split("[")[0])
        if cmp_ is not None and step is not None:
            desc.append((arm, type(cmp_.ops[0]).__name__, const_value(cmp_.comparators[0]), step[0], step[1] == step[2] == norm(cmp_.left), finite is not None))
    want = {("scalar", "Lt", -180.0, "+"), ("scalar", "Gt", 180.0, "-"), ("array", "Lt", -180.0, "+"), ("array", "Gt", 180.0, "-")}
    got = {(a, o, float(v) if v is not None else None, s) for a, o, v, s, same, fin in desc if same}
    chk.ob("R10.11", "wrap_ra_diff::fold-structure", got == want and len(desc) == 4, fi.where(),
           "both arms add 360 while below -180 and subtract 360 while above 180, re-testing after each step (found %s)" % sorted(desc))
    if res is not None:
        return          # the behaviour on non-finite input was decided above
    chk.ob("R10.11", "wrap_ra_diff::array-loops-ignore-non-finite", all(fin for a, o, v, s, same, fin in desc if a == "array") and any(a == "array" for a, *_ in desc), fi.where(),
           "the array loops mask out non-finite entries (an infinite difference would never leave the loop)")
    sc = [x for x in walk_no_nested(fi.node) if isinstance(x, ast.If) and "isfinite" in norm(x.test) and isinstance(x.test, ast.UnaryOp)]
    chk.ob("R10.11", "wrap_ra_diff::scalar-non-finite-returned", len(sc) == 1 and any(isinstance(s, ast.Return) for s in sc[0].body), fi.where(), "a non-finite scalar is returned unchanged before the loops")


# ---------------------------------------------------------------------------
# R10.12 inverse polynomial fit
# ---------------------------------------------------------------------------
def invfit(chk, repo):
    u, v, xc, yc = symx.symbols("u", "v", "xc", "yc")
    mk = _mf(repo, "make_amatrix")
    pk = _mf(repo, "pack_coeffs")
    chk.analysed_unit(mk.qualname)
    chk.analysed_unit(pk.qualname)
    for const in (True, False):
        se = _SE(repo)
        se2 = _SE(repo)
        try:
            se.run(mk, {"u": u, "v": v, "order": sp.Integer(3)}, {"constant": const})
            r = se2.run(pk, {"xcoeffs": xc, "ycoeffs": yc, "porder": sp.Integer(3)}, {"constant": const})
        except symx.Unsupported as e:
            chk.ob("R10.12", "make_amatrix/pack_coeffs[constant=%s]::term-enumeration-agrees" % const, None, mk.where(), "not evaluable in the term domain: %s" % e)
            continue
        rows = {}
        for (arr, idx), val in se.last_env.elem.items():
            if arr == "amatrix" and isinstance(idx, tuple):
                rows[int(idx[0])] = val
        if const:
            rows.setdefault(0, sp.Integer(1))     # the matrix starts as ones: row 0 is the constant term
        ok = isinstance(r, tuple) and len(r) == 2 and symx._is_matrix(r[0]) and symx._is_matrix(r[1])
        n_terms = 10 if const else 9
        good = ok and len(rows) == n_terms
        bad = []
        if good:
            for k, term in sorted(rows.items()):
                # where does coefficient k land?
                pos = [(i, j) for i in range(4) for j in range(4) if r[0][i][j] == sp.Function("AT")(xc, sp.Integer(k))]
                posy = [(i, j) for i in range(4) for j in range(4) if r[1][i][j] == sp.Function("AT")(yc, sp.Integer(k))]
                if len(pos) != 1 or pos != posy or sp.simplify(term - u ** pos[0][0] * v ** pos[0][1]) != 0:
                    good = False
                    bad.append((k, str(term), pos))
        chk.ob("R10.12", "make_amatrix/pack_coeffs[constant=%s]::term-enumeration-agrees" % const, bool(good), mk.where(),
               "row k of the design matrix is u^i v^j exactly when coefficient k is packed into [i, j] (%d terms)%s" % (n_terms, "" if good else " -- mismatch %s" % bad[:3]))
    inv = _mf(repo, "invert_for_coeffs")
    se = _SE(repo)
    A, X, Y = symx.symbols("A", "X", "Y")
    r = se.run(inv, {"amatrix": A, "x": X, "y": Y}, {"lsolve": True})
    IN, SO = sp.Function("INNER"), sp.Function("SOLVE")
    ok = isinstance(r, tuple) and r == (SO(IN(A, A), IN(A, X)), SO(IN(A, A), IN(A, Y)))
    chk.ob("R10.12", "invert_for_coeffs::normal-equations", ok, inv.where(), "coefficients solve (A A^T) c = A x and (A A^T) c = A y in (x, y) order (got %s)" % str(r)[:160])
    # Invert2DPolynomial: who gets what.  The three stages are summarised (not entered) and the arguments they are bound to are compared
    i2 = _mf(repo, "Invert2DPolynomial")
    px, py, po = symx.symbols("px", "py", "po")
    AM, XC, YC = symx.symbols("AMATRIX", "XCOEFFS", "YCOEFFS")
    PA, PB = M("PACKED_A"), M("PACKED_B")
    for const in (True, False):
        se = _SE(repo)
        se.summaries = {_mf(repo, "make_amatrix").qualname: lambda b: AM, _mf(repo, "invert_for_coeffs").qualname: lambda b: (XC, YC), _mf(repo, "pack_coeffs").qualname: lambda b: (PA, PB)}
        key = "Invert2DPolynomial[constant=%s]::roles" % const
        try:
            r = se.run(i2, {"u": u, "v": v, "x": px, "y": py, "porder": po}, {"pack": True, "constant": const})
        except symx.Unsupported as e:
            chk.ob("R10.12", key, None, i2.where(), "not evaluable: %s" % e)
            continue
        got = {q.rsplit(".", 1)[1]: [b for q2, b, _ in se.calls if q2 == q] for q in se.summaries}
        if any(len(v_) != 1 for v_ in got.values()):
            chk.ob("R10.12", key, None, i2.where(), "the design-matrix / solve / pack stages are not each called once (%s)" % {k_: len(v_) for k_, v_ in got.items()})
            continue
        a_, s_, p_ = got["make_amatrix"][0], got["invert_for_coeffs"][0], got["pack_coeffs"][0]
        same = lambda b, **want: all(k_ in b and (b[k_] is w or b[k_] == w) for k_, w in want.items())
        ok = same(a_, u=u, v=v, order=po, constant=const) and same(s_, amatrix=AM, x=px, y=py) and same(p_, xcoeffs=XC, ycoeffs=YC, porder=po, constant=const) and r == (PA, PB)
        chk.ob("R10.12", key, bool(ok), i2.where(),
               "design matrix from the source coordinates (u, v), constraints (x, y) in order, coefficients packed with the same order, `constant` forwarded to both the "
               "design matrix and the packing%s" % ("" if ok else " (got make_amatrix%s invert_for_coeffs%s pack_coeffs%s -> %s)" % (a_, s_, p_, str(r)[:80])))
    # what is fitted, over which region: the two fit drivers are run in the term domain with the grid maker, the two conversions and the
    # fitter summarised; the values these are called with say what is fitted to what, whatever locals or helpers carry them
    for name, model in (("InvertPVDistortion", "scamp"), ("InvertSipDistortion", "sip")):
        fi = repo.func(W + name)
        chk.analysed_unit(fi.qualname)
        _fit_driver(chk, repo, fi, model)


def _flag(b):
    return sp.Symbol("TRUE" if b else "FALSE") if isinstance(b, bool) else b


def _eq(a, b):
    try:
        return bool(symx._is_expr(a) and symx._is_expr(b) and symx.equal(a, b)[0])
    except Exception:
        return False


def _fit_driver(chk, repo, fi, model):
    name = fi.name
    st, (cx, cy), cd, ci = _state("-TPV" if model == "scamp" else "-TAN-SIP", model)
    nx, ny, inc, fac, gx, gy = symx.symbols("naxis1", "naxis2", "order_increase", "fac", "gx", "gy")
    st["self.naxis"] = (nx, ny)
    AI, BI = M("AINV"), M("BINV")
    se = _mkse(repo, ("_compare_inversion",))

    def sky(b):
        return tuple(sp.Function("sky_%d" % i)(b["x"], b["y"], _flag(b["distort"])) for i in (0, 1))

    def pix(b):
        return tuple(sp.Function("pix_%d" % i)(b["longitude"], b["latitude"], _flag(b["distort"]), _flag(b["find"])) for i in (0, 1))
    GRID, FIT = _mf(repo, "make_xy_grid").qualname, _mf(repo, "Invert2DPolynomial").qualname
    se.summaries = {GRID: lambda b: (gx, gy), FIT: lambda b: (AI, BI), W + "image2sky": sky, W + "sky2image": pix}
    kf, kg = "%s::what-is-fitted" % name, "%s::fit-grid-covers-the-image" % name
    try:
        se.run(fi, dict(st), {k_: v_ for k_, v_ in (("order_increase", inc), ("fac", fac)) if k_ in fi.params})
    except (symx.Unsupported, KeyError, TypeError, IndexError) as e:
        for k_ in (kf, kg):
            chk.ob("R10.12", k_, None, fi.where(), "the fit driver is not evaluable in the term domain: %s" % e)
        return
    grids = [(b, top) for q, b, top in se.calls if q == GRID]
    fits = [(b, top) for q, b, top in se.calls if q == FIT]
    # region
    if len(grids) != 1 or not all(isinstance(grids[0][0].get(k_), (tuple, list)) and len(grids[0][0][k_]) == 2 for k_ in ("xrang", "yrang")):
        chk.ob("R10.12", kg, None, fi.where(), "no single make_xy_grid(n, xrang, yrang) call with two-element ranges found (%d calls)" % len(grids))
    else:
        b = grids[0][0]
        off = (cx, cy) if model == "scamp" else (0, 0)
        want = {"xrang": (1 - off[0], nx - off[0]), "yrang": (1 - off[1], ny - off[1])}
        ok = grids[0][1] and all(_eq(g_, w_) for k_ in want for g_, w_ in zip(b[k_], want[k_]))
        chk.ob("R10.12", kg, bool(ok), fi.where(), "the fit grid spans pixels 1..NAXIS1 in x and 1..NAXIS2 in y%s (x range %s, y range %s)"
               % (", as offsets from CRPIX" if model == "scamp" else "", tuple(b["xrang"]), tuple(b["yrang"])))
    # roles
    if len(fits) != 1:
        chk.ob("R10.12", kf, None, fi.where(), "no single Invert2DPolynomial call found (%d calls)" % len(fits))
        return
    b, top = fits[0]
    D = st["self.distort"]
    if model == "scamp":
        U, V = _mul(cd, gx, gy)
        want = {"u": P(M("a"), U, V), "v": P(M("b"), U, V), "x": U, "y": V}
        what = "fits (P_a(u,v), P_b(u,v)) -> (u, v) with (u, v) = CD (pixel offsets of the grid), order raised by order_increase, with a constant term"
        wconst = True
    else:
        I = sky({"x": gx, "y": gy, "distort": True})
        S = pix({"longitude": I[0], "latitude": I[1], "distort": False, "find": False})
        want = {"u": S[0] - cx, "v": S[1] - cy, "x": gx - S[0], "y": gy - S[1]}
        what = "fits undistorted offsets (sky2image(image2sky(x, y), distort=False, find=False) - CRPIX) -> (x - xback, y - yback) without a constant term "                "(SIP adds the polynomial to the offsets), order raised by order_increase"
        wconst = False
    bad = [k_ for k_, w_ in want.items() if not _eq(b.get(k_), w_)]
    if not _eq(b.get("porder"), (N - 1) + inc):
        bad.append("porder")
    if b.get("constant") is not wconst:
        bad.append("constant")
    if b.get("pack") is not True:
        bad.append("pack")
    if not top:
        bad.append("(call is conditional)")
    Dn = se.last_env.vars.get("self.distort")
    if not (isinstance(Dn, dict) and Dn.get("ap") == AI and Dn.get("bp") == BI):
        bad.append("(results are not stored as self.distort['ap'], self.distort['bp'] in this order)")
    chk.ob("R10.12", kf, not bad, fi.where(), what + ("" if not bad else " -- differs in: %s (got %s)" % (", ".join(bad), {k_: str(v_)[:70] for k_, v_ in b.items() if k_ in bad})))


# ---------------------------------------------------------------------------
# R10.12 (continued) the lazily fitted inverse: which fit driver runs, with which options, over which image
# ---------------------------------------------------------------------------
_FIT_DRIVERS = {"scamp": "InvertPVDistortion", "sip": "InvertSipDistortion"}


def _opt_term(v):
    """an option value as a term (booleans become the TRUE / FALSE symbols), or None when it is not a value of the term domain"""
    if isinstance(v, bool):
        return sp.Symbol("TRUE" if v else "FALSE")
    if isinstance(v, int):
        return sp.Integer(v)
    if symx._is_expr(v):
        return symx._as_expr(v)
    return None


def _driver_calls(repo, fi, st, args):
    """run `fi` in the term domain with the two fit drivers summarised (not entered): -> [(driver name, {parameter: value}, unconditional)]
    in call order, and the evaluator (for the state it leaves)."""
    se = _mkse(repo, ())
    quals = {W + n: n for n in _FIT_DRIVERS.values() if repo.has(W + n)}
    se.summaries = {q: (lambda b: sp.Symbol("RMS")) for q in quals}
    se.run(fi, dict(st), args)
    return [(quals[q], b, top) for q, b, top in se.calls if q in quals], se


def lazyfit(chk, repo):
    """The inverse polynomial that sky2image(find=False) uses is fitted on first use.  Whatever dispatches to the fit driver of the
    header's distortion model must hand every option to the parameter of that driver with the same name -- the drivers do not list
    their parameters in the same order -- and the fit that the first inverse use triggers must raise the order by what the object
    then records as the order of its inverse (ap_order - a_order)."""
    u, v = symx.symbols("u", "v")
    missing = [n for n in _FIT_DRIVERS.values() if not repo.has(W + n)]
    # (a) the public dispatcher: options reach the same-named parameters of the driver of the model in use
    opts = {"fac": sp.Symbol("opt_fac"), "order_increase": sp.Symbol("opt_order_increase"), "verbose": sp.Symbol("opt_verbose"), "doplot": sp.Symbol("opt_doplot")}
    disp = repo.func(W + "InvertDistortion") if repo.has(W + "InvertDistortion") else None
    for model, drv in sorted(_FIT_DRIVERS.items()):
        key = "InvertDistortion[%s]::options-reach-the-fit-driver" % model
        what = "for a %s model the fit is done by %s and each option (fac, order_increase, verbose, doplot) is bound to that driver's parameter of the same name" % (model, drv)
        if disp is None or missing:
            chk.ob("R10.12", key, None, "esutil/wcsutil.py", what + " -- %s not found" % ("InvertDistortion" if disp is None else ", ".join(missing)))
            continue
        st, _, _, _ = _state("-TPV" if model == "scamp" else "-TAN-SIP", model)
        given = {k_: v_ for k_, v_ in opts.items() if k_ in disp.params}
        try:
            calls, _ = _driver_calls(repo, disp, st, given)
        except (symx.Unsupported, KeyError, TypeError, IndexError, AttributeError) as e:
            chk.ob("R10.12", key, None, disp.where(), what + " -- the dispatcher is not evaluable in the term domain: %s" % e)
            continue
        if len(calls) != 1:
            chk.ob("R10.12", key, (False if (not calls or all(c[0] != drv for c in calls)) else None), disp.where(), what + " -- %d driver calls reached (%s)" % (len(calls), ", ".join(c[0] for c in calls)))
            continue
        name, b, top = calls[0]
        tgt = repo.func(W + name)
        bad = []
        if name != drv:
            bad.append("the driver called is %s" % name)
        if not top:
            bad.append("the call is conditional")
        unk = False
        for p_ in [q_ for q_ in tgt.params[1:] if not q_.startswith("*")]:
            got = b.get(p_)
            if p_ in given:
                if not (got is given[p_] or got == given[p_]):
                    src = [k_ for k_, s_ in given.items() if got is s_ or got == s_]
                    bad.append("parameter `%s` of %s receives %s" % (p_, name, ("the value of `%s`" % src[0]) if src else str(got)[:60]))
            else:
                # an option the dispatcher does not have: the driver's own default
                dv = _opt_term(const_value(tgt.defaults[p_])) if p_ in tgt.defaults else None
                gv = _opt_term(got)
                if dv is None or gv is None:
                    unk = True
                elif dv != gv:
                    bad.append("parameter `%s` of %s receives %s (its default is %s)" % (p_, name, gv, dv))
        chk.ob("R10.12", key, (None if (unk and not bad) else not bad), disp.where(), what + ("" if not bad else " -- " + "; ".join(bad)))
    # (b) the first inverse use: Distort(inverse=True) on an object whose inverse has not been fitted
    fi = repo.func(W + "Distort")
    for model, drv in sorted(_FIT_DRIVERS.items()):
        key = "Distort[%s,inverse=True,first-use]::fit-order" % model
        what = "the first inverse use of a %s model fits the inverse once with %s, raising the order by what the object records (ap_order - a_order, bp_order - b_order)" % (model, drv)
        if missing:
            chk.ob("R10.12", key, None, fi.where(), what + " -- %s not found" % ", ".join(missing))
            continue
        st, _, _, _ = _state("-TPV" if model == "scamp" else "-TAN-SIP", model, inverse_ready=False)
        ao, bo = sp.Symbol("a_order"), sp.Symbol("b_order")
        st["self.distort"].update({"a_order": ao, "b_order": bo, "ap_order": sp.Symbol("ap_order_header"), "bp_order": sp.Symbol("bp_order_header")})
        try:
            calls, se = _driver_calls(repo, fi, st, {"x": u, "y": v, "inverse": True})
        except (symx.Unsupported, KeyError, TypeError, IndexError, AttributeError) as e:
            chk.ob("R10.12", key, None, fi.where(), what + " -- not evaluable in the term domain: %s" % e)
            continue
        D = se.last_env.vars.get("self.distort")
        rec = [(D.get("ap_order"), ao), (D.get("bp_order"), bo)] if isinstance(D, dict) else []
        incs = []
        for got, base in rec:
            d_ = sp.simplify(symx._as_expr(got) - base) if symx._is_expr(got) else None
            if d_ is not None and d_.is_Integer:
                incs.append(d_)
        if len(calls) != 1 or calls[0][0] != drv or len(incs) != 2 or incs[0] != incs[1]:
            ok = False if (len(calls) == 1 and calls[0][0] != drv) or (not calls) else None
            chk.ob("R10.12", key, ok, fi.where(), what + " -- driver calls reached: %s; recorded order increases: %s" % ([c[0] for c in calls] or "none", incs or "not recognised"))
            continue
        got = _opt_term(calls[0][1].get("order_increase"))
        chk.ob("R10.12", key, (None if got is None else bool(got == incs[0] and calls[0][2])), fi.where(),
               what + " (the driver receives order_increase=%s, the object records an increase of %s%s)" % (calls[0][1].get("order_increase"), incs[0], "" if calls[0][2] else "; the call is conditional"))


# ---------------------------------------------------------------------------
# R10.6 (continued) the image size the inverse fit covers
# ---------------------------------------------------------------------------
def imagesize(chk, repo):
    """`self.naxis` is the size of the image: NAXIS1/NAXIS2, except in the header of a tile-compressed image (FITS tiled image
    compression convention), where NAXISn describe the binary table that stores the tiles and ZNAXIS1/ZNAXIS2 hold the size of the image.
    The fit drivers fit the inverse polynomial over pixels 1..naxis (R10.12 fit-grid-covers-the-image), so this is what 'over the whole
    image' rests on."""
    methods = _methods(repo)
    writers = sorted(n for n, f in methods.items() if any(a == "naxis" for _, a, _ in _state_writes(f)[0]))
    key = "image-size"
    what = "self.naxis = (ZNAXIS1, ZNAXIS2) when the header has them (tile-compressed image: NAXISn are the dimensions of the table of tiles), else (NAXIS1, NAXIS2)"
    if len(writers) != 1 or writers[0] == "__init__":
        chk.ob("R10.6", key + "::single-writer", None, "esutil/wcsutil.py", what + " -- the method that sets self.naxis is not recognised (%s)" % (writers or "none"))
        return
    fi = methods[writers[0]]
    chk.analysed_unit(fi.qualname)
    n1, n2, z1, z2 = symx.symbols("hdr_naxis1", "hdr_naxis2", "hdr_znaxis1", "hdr_znaxis2")
    cases = (("plain", {"naxis1": n1, "naxis2": n2}, (n1, n2)),
             ("tile-compressed", {"naxis1": n1, "naxis2": n2, "znaxis1": z1, "znaxis2": z2}, (z1, z2)))
    for tag, wcs, want in cases:
        k_ = "%s::%s[%s]" % (fi.name, key, tag)
        wcs = dict(wcs, naxis=sp.Integer(2), bitpix=sp.Symbol("hdr_bitpix"), ctype1="RA---TAN", ctype2="DEC--TAN")
        se = _SE(repo, inline_depth=6)
        try:
            se.run(fi, {"self.wcs": wcs}, {})
            got = se.last_env.vars.get("self.naxis")
        except (symx.Unsupported, KeyError, TypeError, IndexError, AttributeError) as e:
            chk.ob("R10.6", k_, None, fi.where(), what + " -- not evaluable in the term domain: %s" % e)
            continue
        if not (isinstance(got, (tuple, list)) and len(got) == 2 and all(symx._is_expr(g_) for g_ in got)):
            chk.ob("R10.6", k_, None, fi.where(), what + " -- self.naxis is not a pair of header values (%s)" % str(got)[:120])
            continue
        ok = all(_eq(g_, w_) for g_, w_ in zip(got, want))
        chk.ob("R10.6", k_, bool(ok), fi.where(), what + " (header with %s: got %s)" % (", ".join(sorted(k for k in wcs if "naxis" in k and k != "naxis")), tuple(got)))


# ---------------------------------------------------------------------------
# helpers must not modify their inputs (the term domain above ignores aliasing)
# ---------------------------------------------------------------------------
def noalias(chk, repo):
    from vcheck import effects
    from checks.C15 import analyse_with_arrays
    eng = effects.Effects(repo, {})
    scope = [(W + "Distort", ["x", "y"], [{"inverse": False}, {"inverse": True}]), (_mf(repo, "Apply2DPolynomial").qualname, ["a", "x", "y"], [{}]),
             (W + "ApplyCDMatrix", ["x", "y"], [{"inverse": False}, {"inverse": True}]), (W + "image2sph", ["x", "y"], [{}]),
             (W + "sph2image", ["longitude", "latitude"], [{}]), (W + "_rotate", ["longitude", "latitude", "r"], [{}]), (W + "Rotate", ["lon", "lat"], [{}])]
    for q, params, variants in scope:
        fi = repo.func(q)
        for flags in variants:
            s = analyse_with_arrays(eng, fi, params, flags)
            for p in params:
                sites = [st for st in s.mut.get(p, []) if st.kind in ("data", "meta")]
                fl = ",".join("%s=%s" % kv for kv in sorted(flags.items()))
                chk.ob("R10.13", "%s(%s)%s" % (fi.name, p, "[%s]" % fl if fl else ""), not sites, sites[0].where() if sites else fi.where(),
                       "input `%s` is not modified%s (each stage re-uses its inputs after computing the first output, and callers re-use them after the call)"
                       % (p, "" if not sites else ": " + sites[0].describe()))
