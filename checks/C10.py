"""C10 -- WCS pixel<->sky: definite assignment over all option combinations, the
convention's order of operations, formula conformance level by level against
the FITS-WCS papers, coefficient tables, object-state discipline, root finder."""
import ast
import itertools

import sympy as sp

from vcheck import rules, symx
from vcheck.core import PyRepo, AnalysisError, call_name, const_value, dotted_name, kwarg, norm, walk_no_nested
from vcheck.rules import cfg_of

MANIFEST = dict(
    text="Structural rules and formula conformance by symbolic normal forms (not numerical testing; nothing is executed): "
         "(1) definite assignment of every local in image2sky/sky2image for all projection x distort x find x model-present "
         "combinations (flag-specialised CFG); (2) the forward and inverse chains are abstractly interpreted to terms for every "
         "consistent (projection, model, distort) combination and compared with the convention: TAN/TPV = CD matrix then PV "
         "polynomial (0*x + P), SIP = x + P then CD matrix, inverse mirrored with the inverse coefficients and CD^-1; "
         "distort=False must not reach Distort or the root finder; (3) tangent-plane deprojection/projection (phi = atan2(x,-y), "
         "theta = atan(180/(pi R)), R_theta = (180/pi)/tan theta, x = R sin phi, y = -R cos phi), the spherical rotation (reverse "
         "= R, forward = R^T), the rotation matrix vs Calabretta & Greisen eq. 2/5, pole = CRVAL for theta0 = 90, longitude fold "
         "into [0,360) with >= at the open end, scalar and array arms equal as terms; (4) PV index -> power table vs the TPV "
         "convention (end to end: header keys -> matrix -> polynomial), SIP A_p_q -> u^p v^q, prefix table per projection, "
         "coefficient count drives model detection; (5) constructor wiring (CRPIX, CD, CD^-1, pole, defaults LONPOLE=180, "
         "theta0=90); (6) object-state discipline: every attribute written by a conversion call is a lazy cache behind a "
         "set-before-compute flag or scratch written before every read; (7) root finder: target/guess/solver roles, RA-wrapped "
         "longitude residual, tolerance forwarded; (8) jacobian = central differences with wrapped RA difference; RA-difference "
         "wrap structure; inverse-fit term enumeration agrees between design matrix and coefficient packing; helpers do not "
         "modify their inputs.",
    note="Not decided: the 1e-9 degree / 1e-6 pixel tolerances, convergence of fsolve, accuracy of the fitted inverse polynomial, "
         "numpy broadcasting. Assumes theta0 = 90 (TAN family, the property's quantifier). Trusted: sympy normaliser, CPython ast.",
    technique="static analysis: flag-specialised CFG dataflow (definite assignment, dominance), abstract interpretation over a symbolic "
              "term domain with normal-form comparison against transcribed FITS-WCS definitions, object-state (typestate) rules over the class's self-call graph",
)

MOD = "esutil.wcsutil"
W = MOD + ".WCS."
PROJS = ("-TAN", "-TPV", "-TAN-SIP")
MODEL_OF = {"-TAN": "scamp", "-TPV": "scamp", "-TAN-SIP": "sip"}
HASMODEL = "self.distort['name'] != 'none'"
N = 4  # coefficient matrices are (order+1) x (order+1) with order 3


def M(name, k=N):
    return tuple(tuple(sp.Symbol("%s_%d_%d" % (name, i, j)) for j in range(k)) for i in range(k))


def P(mat, u, v):
    return sum(mat[i][j] * u ** i * v ** j for i in range(len(mat)) for j in range(len(mat[0])))


# rules that keep their verdict however the code is laid out (decided by term equality, effect analysis or dominance over
# resolved calls); every other rule of this check is a template rule (vcheck.core.Check.obt)
SEMANTIC = ('R10.1', 'R10.2', 'R10.3', 'R10.4', 'R10.5', 'R10.6', 'R10.7', 'R10.8', 'R10.9', 'R10.10', 'R10.12', 'R10.13')


def run(chk):
    repo = PyRepo()
    chk.set_templates(repo, semantic=SEMANTIC)
    chk.explanation = MANIFEST["text"]
    chk.trusted = ["sympy normaliser", "CPython ast", "networkx dominators"]
    chk.assume("theta0 = 90 (zenithal/TAN family): the general GetPole branches are outside the property's quantifier")
    chk.floor = 145
    for q in ("image2sky", "sky2image", "get_jacobian", "Distort", "ApplyCDMatrix", "image2sph", "sph2image", "Rotate", "_rotate",
              "CreateRotationMatrix", "GetPole", "ExtractPVCoeffs", "ExtractSIPCoeffs", "ExtractDistortionModel", "ExtractFromWCS",
              "_findxy", "_findxy_one", "_lonlatdiff", "__init__"):
        chk.analysed_unit(repo.func(W + q).qualname)
    unbound = defassign(chk, repo)
    chains(chk, repo, unbound)
    flags_honoured(chk, repo)
    tangent(chk, repo)
    rotation(chk, repo)
    coeffs(chk, repo)
    wiring(chk, repo)
    state(chk, repo)
    rootfind(chk, repo)
    jacobian(chk, repo)
    wrapdiff(chk, repo)
    invfit(chk, repo)
    noalias(chk, repo)


# ---------------------------------------------------------------------------
# R10.1 definite assignment
# ---------------------------------------------------------------------------
def _projvar(fi):
    for x in walk_no_nested(fi.node):
        if isinstance(x, ast.Assign) and len(x.targets) == 1 and isinstance(x.targets[0], ast.Name) and "self.projection" in norm(x.value):
            return x.targets[0].id
    raise AnalysisError("%s: no local holding the projection name" % fi.qualname)


def defassign(chk, repo):
    """every local of image2sky / sky2image is assigned before use for all projection x model x distort x find combinations.
    Decided twice: by enumerating the option combinations in the term evaluator (a read of an unassigned local on a concrete path
    stops it with 'unknown name'), which does not depend on how the options are tested, and - when the function keeps the
    projection name in a local that its tests compare with literals - on the flag-specialised CFG as well.
    Returns the set of function names with a finding."""
    import re
    bad = set()
    x, y, lon, lat = symx.symbols("x", "y", "lon", "lat")
    for name, opts in (("image2sky", ("distort",)), ("sky2image", ("distort", "find"))):
        fi = repo.func(W + name)
        findings = {}
        ncomb = 0
        for proj in PROJS:
            for model in ("none", "scamp", "sip"):
                for vals in itertools.product((True, False), repeat=len(opts)):
                    st, _, _, _ = _state(proj, model)
                    se = _mkse(repo, ("image2sph", "sph2image", "_findxy", "Distort", "ApplyCDMatrix"))
                    args = dict(st, x=x, y=y) if name == "image2sky" else dict(st, longitude=lon, latitude=lat)
                    ncomb += 1
                    try:
                        se.run(fi, args, dict(zip(opts, vals)))
                    except symx.Unsupported as e:
                        m = re.search(r"unknown name `(\w+)` at \S+:(\d+)", str(e))
                        if not m:
                            raise
                        var, line = m.group(1), int(m.group(2))
                        stmt = next((norm(z).split("\n")[0][:80] for z in walk_no_nested(fi.node) if isinstance(z, ast.stmt) and getattr(z, "lineno", -1) == line), "line %d" % line)
                        f = findings.setdefault("%s::use-before-assignment@%s" % (name, stmt), (line, set(), []))
                        f[1].add(var)
                        f[2].append("projection=%s model=%s %s" % (proj, model, " ".join("%s=%s" % kv for kv in zip(opts, vals))))
        # flag-specialised CFG (only when the projection name is held in a local)
        try:
            pv = _projvar(fi)
        except AnalysisError:
            pv = None
        if pv is not None:
            cfg = cfg_of(fi)
            for proj in PROJS:
                for model in (True, False):
                    for vals in itertools.product((True, False), repeat=len(opts)):
                        flags = dict(zip(opts, vals))
                        flags[pv] = proj
                        view = cfg.specialise(flags=flags, assume={HASMODEL: model})
                        IN = view.definitely_assigned()
                        allv = set(cfg_params(cfg))
                        for n in view.nodes():
                            allv |= set(cfg.defs_uses(n)[0])
                        ncomb += 1
                        for n in view.nodes():
                            d, u = cfg.defs_uses(n)
                            for v in u:
                                if v in allv and v not in IN[n.id] and n.ast is not None:
                                    key = "%s::use-before-assignment@%s" % (name, norm(n.ast).split("\n")[0][:80])
                                    f = findings.setdefault(key, (n.ast.lineno, set(), []))
                                    f[1].add(v)
                                    c = "projection=%s model-present=%s %s" % (proj, model, " ".join("%s=%s" % kv for kv in zip(opts, vals)))
                                    if c not in f[2]:
                                        f[2].append(c)
        for key, (line, vs, combos) in findings.items():
            bad.add(name)
            chk.ob("R10.1", key, False, "%s:%d" % (fi.where().rsplit(":", 1)[0], line),
                   "local(s) %s read but not assigned on every path for: %s" % (", ".join("`%s`" % v for v in sorted(vs)), "; ".join(combos[:6]) + (" ..." if len(combos) > 6 else "")))
        if not findings:
            chk.ob("R10.1", "%s::definite-assignment" % name, True, fi.where(),
                   "every local is assigned before use for all projection x model x %s combinations (%d paths)" % (" x ".join(opts), ncomb))
    return bad


def cfg_params(cfg):
    from vcheck.cfg import func_params
    return func_params(cfg.fn)


# ---------------------------------------------------------------------------
# R10.2 / R10.5a chains
# ---------------------------------------------------------------------------
def _state(proj, model, inverse_ready=True):
    cx, cy = symx.symbols("cx", "cy")
    cd = tuple(tuple(sp.Symbol("cd%d%d" % (i, j)) for j in (1, 2)) for i in (1, 2))
    ci = tuple(tuple(sp.Symbol("ci%d%d" % (i, j)) for j in (1, 2)) for i in (1, 2))
    st = {"self.crpix": (cx, cy), "self.cd": cd, "self.cdinv": ci, "self.projection": proj, "self._inverse_computed": inverse_ready,
          "self.distort": {"name": model, "a": M("a"), "b": M("b"), "ap": M("ap"), "bp": M("bp")}}
    return st, (cx, cy), cd, ci


def _mul(m, u, v):
    return m[0][0] * u + m[0][1] * v, m[1][0] * u + m[1][1] * v


def _mkse(repo, opaque, **kw):
    se = symx.SymEval(repo, opaque={W + o for o in opaque}, inline_depth=6, **kw)
    se.assume["text:a[ix, iy] != 0.0"] = True     # the zero-coefficient skip in Apply2DPolynomial only saves work
    return se


def chains(chk, repo, unbound):
    x, y, lon, lat = symx.symbols("x", "y", "lon", "lat")
    combos = [("-TAN", "none"), ("-TAN", "scamp"), ("-TPV", "none"), ("-TPV", "scamp"), ("-TAN-SIP", "none"), ("-TAN-SIP", "sip")]
    fi = repo.func(W + "image2sky")
    for proj, model in combos:
        for distort in (True, False):
            tag = "image2sky[%s,model=%s,distort=%s]" % (proj, model, distort)
            st, (cx, cy), cd, ci = _state(proj, model)
            se = _mkse(repo, ("image2sph",))
            try:
                r = se.run(fi, dict(st, x=x, y=y), {"distort": distort})
            except symx.Unsupported as e:
                if "unknown name" in str(e) and "image2sky" in unbound:
                    chk.ob("R10.2", tag + "::forward-chain", True, fi.where(), "not evaluable: use-before-assignment already reported by R10.1 (%s)" % e, nontrivial=False)
                    continue
                raise
            dx, dy = x - cx, y - cy
            use = distort and model != "none"
            if proj in ("-TAN", "-TPV"):
                U, V = _mul(cd, dx, dy)
                if use:
                    U, V = P(st["self.distort"]["a"], U, V), P(st["self.distort"]["b"], U, V)
                what = "CD matrix first, then the PV polynomial replaces (xi, eta)" if use else "CD matrix only"
            else:
                if use:
                    dx, dy = dx + P(st["self.distort"]["a"], dx, dy), dy + P(st["self.distort"]["b"], dx, dy)
                U, V = _mul(cd, dx, dy)
                what = "SIP polynomial added to the pixel offsets first, then the CD matrix" if use else "CD matrix only"
            if isinstance(r, sp.Basic) and getattr(r, "func", None) is not None and r.func.__name__ == "image2sph" and len(r.args) == 2:
                # `return self.image2sph(u, v)`: the pair is returned as produced
                r = (sp.Function("image2sph_0")(*r.args), sp.Function("image2sph_1")(*r.args))
            ok = isinstance(r, tuple) and len(r) == 2 and all(getattr(t, "func", None) is not None and t.func.__name__ == "image2sph_%d" % i and len(t.args) == 2
                                                             for i, t in enumerate(r))
            why = ""
            if ok:
                for i, (got, want) in enumerate(zip(r[0].args, (U, V))):
                    eq, d = symx.equal(got, want)
                    if not eq:
                        ok = False
                        why = " (intermediate coordinate %d differs by %s)" % (i, str(d)[:200])
                if ok and r[1].args != r[0].args:
                    ok, why = False, " (longitude and latitude come from different intermediate coordinates)"
            else:
                why = " (result is not image2sph(u, v): %s)" % str(r)[:160]
            chk.ob("R10.2", tag + "::forward-chain", ok, fi.where(), "offset from CRPIX, %s, then image2sph%s" % (what, why))
    fi = repo.func(W + "sky2image")
    for proj, model in combos:
        for distort in (True, False):
            tag = "sky2image[%s,model=%s,distort=%s,find=False]" % (proj, model, distort)
            st, (cx, cy), cd, ci = _state(proj, model)
            se = _mkse(repo, ("sph2image",))
            r = se.run(fi, dict(st, longitude=lon, latitude=lat), {"distort": distort, "find": False})
            S = sp.Function("sph2image")(lon, lat)
            u0, v0 = sp.Function("sph2image_0")(*S.args), sp.Function("sph2image_1")(*S.args)
            use = distort and model != "none"
            if proj in ("-TAN", "-TPV"):
                u, v = u0, v0
                if use:
                    u, v = P(st["self.distort"]["ap"], u0, v0), P(st["self.distort"]["bp"], u0, v0)
                dx, dy = _mul(ci, u, v)
                what = "inverse PV polynomial, then CD^-1" if use else "CD^-1 only"
            else:
                u, v = _mul(ci, u0, v0)
                dx, dy = (u + P(st["self.distort"]["ap"], u, v), v + P(st["self.distort"]["bp"], u, v)) if use else (u, v)
                what = "CD^-1, then the inverse SIP polynomial added" if use else "CD^-1 only"
            ok = isinstance(r, tuple) and len(r) == 2
            why = ""
            if ok:
                for i, (got, want) in enumerate(zip(r, (dx + cx, dy + cy))):
                    eq, d = symx.equal(got, want)
                    if not eq:
                        ok = False
                        why = " (pixel coordinate %d differs by %s)" % (i, str(d)[:200])
            else:
                why = " (got %s)" % str(r)[:160]
            chk.ob("R10.2", tag + "::inverse-chain", ok, fi.where(), "sph2image, %s, plus CRPIX%s" % (what, why))
    # find=True with a model delegates to the root finder with the coordinates in order and the tolerance forwarded
    st, _, _, _ = _state("-TPV", "scamp")
    se = _mkse(repo, ("_findxy",))
    tol = sp.Symbol("xtol")
    r = se.run(fi, dict(st, longitude=lon, latitude=lat, xtol=tol), {"distort": True, "find": True})
    if isinstance(r, sp.Basic) and getattr(r, "func", None) is not None and r.func.__name__ == "_findxy":
        r = (sp.Function("_findxy_0")(*r.args), sp.Function("_findxy_1")(*r.args))
    ok = isinstance(r, tuple) and len(r) == 2 and all(getattr(t, "func", None) is not None and t.func.__name__ == "_findxy_%d" % i for i, t in enumerate(r)) \
        and r[0].args[:2] == (lon, lat) and (sp.Function("KW_xtol")(tol) in r[0].args or (len(r[0].args) > 2 and r[0].args[2] == tol))
    chk.ob("R10.2", "sky2image[model,distort=True,find=True]::root-finder", bool(ok), fi.where(),
           "with a distortion model and find=True the result is _findxy(longitude, latitude, xtol=xtol) (got %s)" % str(r)[:160])
    # find is irrelevant without a model
    for find in (True, False):
        st, (cx, cy), cd, ci = _state("-TAN", "none")
        se = _mkse(repo, ("sph2image", "_findxy"))
        r = se.run(fi, dict(st, longitude=lon, latitude=lat), {"distort": True, "find": find})
        ok = isinstance(r, tuple) and not any("_findxy" in str(t) for t in r)
        chk.ob("R10.2", "sky2image[-TAN,model=none,find=%s]::closed-form" % find, ok, fi.where(), "without a distortion model the closed-form inverse is used")


# ---------------------------------------------------------------------------
# R10.8 the distort option is honoured on every path
# ---------------------------------------------------------------------------
def flags_honoured(chk, repo):
    x, y, lon, lat = symx.symbols("x", "y", "lon", "lat")
    fi = repo.func(W + "sky2image")
    for proj, model in (("-TPV", "scamp"), ("-TAN-SIP", "sip")):
        for find in (True, False):
            st, _, _, _ = _state(proj, model)
            se = _mkse(repo, ("sph2image", "_findxy", "Distort"))
            r = se.run(fi, dict(st, longitude=lon, latitude=lat), {"distort": False, "find": find})
            txt = str(r)
            ok = "_findxy" not in txt and "Distort" not in txt
            chk.ob("R10.8", "sky2image[distort=False]::no-distortion-applied" if not ok else "sky2image[%s,distort=False,find=%s]::no-distortion-applied" % (proj, find),
                   ok, fi.where(),
                   "with distort=False the result must be the closed-form inverse of image2sky(distort=False): neither Distort nor the root finder "
                   "(which inverts the *distorted* transform) may be reached%s" % ("" if ok else " -- find=%s reaches %s" % (find, "_findxy" if "_findxy" in txt else "Distort")))
    fi = repo.func(W + "image2sky")
    for proj, model in (("-TPV", "scamp"),):
        st, _, _, _ = _state(proj, model)
        se = _mkse(repo, ("image2sph", "Distort"))
        r = se.run(fi, dict(st, x=x, y=y), {"distort": False})
        chk.ob("R10.8", "image2sky[%s,distort=False]::no-distortion-applied" % proj, "Distort" not in str(r), fi.where(), "distort=False never reaches Distort")
    fi = repo.func(W + "get_jacobian")
    calls = [c for c in walk_no_nested(fi.node) if isinstance(c, ast.Call) and dotted_name(c.func) == "self.image2sky"]
    ok = len(calls) >= 5 and all(kwarg(c, "distort") is not None and norm(kwarg(c, "distort")) == "distort" for c in calls)
    chk.ob("R10.8", "get_jacobian::distort-forwarded", ok, fi.where(), "all %d image2sky calls of the finite-difference stencil forward distort=distort" % len(calls))
    # the residual function of the root finder must use the full (distorted) transform
    fi = repo.func(W + "_lonlatdiff")
    calls = [c for c in walk_no_nested(fi.node) if isinstance(c, ast.Call) and dotted_name(c.func) == "self.image2sky"]
    ok = len(calls) == 1 and (kwarg(calls[0], "distort") is None or const_value(kwarg(calls[0], "distort")) is True) and len(calls[0].args) == 2
    chk.ob("R10.8", "_lonlatdiff::uses-distorted-transform", ok, fi.where(), "the root finder's residual evaluates image2sky with the distortion model on")


# ---------------------------------------------------------------------------
# R10.5b tangent plane <-> native sphere, range fold, scalar/array arms
# ---------------------------------------------------------------------------
RM = tuple(tuple(sp.Symbol("r%d%d" % (i, j)) for j in range(3)) for i in range(3))


def _mat(m):
    return sp.Function("MAT3x3")(*[e for row in m for e in row])


def _tr(m):
    return tuple(tuple(m[i][j] for i in range(3)) for j in range(3))


def _peel_default(t, depth=4):
    """innermost default value of nested Piecewise terms"""
    for _ in range(depth):
        if isinstance(t, sp.Piecewise):
            d = [v for v, c in t.args if c == sp.true]
            if not d:
                break
            t = d[0]
        else:
            break
    return t


def tangent(chk, repo):
    x, y, lon, lat = symx.symbols("x", "y", "lon", "lat")
    fi = repo.func(W + "image2sph")
    res = {}
    for scalar in (True, False):
        se = _mkse(repo, ("_rotate",), opaque_tests=scalar)
        res[scalar] = se.run(fi, {"x": x, "y": y, "self.rotation_matrix": RM}, {})
    r = res[False]
    rr = sp.sqrt(x ** 2 + y ** 2) * sp.pi / 180
    theta = sp.Piecewise((sp.atan(1 / rr), rr > 0), (sp.pi / 2, True))
    phi = sp.atan2(x, -y)
    ok = isinstance(r, tuple) and len(r) == 2
    if not ok:
        chk.ob("R10.5", "image2sph::returns-pair", False, fi.where(), "got %r" % (r,))
    else:
        want1 = sp.Function("_rotate_1")(phi, theta, _mat(_tr(RM)))
        want0 = sp.Function("_rotate_0")(phi, theta, _mat(_tr(RM)))
        got0 = _peel_default(r[0])
        okf = getattr(got0, "func", None) is not None and got0.func.__name__ == "_rotate_0" and len(got0.args) == 3
        chk.ob("R10.5", "image2sph::rotation-is-applied-in-reverse", okf and got0.args[2] == _mat(_tr(RM)), fi.where(),
               "native -> celestial uses the transposed (reverse) rotation matrix")
        if okf:
            eq, d = symx.equal(got0.args[0], phi)
            chk.ob("R10.5", "image2sph::native-longitude", eq, fi.where(), "phi = atan2(x, -y), converted to degrees and back to radians exactly once%s" % ("" if eq else " (differs by %s)" % str(d)[:160]))
            eq = got0.args[1] == theta or symx.equal(got0.args[1], theta)[0]
            chk.ob("R10.5", "image2sph::native-latitude", eq, fi.where(),
                   "theta = atan(180/(pi R)) for R > 0 and exactly 90 deg at the reference point (R = 0)%s" % ("" if eq else " (got %s)" % str(got0.args[1])[:200]))
        chk.ob("R10.5", "image2sph::latitude-from-rotation", r[1] == want1 or symx.equal(r[1], want1)[0], fi.where(), "latitude is the rotated latitude, unchanged")
    eq = all(a == b or symx.equal(a, b)[0] for a, b in zip(res[True], res[False])) if ok and isinstance(res[True], tuple) else False
    chk.ob("R10.7", "image2sph::scalar-and-array-arms-agree", eq, fi.where(), "the scalar arm and the array arm denote the same terms")
    _fold_sites(chk, fi, repo)
    # projection
    fi = repo.func(W + "sph2image")
    res = {}
    for scalar in (True, False):
        se = _mkse(repo, ("_rotate",), opaque_tests=scalar)
        res[scalar] = se.run(fi, {"longitude": lon, "latitude": lat, "self.rotation_matrix": RM}, {})
    r = res[False]
    d2r = sp.pi / 180
    a0 = (lon * d2r, lat * d2r, _mat(RM))
    ph, th = sp.Function("_rotate_0")(*a0) * d2r, sp.Function("_rotate_1")(*a0) * d2r
    Rth = (180 / sp.pi) / sp.tan(th)
    wantx = sp.Piecewise((Rth * sp.sin(ph), th > 0), (0, True))
    wanty = sp.Piecewise((-Rth * sp.cos(ph), th > 0), (0, True))
    ok = isinstance(r, tuple) and len(r) == 2
    if ok:
        for nm, got, want in (("x", r[0], wantx), ("y", r[1], wanty)):
            eq, d = symx.equal(got, want)
            if not eq and isinstance(got, sp.Piecewise) and len(got.args) == 2:
                eq = symx.equal(got.args[0][0], want.args[0][0])[0] and got.args[1][0] == 0 and \
                    symx.equal(got.args[0][1].lhs - got.args[0][1].rhs, th)[0] and isinstance(got.args[0][1], sp.StrictGreaterThan)
            chk.ob("R10.5", "sph2image::%s" % nm, bool(eq), fi.where(),
                   "%s = %s R_theta %s phi with R_theta = (180/pi)/tan(theta) for theta > 0, forward rotation (matrix not transposed), radians taken once%s"
                   % (nm, "" if nm == "x" else "-", "sin" if nm == "x" else "cos", "" if eq else " (got %s)" % str(got)[:200]))
    else:
        chk.ob("R10.5", "sph2image::returns-pair", False, fi.where(), "got %r" % (r,))
    eq = all(a == b or symx.equal(a, b)[0] for a, b in zip(res[True], res[False])) if ok and isinstance(res[True], tuple) else False
    chk.ob("R10.7", "sph2image::scalar-and-array-arms-agree", eq, fi.where(), "the scalar arm and the array arm denote the same terms")
    # _findxy: the array arm applies the scalar solver element by element with matched indices
    fi = repo.func(W + "_findxy")
    calls = [c for c in walk_no_nested(fi.node) if isinstance(c, ast.Call) and dotted_name(c.func) == "self._findxy_one"]
    ok = len(calls) == 2
    if ok:
        sc = [c for c in calls if all(isinstance(a, ast.Name) for a in c.args[:2])]
        ar = [c for c in calls if all(isinstance(a, ast.Subscript) for a in c.args[:2])]
        ok = len(sc) == 1 and len(ar) == 1 and [norm(a) for a in sc[0].args[:2]] == fi.params[1:3]
        if ok:
            a, b = ar[0].args[:2]
            ok = [norm(a.value), norm(b.value)] == fi.params[1:3] and norm(a.slice) == norm(b.slice)
            ok = ok and all(kwarg(c, "xtol") is not None and norm(kwarg(c, "xtol")) == "xtol" for c in calls)
    chk.ob("R10.7", "_findxy::array-arm-is-elementwise-scalar-arm", ok, fi.where(),
           "array input solves each (lon[i], lat[i]) with the same index and the same tolerance as the scalar arm")


def _fold_sites(chk, fi, repo=None):
    """longitude fold into [0,360): `< 0 -> += 360` and `>= 360 -> -= 360` for scalars and arrays; the upper test must be >=
    because adding 360 to a tiny negative longitude rounds to exactly 360.  The fold may live in image2sph itself or in a helper
    it calls; conditions may be if-tests (scalars), np.where index arrays or boolean masks (arrays)."""
    from vcheck.core import PyRepo
    repo = repo or PyRepo()
    fns = [fi]
    for c in walk_no_nested(fi.node):
        if isinstance(c, ast.Call):
            d = dotted_name(c.func)
            if d and d.startswith("self.") and repo.has(W + d[5:]):
                fns.append(repo.func(W + d[5:]))
            elif d and repo.has(MOD + "." + d):
                fns.append(repo.func(MOD + "." + d))
    sites = []
    for f in fns:
        cfg = cfg_of(f)
        view = cfg.view()
        for n in cfg.nodes:
            a = n.ast
            step = None
            if n.kind == "stmt" and isinstance(a, ast.AugAssign) and isinstance(a.op, (ast.Add, ast.Sub)) and const_value(a.value) in (360, 360.0):
                step = ("Add" if isinstance(a.op, ast.Add) else "Sub", a.target)
            elif n.kind == "stmt" and isinstance(a, ast.Assign) and isinstance(a.value, ast.BinOp) and isinstance(a.value.op, (ast.Add, ast.Sub)) \
                    and const_value(a.value.right) in (360, 360.0) and norm(a.value.left) == norm(a.targets[0]):
                step = ("Add" if isinstance(a.value.op, ast.Add) else "Sub", a.targets[0])
            if step is None:
                continue
            tgt = step[1]
            cond = None
            if isinstance(tgt, ast.Subscript):
                idx = norm(tgt.slice)
                for m in cfg.nodes:
                    if m.kind == "stmt" and isinstance(m.ast, ast.Assign) and m.ast.lineno < a.lineno and idx in [norm(t) for t in ast.walk(m.ast.targets[0]) if isinstance(t, ast.Name)]:
                        v = m.ast.value
                        if isinstance(v, ast.Call) and call_name(v) == "where" and v.args:
                            cond = v.args[0]
                        elif isinstance(v, ast.Compare):
                            cond = v
                base = norm(tgt.value)
            else:
                for b, lab in view.controlling_branches(n):
                    if lab == "T" and b.kind == "branch" and isinstance(b.ast.test, ast.Compare):
                        cond = b.ast.test
                        break
                base = norm(tgt)
            sites.append((f, n, base, step[0], cond))
    up = [(f, n, b, c) for f, n, b, op, c in sites if op == "Sub"]
    lo = [(f, n, b, c) for f, n, b, op, c in sites if op == "Add"]
    if not up and not lo:
        # e.g. a modulo: decided by the symbolic rule elsewhere, nothing to say here
        chk.ob("R10.5", "image2sph::longitude-fold-sites", None, fi.where(), "no +-360 wrap statements found in image2sph or the helpers it calls")
        return
    ok = len(up) == len(lo) and len(up) in (1, 2)
    chk.ob("R10.5", "image2sph::longitude-fold-sites", ok, fi.where(), "matching lower (+360) and upper (-360) wraps for scalar and array input (found %d/%d)" % (len(lo), len(up)))
    for f, n, b, c in lo:
        good = isinstance(c, ast.Compare) and isinstance(c.ops[0], (ast.Lt, ast.LtE)) and const_value(c.comparators[0]) in (0, 0.0) and norm(c.left) == b
        chk.ob("R10.5", "image2sph::lower-wrap", good, f.where(n.ast), "negative longitudes gain 360 (test `%s`)" % (norm(c) if c is not None else None))
    for f, n, b, c in up:
        good = isinstance(c, ast.Compare) and isinstance(c.ops[0], ast.GtE) and const_value(c.comparators[0]) in (360, 360.0) and norm(c.left) == b
        chk.ob("R10.5", "image2sph::upper-wrap-closed", good, f.where(n.ast),
               "[0,360) is open at the top: the upper wrap must test >= 360 (a tiny negative longitude plus 360 rounds to 360.0) (test `%s`)" % (norm(c) if c is not None else None))
    if ok:
        for (f1, nl, _, _), (f2, nu, _, _) in zip(sorted(lo, key=lambda t: t[1].ast.lineno), sorted(up, key=lambda t: t[1].ast.lineno)):
            chk.ob("R10.5", "image2sph::upper-wrap-after-lower", f1 is f2 and nl.ast.lineno < nu.ast.lineno, f2.where(nu.ast), "the >= 360 wrap runs after the +360 wrap so it can catch its rounding")


# ---------------------------------------------------------------------------
# R10.5c spherical rotation, rotation matrix, pole
# ---------------------------------------------------------------------------
def _trig_zero(e):
    e = sp.expand(sp.expand_trig(sp.expand(e)))
    if e == 0:
        return True
    # polynomial identity in sin/cos of the base symbols, modulo sin^2 + cos^2 = 1
    return sp.simplify(e) == 0


def rotation(chk, repo):
    se = symx.SymEval(repo, inline_depth=6)
    lo, la = symx.symbols("lo", "la")
    fi = repo.func(W + "_rotate")
    r = se.run(fi, {"longitude": lo, "latitude": la, "r": RM}, {})
    v = (sp.cos(la) * sp.cos(lo), sp.cos(la) * sp.sin(lo), sp.sin(la))
    b = [sum(RM[j][k] * v[j] for j in range(3)) for k in range(3)]     # b = r^T v (as documented in the code: r[j,k] v_j)
    ok = isinstance(r, tuple) and len(r) == 2
    if ok:
        eq, d = symx.equal(r[0], sp.atan2(b[1], b[0]) * 180 / sp.pi)
        chk.ob("R10.5", "_rotate::longitude", eq, fi.where(), "lon' = atan2(b1, b0) in degrees with b = r^T (cos lat cos lon, cos lat sin lon, sin lat)")
        k, rest = r[1].as_independent(lo, la, *[e for row in RM for e in row], as_Add=False)
        okk = sp.simplify(k - 180 / sp.pi) == 0
        CL = sp.Function("CLIP")
        if okk and isinstance(rest, sp.asin):
            chk.ob("R10.5", "_rotate::latitude", False, fi.where(),
                   "lat' must not be asin(b2): d(asin x)/dx = 1/cos(lat'), so the rounding of b2 (1.1e-16) grows without bound towards lat' = 90 -- and the native "
                   "latitude of every pixel near CRPIX is close to 90, as is the celestial latitude for reference points near a pole (both in the property's "
                   "quantifier, 1e-9 degree / 1e-6 pixel); the atan2(b2, hypot(b0, b1)) form is accurate everywhere")
        elif okk and isinstance(rest, sp.atan2):
            a, h = rest.args
            inner = a.args[0] if isinstance(a, CL) else a
            good = symx.equal(inner, b[2])[0] and symx.equal(h ** 2, b[0] ** 2 + b[1] ** 2)[0] and (not isinstance(a, CL) or a.args[1:] == (-1, 1))
            chk.ob("R10.5", "_rotate::latitude", bool(good), fi.where(), "lat' = atan2(b2, sqrt(b0^2 + b1^2)) in degrees")
        else:
            chk.ob("R10.5", "_rotate::latitude", False, fi.where(), "unrecognised latitude form %s" % str(r[1])[:160])
    else:
        chk.ob("R10.5", "_rotate::returns-pair", False, fi.where(), "got %r" % (r,))
    # Rotate: degrees -> radians once, reverse => transpose
    fi = repo.func(W + "Rotate")
    for rev in (False, True):
        se2 = _mkse(repo, ("_rotate",))
        r = se2.run(fi, {"lon": lo, "lat": la, "self.rotation_matrix": RM}, {"reverse": rev})
        want = sp.Function("_rotate")(lo * sp.pi / 180, la * sp.pi / 180, _mat(_tr(RM) if rev else RM))
        chk.ob("R10.5", "Rotate[reverse=%s]" % rev, r == want, fi.where(),
               "inputs converted from degrees to radians; the matrix is %s (got %s)" % ("transposed" if rev else "used as is", str(r)[:160]))
    # rotation matrix against Calabretta & Greisen (2002) eq. 2: celestial unit vector of the native point (phi, theta)
    fi = repo.func(W + "CreateRotationMatrix")
    ap, dp, pp = symx.symbols("alphap", "deltap", "phip")
    se = symx.SymEval(repo, inline_depth=6)
    R = se.run(fi, {"self.longpole": pp * 180 / sp.pi, "self.native_longpole": ap, "self.native_latpole": dp}, {})
    ok = symx._is_matrix(R) and len(R) == 3 and len(R[0]) == 3
    if not ok:
        chk.ob("R10.5", "CreateRotationMatrix::is-3x3", False, fi.where(), "got %r" % (R,))
    else:
        ph, th = symx.symbols("phi", "theta")
        nat = (sp.cos(th) * sp.cos(ph), sp.cos(th) * sp.sin(ph), sp.sin(th))
        C = sp.sin(th) * sp.cos(dp) - sp.cos(th) * sp.sin(dp) * sp.cos(ph - pp)       # cos(delta) cos(alpha - alpha_p)
        S = -sp.cos(th) * sp.sin(ph - pp)                                              # cos(delta) sin(alpha - alpha_p)
        Z = sp.sin(th) * sp.sin(dp) + sp.cos(th) * sp.cos(dp) * sp.cos(ph - pp)        # sin(delta)
        cel = (sp.cos(ap) * C - sp.sin(ap) * S, sp.sin(ap) * C + sp.cos(ap) * S, Z)
        for k, nm in enumerate("xyz"):
            got = sum(R[k][j] * nat[j] for j in range(3))
            chk.ob("R10.5", "CreateRotationMatrix::row-%s" % nm, _trig_zero(got - cel[k]), fi.where(),
                   "R (native unit vector) = celestial unit vector of Calabretta & Greisen eq. 2, component %s" % nm)
        pole = tuple(R[k][2] for k in range(3))
        wantp = (sp.cos(ap) * sp.cos(dp), sp.sin(ap) * sp.cos(dp), sp.sin(dp))
        chk.ob("R10.5", "CreateRotationMatrix::native-pole-maps-to-reference-point", all(_trig_zero(a - b) for a, b in zip(pole, wantp)), fi.where(),
               "the native pole (theta = 90, the reference pixel of a TAN projection) maps to (alpha_p, delta_p) = CRVAL")
    # pole for theta0 = 90
    fi = repo.func(W + "GetPole")
    c1, c2 = symx.symbols("crval1", "crval2")
    r = se.run(fi, {"self.wcs": {"crval1": c1, "crval2": c2}, "self.theta0": sp.Integer(90), "self.longpole": sp.Integer(180), "self.latpole": sp.Integer(90)}, {})
    ok = isinstance(r, tuple) and len(r) == 2 and sp.simplify(r[0] - c1 * sp.pi / 180) == 0 and sp.simplify(r[1] - c2 * sp.pi / 180) == 0
    chk.ob("R10.5", "GetPole[theta0=90]", ok, fi.where(), "for zenithal projections the celestial pole of the native system is (CRVAL1, CRVAL2) in radians (got %s)" % (r,))
    fi = repo.func(W + "__init__")
    dflt = {k: const_value(v) for k, v in fi.defaults.items()}
    chk.ob("R10.5", "WCS.__init__::default-angles", dflt.get("longpole") == 180.0 and dflt.get("theta0") == 90.0 and dflt.get("latpole") == 90.0, fi.where(),
           "LONPOLE defaults to 180 and theta0 to 90 (zenithal projections) (found %s)" % dflt)


# ---------------------------------------------------------------------------
# R10.4 coefficient tables
# ---------------------------------------------------------------------------
def _tpv_terms(xi, eta):
    """TPV convention (Calabretta et al. 2004 draft / scamp): term of PVi_k for axis 1; axis 2 has xi and eta exchanged.
    k = 3 and k = 11 are the radial terms, which this library documents as unsupported (skipped)."""
    return {0: 1, 1: xi, 2: eta, 4: xi ** 2, 5: xi * eta, 6: eta ** 2, 7: xi ** 3, 8: xi ** 2 * eta, 9: xi * eta ** 2, 10: eta ** 3}


def coeffs(chk, repo):
    u, v = symx.symbols("u", "v")
    se = symx.SymEval(repo, inline_depth=6)
    se.assume["text:a[ix, iy] != 0.0"] = True
    fi = repo.func(W + "ExtractPVCoeffs")
    ap2d = repo.func(MOD + ".Apply2DPolynomial")
    chk.analysed_unit(ap2d.qualname)
    for prefix, axis in (("pv1", 1), ("pv2", 2), ("pvi1", 1), ("pvi2", 2)):
        syms = {k: sp.Symbol("%s_%d" % (prefix, k)) for k in range(12)}
        wcs = {"%s_%d" % (prefix, k): s for k, s in syms.items()}
        r = se.run(fi, {"wcs": wcs, "prefix": prefix}, {})
        ok = isinstance(r, tuple) and len(r) == 3 and symx._is_matrix(r[0])
        if not ok:
            chk.ob("R10.4", "ExtractPVCoeffs[%s]::returns-matrix-count-order" % prefix, False, fi.where(), "got %s" % str(r)[:160])
            continue
        mat, count, order = r
        poly = se.run(ap2d, {"a": tuple(tuple(row) for row in mat), "x": u, "y": v}, {})
        terms = _tpv_terms(u, v) if axis == 1 else _tpv_terms(v, u)
        want = sum(syms[k] * t for k, t in terms.items())
        eq, d = symx.equal(poly, want)
        chk.ob("R10.4", "ExtractPVCoeffs[%s]::index-to-power-map" % prefix, eq, fi.where(),
               "header keys %s_k -> matrix -> polynomial equals the TPV series for axis %d (k = 0,1,2,4..10; radial terms 3 and 11 not used)%s"
               % (prefix, axis, "" if eq else " (difference %s)" % str(d)[:200]))
        chk.ob("R10.4", "ExtractPVCoeffs[%s]::count-and-order" % prefix, count == 10 and order == 3, fi.where(),
               "the number of coefficients found (%s) is what switches the distortion model on; order %s" % (count, order))
    # sparse header: only what is present is used
    wcs = {"pv2_1": sp.Symbol("p1"), "pv2_7": sp.Symbol("p7")}
    r = se.run(fi, {"wcs": wcs, "prefix": "pv2"}, {})
    poly = se.run(ap2d, {"a": tuple(tuple(row) for row in r[0]), "x": u, "y": v}, {})
    chk.ob("R10.4", "ExtractPVCoeffs[sparse]", symx.equal(poly, sp.Symbol("p1") * v + sp.Symbol("p7") * v ** 3)[0] and r[1] == 2, fi.where(),
           "missing keys contribute nothing and are not counted")
    # SIP
    fi = repo.func(W + "ExtractSIPCoeffs")
    for prefix in ("a", "b", "ap", "bp"):
        wcs = {prefix + "_order": sp.Integer(3)}
        syms = {(i, j): sp.Symbol("%s_%d_%d" % (prefix, i, j)) for i in range(4) for j in range(4) if i + j <= 3}
        wcs.update({"%s_%d_%d" % (prefix, i, j): s for (i, j), s in syms.items()})
        r = se.run(fi, {"wcs": wcs, "prefix": prefix}, {})
        ok = isinstance(r, tuple) and len(r) == 3 and symx._is_matrix(r[0])
        if not ok:
            chk.ob("R10.4", "ExtractSIPCoeffs[%s]::returns-matrix-count-order" % prefix, False, fi.where(), "got %s" % str(r)[:160])
            continue
        poly = se.run(ap2d, {"a": tuple(tuple(row) for row in r[0]), "x": u, "y": v}, {})
        want = sum(s * u ** i * v ** j for (i, j), s in syms.items())
        eq, d = symx.equal(poly, want)
        chk.ob("R10.4", "ExtractSIPCoeffs[%s]::A_p_q-multiplies-u^p-v^q" % prefix, eq and r[1] == len(syms) and r[2] == 3, fi.where(),
               "SIP keyword %s_p_q is the coefficient of u^p v^q; %d coefficients counted, order from %s_ORDER" % (prefix.upper(), len(syms), prefix.upper()))
    # model selection per projection
    fi = repo.func(W + "ExtractDistortionModel")
    want = {"-TAN": ("scamp", "pv1", "pv2", "pvi1", "pvi2"), "-TPV": ("scamp", "pv1", "pv2", "pvi1", "pvi2"), "-TAN-SIP": ("sip", "a", "b", "ap", "bp")}
    for proj, (name, pa, pb, pap, pbp) in want.items():
        wcs = {}
        for pre in (pa, pb, pap, pbp):
            if name == "scamp":
                wcs.update({"%s_%d" % (pre, k): sp.Symbol("%s_%d" % (pre, k)) for k in (0, 1, 2, 4, 5, 6, 7, 8, 9, 10)})
            else:
                wcs[pre + "_order"] = sp.Integer(2)
                wcs.update({"%s_%d_%d" % (pre, i, j): sp.Symbol("%s_%d_%d" % (pre, i, j)) for i in range(3) for j in range(3) if i + j == 2})
        se2 = symx.SymEval(repo, inline_depth=8)
        st = {"self.projection": proj, "self.wcs": wcs, "self.distort": {"name": "none"}, "self._inverse_computed": False}
        se2.run(fi, st, {})
        dist = se2.last_env.vars.get("self.distort")
        ok = isinstance(dist, dict) and dist.get("name") == name
        if ok:
            for key, pre in (("a", pa), ("b", pb), ("ap", pap), ("bp", pbp)):
                m = dist.get(key)
                names = {str(s) for row in m for e in row for s in sp.sympify(e).free_symbols} if symx._is_matrix(m) else set()
                ok = ok and bool(names) and all(n.startswith(pre + "_") for n in names)
        chk.ob("R10.4", "ExtractDistortionModel[%s]" % proj, bool(ok), fi.where(),
               "projection %s selects the %s model with forward coefficients from %s/%s and inverse from %s/%s" % (proj, name, pa, pb, pap, pbp))
        # no coefficients -> no model
        se3 = symx.SymEval(repo, inline_depth=8)
        st = {"self.projection": proj, "self.wcs": ({} if name == "scamp" else {"a_order": sp.Integer(2)}), "self.distort": {"name": "none"}, "self._inverse_computed": False}
        se3.run(fi, st, {})
        dist = se3.last_env.vars.get("self.distort")
        chk.ob("R10.4", "ExtractDistortionModel[%s,no-coefficients]" % proj, isinstance(dist, dict) and dist.get("name") == "none", fi.where(),
               "a header without forward coefficients leaves the model off")
    # polynomial evaluator itself
    A = M("a")
    poly = se.run(ap2d, {"a": A, "x": u, "y": v}, {})
    chk.ob("R10.4", "Apply2DPolynomial::sum-a_ij-x^i-y^j", symx.equal(poly, P(A, u, v))[0], ap2d.where(), "Apply2DPolynomial(a, x, y) = sum_ij a[i,j] x^i y^j (first index is the x power)")
    # sparse coefficient sets: the result may depend on the coefficients only through the sum, whatever rows or columns are entirely
    # zero (skips of zero rows / zero coefficients are optimisations).  All 2^4 patterns of zero rows and of zero columns.
    bad = []
    for axis in ("rows", "cols"):
        for mask in range(16):
            keep = [bool(mask >> k & 1) for k in range(N)]
            B = tuple(tuple((A[i][j] if (keep[i] if axis == "rows" else keep[j]) else sp.Integer(0)) for j in range(N)) for i in range(N))
            try:
                got = se.run(ap2d, {"a": B, "x": u, "y": v}, {})
                ok_ = symx.equal(got, P(B, u, v))[0]
            except symx.Unsupported:
                ok_ = None
            if ok_ is False:
                bad.append("%s kept=%s" % (axis, "".join("1" if k else "0" for k in keep)))
            elif ok_ is None:
                bad.append(None)
    chk.ob("R10.4", "Apply2DPolynomial::sparse-coefficient-sets", (None if (None in bad and not [b for b in bad if b]) else not [b for b in bad if b]), ap2d.where(),
           "for every pattern of all-zero rows or columns of the coefficient matrix the result is still sum_ij a[i,j] x^i y^j%s" % ("" if not [b for b in bad if b] else " -- wrong for: " + ", ".join([b for b in bad if b][:6])))
    # Distort: scamp replaces, sip adds
    fi = repo.func(W + "Distort")
    for model, inverse in itertools.product(("scamp", "sip"), (False, True)):
        st, _, _, _ = _state("-TPV" if model == "scamp" else "-TAN-SIP", model)
        r = se.run(fi, dict(st, x=u, y=v), {"inverse": inverse})
        a, b = (st["self.distort"]["ap"], st["self.distort"]["bp"]) if inverse else (st["self.distort"]["a"], st["self.distort"]["b"])
        base = (0, 0) if model == "scamp" else (u, v)
        ok = isinstance(r, tuple) and len(r) == 2 and symx.equal(r[0], base[0] + P(a, u, v))[0] and symx.equal(r[1], base[1] + P(b, u, v))[0]
        chk.ob("R10.4", "Distort[%s,inverse=%s]" % (model, inverse), bool(ok), fi.where(),
               "%s: result = %s with the %s coefficient pair in (x, y) order" % (model, "P(x, y)" if model == "scamp" else "(x, y) + P(x, y)", "inverse" if inverse else "forward"))


# ---------------------------------------------------------------------------
# constructor wiring
# ---------------------------------------------------------------------------
def wiring(chk, repo):
    fi = repo.func(W + "ExtractFromWCS")
    keys = ["crpix1", "crpix2", "crval1", "crval2", "cd1_1", "cd1_2", "cd2_1", "cd2_2"]
    hs = {k: sp.Symbol(k) for k in keys}
    wcs = dict(hs, ctype1="RA---TAN", ctype2="DEC--TAN", cunit1="deg")
    se = symx.SymEval(repo, inline_depth=8)
    st = {"self.wcs": wcs, "self.longpole": sp.Integer(180), "self.latpole": sp.Integer(90), "self.theta0": sp.Integer(90),
          "self.distort": {"name": "none"}, "self._inverse_computed": False}
    se.run(fi, st, {})
    V = se.last_env.vars
    chk.ob("R10.6", "ExtractFromWCS::crpix", tuple(V.get("self.crpix", ())) == (hs["crpix1"], hs["crpix2"]), fi.where(), "reference pixel = (CRPIX1, CRPIX2)")
    cd = V.get("self.cd")
    okcd = symx._is_matrix(cd) and [list(r) for r in cd] == [[hs["cd1_1"], hs["cd1_2"]], [hs["cd2_1"], hs["cd2_2"]]]
    chk.ob("R10.6", "ExtractFromWCS::cd-matrix", bool(okcd), fi.where(), "cd[i][j] = CD(i+1)_(j+1)")
    ci = V.get("self.cdinv")
    okci = False
    if okcd and symx._is_matrix(ci):
        prod = sp.Matrix([[sp.sympify(e) for e in r] for r in cd]) * sp.Matrix([[sp.sympify(e) for e in r] for r in ci])
        okci = sp.simplify(prod - sp.eye(2)) == sp.zeros(2, 2)
    chk.ob("R10.6", "ExtractFromWCS::cd-inverse", bool(okci), fi.where(), "cdinv is the matrix inverse of the same cd")
    chk.ob("R10.6", "ExtractFromWCS::projection", V.get("self.projection") == "-TAN", fi.where(), "projection code = CTYPE1[4:]")
    pole = (V.get("self.native_longpole"), V.get("self.native_latpole"))
    okp = all(symx._is_expr(p) for p in pole) and sp.simplify(pole[0] - hs["crval1"] * sp.pi / 180) == 0 and sp.simplify(pole[1] - hs["crval2"] * sp.pi / 180) == 0
    chk.ob("R10.6", "ExtractFromWCS::pole-from-crval", bool(okp), fi.where(), "the pole handed to the rotation matrix is (CRVAL1, CRVAL2) in radians")
    R = V.get("self.rotation_matrix")
    okr = symx._is_matrix(R) and len(R) == 3 and all(_trig_zero(sp.sympify(a) - b) for a, b in zip(
        (R[0][2], R[1][2], R[2][2]), (sp.cos(pole[0]) * sp.cos(pole[1]), sp.sin(pole[0]) * sp.cos(pole[1]), sp.sin(pole[1])))) if okp else False
    chk.ob("R10.6", "ExtractFromWCS::rotation-matrix-built-after-pole", bool(okr), fi.where(), "the rotation matrix is built from that pole (its third column is the CRVAL unit vector)")
    # header-supplied LONPOLE is honoured
    fi2 = repo.func(W + "SetAngles")
    se2 = symx.SymEval(repo)
    lp = sp.Symbol("hdr_longpole")
    se2.run(fi2, {"self.wcs": {"longpole": lp}, "longpole": sp.Integer(180), "latpole": sp.Integer(90), "theta0": sp.Integer(90)}, {})
    V2 = se2.last_env.vars
    chk.ob("R10.6", "SetAngles::header-overrides-default", V2.get("self.longpole") == lp and V2.get("self.theta0") == 90 and V2.get("self.latpole") == 90, fi2.where(),
           "LONPOLE/LATPOLE/THETA0 come from the header when present, else from the constructor defaults")
    # constructor order
    init = repo.func(W + "__init__")
    calls = [norm(c.func) for c in walk_no_nested(init.node) if isinstance(c, ast.Call) and dotted_name(c.func) and dotted_name(c.func).startswith("self.")]
    order_ok = calls.index("self.ConvertWCS") < calls.index("self.SetAngles") < calls.index("self.ExtractFromWCS") if all(
        c in calls for c in ("self.ConvertWCS", "self.SetAngles", "self.ExtractFromWCS")) else False
    chk.ob("R10.6", "WCS.__init__::order", order_ok, init.where(), "header converted, then angles, then derived state (pole and rotation matrix need the angles)")


# ---------------------------------------------------------------------------
# R10.3 object-state discipline (history independence)
# ---------------------------------------------------------------------------
ENTRIES = ("image2sky", "sky2image", "get_jacobian")
MUTATORS = {"append", "extend", "update", "pop", "clear", "setdefault", "insert", "remove", "sort", "fill", "resize", "popitem", "put"}


def _methods(repo):
    return {fi.name: fi for q, fi in repo.funcs.items() if fi.cls == "WCS" and fi.module.name == MOD}


def _self_refs(fi, methods):
    """(method name, ast node) for every self.<method> call or reference (e.g. passed to a solver)"""
    out = []
    for x in walk_no_nested(fi.node):
        if isinstance(x, ast.Attribute) and isinstance(x.value, ast.Name) and x.value.id == "self" and x.attr in methods:
            out.append((x.attr, x))
    return out


def _attr_root(t):
    """self attribute name a store target is rooted at, following subscripts: self.a[...][...] -> a"""
    while isinstance(t, ast.Subscript):
        t = t.value
    if isinstance(t, ast.Attribute) and isinstance(t.value, ast.Name) and t.value.id == "self":
        return t.attr
    return None


def _subkey(t):
    if isinstance(t, ast.Subscript):
        return norm(t.slice)
    return None


def _state_writes(fi):
    """[(cfg node, attr, subkey or None)] for stores into self state, including through local aliases `x = self.attr`"""
    cfg = cfg_of(fi)
    alias = {}
    for x in walk_no_nested(fi.node):
        if isinstance(x, ast.Assign) and len(x.targets) == 1 and isinstance(x.targets[0], ast.Name):
            a = _attr_root(x.value) if isinstance(x.value, (ast.Attribute, ast.Subscript)) else None
            if a is not None and isinstance(x.value, ast.Attribute):
                alias[x.targets[0].id] = a
    out = []
    for n in cfg.nodes:
        a = n.ast
        if n.kind != "stmt":
            continue
        tgts = []
        if isinstance(a, ast.Assign):
            for t in a.targets:
                tgts += list(rules._flat_targets(t))
        elif isinstance(a, (ast.AugAssign, ast.AnnAssign)):
            tgts = [a.target]
        for t in tgts:
            r = _attr_root(t)
            if r is not None:
                out.append((n, r, _subkey(t)))
            elif isinstance(t, ast.Subscript):
                b = t
                while isinstance(b, ast.Subscript):
                    b = b.value
                if isinstance(b, ast.Name) and b.id in alias:
                    out.append((n, alias[b.id], _subkey(t)))
        for c in rules.stmts_calls(n):
            if isinstance(c.func, ast.Attribute) and c.func.attr in MUTATORS:
                r = _attr_root(c.func.value)
                if r is not None:
                    out.append((n, r, "." + c.func.attr))
    return out, alias


def _flag_guard(view, n):
    """(flag attr, branch node) if node n runs only while a computed-flag is still false: controlled by a test containing
    `not self.<flag>` taken true, or by a plain `self.<flag>` test taken false (the guard-clause form `if self.flag: return`)"""
    for b, lab in view.controlling_branches(n):
        if b.kind != "branch":
            continue
        t = b.ast.test
        if lab == "T":
            for x in ast.walk(t):
                if isinstance(x, ast.UnaryOp) and isinstance(x.op, ast.Not):
                    r = _attr_root(x.operand) if isinstance(x.operand, ast.Attribute) else None
                    if r is not None and not (isinstance(t, ast.BoolOp) and isinstance(t.op, ast.Or)):
                        return r, b
        if lab == "F" and isinstance(t, ast.Attribute):
            r = _attr_root(t)
            if r is not None:
                return r, b
    return None, None


def state(chk, repo):
    methods = _methods(repo)
    for e in ENTRIES:
        if e not in methods:
            raise AnalysisError("entry %s vanished" % e)
    # constructor-only methods
    import networkx as nx
    g = nx.DiGraph()
    guarded_edges = set()
    for name, fi in methods.items():
        g.add_node(name)
        cfg = cfg_of(fi)
        view = cfg.view()
        for callee, node in _self_refs(fi, methods):
            g.add_edge(name, callee)
            # is this reference inside a lazily-guarded region?
            holder = None
            for n in cfg.nodes:
                if n.ast is not None and n.kind in ("stmt", "return", "branch") and any(y is node for y in ast.walk(n.ast if n.kind != "branch" else n.ast.test)):
                    holder = n
                    break
            if holder is not None and _flag_guard(view, holder)[0] is not None:
                guarded_edges.add((name, callee))
    g.add_node("<entry>")
    for e in ENTRIES:
        g.add_edge("<entry>", e)
    reach_all = nx.descendants(g, "<entry>")
    g2 = g.copy()
    g2.remove_edges_from(guarded_edges)
    reach_plain = nx.descendants(g2, "<entry>")          # reachable without entering a lazily guarded call
    lazy_only = reach_all - reach_plain
    ctor_reach = nx.descendants(g, "__init__") | {"__init__"}
    chk.notes["state_call_graph"] = {"reachable_from_entries": sorted(reach_all - {"<entry>"}), "only_through_lazy_guard": sorted(lazy_only),
                                     "guarded_call_sites": sorted("%s->%s" % e for e in guarded_edges)}
    flags = {}
    lazy_written = set()
    scratch = {}
    for name in sorted(reach_all - {"<entry>"}):
        fi = methods[name]
        cfg = cfg_of(fi)
        view = cfg.view()
        writes, alias = _state_writes(fi)
        for n, attr, sub in writes:
            key = "%s::self.%s%s" % (name, attr, "[%s]" % sub if sub else "")
            if name in lazy_only:
                lazy_written.add((attr, sub))
                chk.ob("R10.3", key + "::lazy-cache(by-call-graph)", True, fi.where(n.ast),
                       "written only while the lazily computed inverse is being built (method reachable from the entries only through a flag-guarded call)")
                continue
            flag, b = _flag_guard(view, n)
            if flag is not None:
                if attr == flag:
                    flags.setdefault(flag, []).append((fi, n, b))
                    ok = isinstance(n.ast, ast.Assign) and const_value(n.ast.value) is True
                    chk.ob("R10.3", key + "::lazy-flag-set", ok, fi.where(n.ast), "the computed-flag is set to True inside its own `not flag` guard")
                else:
                    lazy_written.add((attr, sub))
                    chk.ob("R10.3", key + "::lazy-cache", True, fi.where(n.ast), "written under the `not self.%s` guard (computed once)" % flag)
                continue
            scratch.setdefault(attr, []).append((fi, n, sub))
    # flags: set before the guarded compute call, and never reset outside the constructor
    for flag, sites in flags.items():
        for fi, n, b in sites:
            cfg = cfg_of(fi)
            view = cfg.view()
            compute = [m for m in cfg.nodes if m.kind == "stmt" and any(dotted_name(c.func) and dotted_name(c.func).startswith("self.") and c.func.attr in lazy_only
                                                                       for c in rules.stmts_calls(m)) and _flag_guard(view, m)[0] == flag]
            ok = bool(compute) and all(view.dominates(n, m) for m in compute)
            chk.ob("R10.3", "%s::self.%s::set-before-compute" % (fi.name, flag), ok, fi.where(n.ast),
                   "the flag is set before the inverse is computed (the computation re-enters sky2image; setting it afterwards would recurse or recompute)")
        resets = []
        for name, fi in methods.items():
            if name in ctor_reach and name not in reach_all:
                continue
            for n, attr, sub in _state_writes(fi)[0]:
                if attr == flag and not (isinstance(n.ast, ast.Assign) and const_value(n.ast.value) is True):
                    if name in ctor_reach and name not in (reach_all - {"<entry>"}):
                        continue
                    resets.append("%s:%s" % (name, n.ast.lineno))
        chk.ob("R10.3", "self.%s::never-reset-after-construction" % flag, not resets, "esutil/wcsutil.py", "the computed-flag is cleared only by constructor code (%s)" % (resets or "no other store"))
    if not flags:
        chk.ob("R10.3", "lazy-inverse::guard-present", False, "esutil/wcsutil.py", "no `not self.<flag>` guard found around the lazily computed inverse coefficients")
    # lazily written keys are read only behind the guard
    # methods that make sure the lazy value exists: they hold the compute-once guard themselves
    ensurers = set()
    for name, fi in methods.items():
        cfg = cfg_of(fi)
        view = cfg.view()
        if any(_flag_guard(view, n)[0] is not None for n in cfg.nodes) and any(attr in flags for n_, attr, sub in _state_writes(fi)[0]):
            ensurers.add(name)
    for name in sorted(reach_plain - {"<entry>"}):
        fi = methods[name]
        cfg = cfg_of(fi)
        for n in cfg.nodes:
            if n.ast is None or n.kind not in ("stmt", "return", "branch"):
                continue
            root = n.ast.test if n.kind == "branch" else n.ast
            for x in ast.walk(root):
                if isinstance(x, ast.Subscript) and isinstance(x.ctx, ast.Load):
                    r = _attr_root(x)
                    if r is not None and (r, _subkey(x)) in lazy_written and isinstance(x.value, ast.Attribute):
                        # decide under the truth values this read's own controlling tests give to plain parameter flags (stable predicates)
                        fl = {}
                        for b, lab in cfg.view().controlling_branches(n):
                            if b.kind == "branch" and isinstance(b.ast.test, ast.Name) and b.ast.test.id in fi.params:
                                fl[b.ast.test.id] = (lab == "T")
                        view = cfg.specialise(flags=fl)
                        guards = [b for m_ in view.nodes() for f, b in [_flag_guard(view, m_)] if f is not None]
                        ens = [m_ for m_ in view.nodes() if m_.kind == "stmt" and any(dotted_name(c.func) and dotted_name(c.func).startswith("self.") and c.func.attr in ensurers
                                                                                         for c in rules.stmts_calls(m_))]
                        ok = any(view.dominates(b, n) and b.id != n.id for b in guards) or any(view.dominates(m_, n) and m_.id != n.id for m_ in ens)
                        chk.ob("R10.3", "%s::read-of-lazy::self.%s[%s]" % (name, r, _subkey(x)), ok, fi.where(n.ast),
                               "the lazily computed value is read only after the compute-once guard has been passed (in this method or in a helper it calls first)")
    # scratch: written before every read
    init = methods["__init__"]
    alloc = {}
    for x in walk_no_nested(init.node):
        if isinstance(x, ast.Assign) and isinstance(x.value, ast.Call) and call_name(x.value) in ("zeros", "empty", "ones") and x.value.args:
            r = _attr_root(x.targets[0])
            nval = const_value(x.value.args[0])
            if r is not None and isinstance(nval, int):
                alloc[r] = nval
    for attr, sites in sorted(scratch.items()):
        writers = {fi.name for fi, n, sub in sites}
        key = "self.%s" % attr
        if len(writers) != 1:
            chk.ob("R10.3", key + "::single-writer", False, sites[0][0].where(sites[0][1].ast), "scratch state written by several methods: %s" % sorted(writers))
            continue
        wname = next(iter(writers))
        wfi = methods[wname]
        cfg = cfg_of(wfi)
        view = cfg.view()
        wnodes = [n for fi, n, sub in sites]
        subs = {sub for fi, n, sub in sites}
        if attr in alloc:
            need = {str(i) for i in range(alloc[attr])}
            full = need <= subs or None in subs or ":" in subs
            chk.ob("R10.3", key + "::every-component-rewritten", full, wfi.where(wnodes[0].ast),
                   "all %d components of the scratch buffer are overwritten before use (written: %s)" % (alloc[attr], sorted(s for s in subs if s)))
        else:
            chk.ob("R10.3", key + "::allocated-in-constructor", False, wfi.where(wnodes[0].ast),
                   "state written by %s is neither a lazy cache nor a scratch buffer allocated by the constructor: results may depend on earlier calls" % wname)
            continue
        # readers
        readers = set()
        for name in reach_all - {"<entry>"}:
            fi = methods[name]
            for x in walk_no_nested(fi.node):
                if isinstance(x, ast.Attribute) and isinstance(x.ctx, ast.Load) and isinstance(x.value, ast.Name) and x.value.id == "self" and x.attr == attr:
                    readers.add(name)
        # in the writer: every read (or call that leads to a reader) is dominated by all write nodes
        okall = True
        why = []
        _, alias = _state_writes(wfi)
        anames = {k for k, v in alias.items() if v == attr}
        for n in cfg.nodes:
            if n.ast is None or n in wnodes or n.kind not in ("stmt", "return", "branch"):
                continue
            root = n.ast.test if n.kind == "branch" else n.ast
            uses = False
            for x in ast.walk(root):
                if isinstance(x, ast.Name) and isinstance(x.ctx, ast.Load) and x.id in anames and not (isinstance(n.ast, ast.Assign) and x is n.ast.value):
                    uses = True
                if isinstance(x, ast.Attribute) and isinstance(x.value, ast.Name) and x.value.id == "self" and x.attr in methods:
                    tgt = x.attr
                    if tgt in readers or (nx.descendants(g, tgt) & readers):
                        uses = True
                if isinstance(x, ast.Attribute) and isinstance(x.ctx, ast.Load) and isinstance(x.value, ast.Name) and x.value.id == "self" and x.attr == attr \
                        and not (isinstance(n.ast, ast.Assign) and x is n.ast.value):
                    uses = True
            if uses and not all(view.dominates(w, n) for w in wnodes):
                okall = False
                why.append("line %d" % n.ast.lineno)
        chk.ob("R10.3", key + "::written-before-read", okall, wfi.where(), "every use of the scratch buffer in %s (directly or through a callee that reads it) comes after it was rewritten%s"
               % (wname, "" if okall else " -- not at " + ", ".join(why)))
        # other readers are reachable from the entries only through the writer
        for rname in sorted(readers - {wname}):
            g3 = g.copy()
            g3.remove_node(wname)
            only = rname not in nx.descendants(g3, "<entry>")
            chk.ob("R10.3", key + "::reader-%s-only-through-writer" % rname, only, methods[rname].where(),
                   "%s reads the scratch buffer and is reachable from the public entries only through %s, which rewrites it first" % (rname, wname))
    chk.ob("R10.3", "state-writes-classified", True, "esutil/wcsutil.py",
           "post-construction state: lazy=%s scratch=%s" % (sorted("%s[%s]" % t for t in lazy_written), sorted(scratch)), nontrivial=False)


# ---------------------------------------------------------------------------
# R10.9 root finder
# ---------------------------------------------------------------------------
def rootfind(chk, repo):
    mod = repo.module(MOD)
    fi = repo.func(W + "_lonlatdiff")
    se = _mkse(repo, ("image2sky",))
    se.opaque.add(MOD + ".wrap_ra_diff")
    xy0, xy1, a0, a1 = symx.symbols("xy0", "xy1", "ans0", "ans1")
    r = se.run(fi, {"xy": (xy0, xy1), "self.lonlat_answer": (a0, a1)}, {})
    I = sp.Function("image2sky")(xy0, xy1)
    i0, i1 = sp.Function("image2sky_0")(*I.args), sp.Function("image2sky_1")(*I.args)
    want = [sp.Function("wrap_ra_diff")(i0 - a0), i1 - a1]
    ok = isinstance(r, (tuple, list)) and len(r) == 2 and all(symx.equal(a, b)[0] for a, b in zip(r, want))
    chk.ob("R10.9", "_lonlatdiff::residual", bool(ok), fi.where(),
           "residual = (wrap_ra_diff(lon(x,y) - target_lon), lat(x,y) - target_lat): the longitude residual is wrapped so that targets near the RA = 0 seam are reachable (got %s)" % str(r)[:200])
    fi = repo.func(W + "_findxy_one")
    cfg = cfg_of(fi)
    lonp, latp = fi.params[1:3]
    st = {}
    for n in cfg.nodes:
        a = n.ast
        if n.kind == "stmt" and isinstance(a, ast.Assign) and len(a.targets) == 1 and _attr_root(a.targets[0]) == "lonlat_answer":
            k_ = _subkey(a.targets[0])
            if k_ in (":", "0:2", ":2") and isinstance(a.value, (ast.Tuple, ast.List)) and len(a.value.elts) == 2:
                st["0"], st["1"] = norm(a.value.elts[0]), norm(a.value.elts[1])      # whole-buffer store of (lon, lat)
            else:
                st[k_] = norm(a.value)
    chk.ob("R10.9", "_findxy_one::target-roles", st == {"0": lonp, "1": latp}, fi.where(), "target buffer = (longitude, latitude) in the residual's component order (found %s)" % st)
    guess = [c for c in walk_no_nested(fi.node) if isinstance(c, ast.Call) and dotted_name(c.func) == "self.sky2image"]
    ok = len(guess) == 1 and [norm(a) for a in guess[0].args[:2]] == [lonp, latp] and const_value(kwarg(guess[0], "find"), 1) is False
    chk.ob("R10.9", "_findxy_one::initial-guess", ok, fi.where(), "the starting point is the closed-form inverse sky2image(lon, lat, find=False, ...) of the same target (find=False also ends the recursion)")
    # the guess must be what is handed to the solver, and the solver must minimise _lonlatdiff with the tolerance forwarded
    solver_calls = [c for c in walk_no_nested(fi.node) if isinstance(c, ast.Call) and dotted_name(c.func) in ("self._fsolve_xy", "self._lmfind_xy")]
    ok = len(solver_calls) == 1 and solver_calls[0].args and isinstance(solver_calls[0].args[0], (ast.Name, ast.Attribute))
    if ok:
        canon = lambda e: rules.xnorm(e, fi.node)      # a local alias of self.<buffer> and the attribute itself are the same buffer
        gname = canon(solver_calls[0].args[0])
        gstores = [n for n in cfg.nodes if n.kind == "stmt" and isinstance(n.ast, ast.Assign) and any(
            isinstance(t, ast.Subscript) and canon(t.value) == gname for tt in n.ast.targets for t in rules._flat_targets(tt))]
        ok = len(gstores) == 1 and isinstance(gstores[0].ast.value, ast.Call) and gstores[0].ast.value is guess[0] if guess else False
        if ok:
            t = gstores[0].ast.targets[0]
            ok = (isinstance(t, ast.Tuple) and [norm(e.slice) for e in t.elts] == ["0", "1"]) or (isinstance(t, ast.Subscript) and norm(t.slice) in (":", "0:2", ":2"))
        ok = ok and (dotted_name(solver_calls[0].func) != "self._fsolve_xy" or (kwarg(solver_calls[0], "xtol") is not None and norm(kwarg(solver_calls[0], "xtol")) == "xtol"))
    chk.ob("R10.9", "_findxy_one::solver-starts-from-guess", bool(ok), fi.where(), "the solver receives the freshly computed guess (x, y) in order and the caller's xtol")
    rets = [x for x in walk_no_nested(fi.node) if isinstance(x, ast.Return)]
    se2 = _mkse(repo, ("sky2image", "_fsolve_xy", "_lmfind_xy"))
    lo, la = symx.symbols("lo", "la")
    try:
        r = se2.run(fi, {lonp: lo, latp: la, "self.lonlat_answer": [sp.Integer(0), sp.Integer(0)], "self.xyguess": [sp.Integer(0), sp.Integer(0)]}, {})
        ok = isinstance(r, tuple) and len(r) == 2 and all(isinstance(t, sp.Basic) and t.func.__name__ == "AT" and t.args[1] == i for i, t in enumerate(r)) and r[0].args[0] == r[1].args[0]
    except symx.Unsupported:
        ok = False
    chk.ob("R10.9", "_findxy_one::returns-solution-components", bool(ok), fi.where(), "returns (xy[0], xy[1]) of the solver's result")
    fs = repo.func(W + "_fsolve_xy")
    calls = [c for c in walk_no_nested(fs.node) if isinstance(c, ast.Call) and call_name(c) == "fsolve"]
    ok = len(calls) == 1 and len(calls[0].args) >= 2 and norm(calls[0].args[0]) == "self._lonlatdiff" and norm(calls[0].args[1]) == fs.params[1] \
        and kwarg(calls[0], "xtol") is not None and norm(kwarg(calls[0], "xtol")) == "xtol"
    chk.ob("R10.9", "_fsolve_xy::solver-call", ok, fs.where(), "scipy.optimize.fsolve(self._lonlatdiff, guess, xtol=xtol)")
    tol = mod.consts.get("DEFTOL")
    tv = const_value(tol) if tol is not None else None
    dflts = [const_value(f.defaults.get("xtol")) if not isinstance(f.defaults.get("xtol"), ast.Name) else f.defaults["xtol"].id
             for f in (repo.func(W + "sky2image"), repo.func(W + "_findxy"), fi, fs)]
    chk.ob("R10.9", "DEFTOL", isinstance(tv, float) and 0 < tv <= 1e-8 and all(d == "DEFTOL" for d in dflts), "esutil/wcsutil.py",
           "default root-finding tolerance is the documented 1e-8 or tighter on the whole call chain (DEFTOL = %s, defaults %s)" % (tv, dflts))


# ---------------------------------------------------------------------------
# R10.10 jacobian, R10.11 RA-difference wrap
# ---------------------------------------------------------------------------
def jacobian(chk, repo):
    fi = repo.func(W + "get_jacobian")
    se = _mkse(repo, ("image2sky",))
    se.opaque.add(MOD + ".wrap_ra_diff")
    x, y, h = symx.symbols("x", "y", "h")
    r = se.run(fi, {"x": x, "y": y, "step": h}, {"distort": True})
    kw = sp.Function("KW_distort")(sp.Symbol("TRUE"))

    def sky(i, a, b):
        return sp.Function("image2sky_%d" % i)(a, b, kw)
    wr = sp.Function("wrap_ra_diff")
    c = -sp.cos(sky(1, x, y) * sp.pi / 180)
    f = sp.Integer(3600) / (2 * h)
    want = (f * wr(sky(0, x + h, y) - sky(0, x - h, y)) * c, f * wr(sky(0, x, y + h) - sky(0, x, y - h)) * c,
            f * (sky(1, x + h, y) - sky(1, x - h, y)), f * (sky(1, x, y + h) - sky(1, x, y - h)))
    names = ("dra_dx", "dra_dy", "ddec_dx", "ddec_dy")
    ok = isinstance(r, tuple) and len(r) == 4
    if not ok:
        chk.ob("R10.10", "get_jacobian::returns-four", False, fi.where(), "got %s" % str(r)[:200])
        return
    for nm, got, w in zip(names, r, want):
        eq, d = symx.equal(got, w)
        chk.ob("R10.10", "get_jacobian::%s" % nm, eq, fi.where(),
               "%s = 3600/(2 step) x central difference%s%s" % (nm, " of the wrapped RA difference x (-cos dec)" if nm.startswith("dra") else "", "" if eq else " (differs: %s)" % str(d)[:160]))


def wrapdiff(chk, repo):
    fi = repo.func(MOD + ".wrap_ra_diff")
    chk.analysed_unit(fi.qualname)
    loops = [x for x in walk_no_nested(fi.node) if isinstance(x, ast.While)]
    desc = []
    for lp in loops:
        # the loop condition is either the comparison itself (scalar arm) or np.any(mask) with mask = (cmp) & finite (array arm)
        t = lp.test
        arm = "scalar"
        cmp_ = t if isinstance(t, ast.Compare) else None
        finite = None
        if cmp_ is None and isinstance(t, ast.Call) and call_name(t) == "any" and t.args and isinstance(t.args[0], ast.Name):
            arm = "array"
            mname = t.args[0].id
            defs = [s for s in walk_no_nested(fi.node) if isinstance(s, ast.Assign) and norm(s.targets[0]) == mname and s.lineno < lp.lineno]
            inner = [s for s in lp.body if isinstance(s, ast.Assign) and norm(s.targets[0]) == mname]
            last = max(defs, key=lambda s: s.lineno) if defs else None
            if last is not None and inner and norm(last.value) == norm(inner[-1].value) and isinstance(last.value, ast.BinOp) and isinstance(last.value.op, ast.BitAnd):
                parts = [last.value.left, last.value.right]
                cmp_ = next((p for p in parts if isinstance(p, ast.Compare)), None)
                finite = next((p for p in parts if isinstance(p, ast.Name)), None)
        step = None
        for s in lp.body:
            if isinstance(s, ast.Assign) and isinstance(s.value, ast.BinOp) and const_value(s.value.right) in (360, 360.0):
                step = ("+" if isinstance(s.value.op, ast.Add) else "-", norm(s.targets[0]).split("[")[0], norm(s.value.left).split("[")[0])
            if isinstance(s, ast.AugAssign) and const_value(s.value) in (360, 360.0):
                step = ("+" if isinstance(s.op, ast.Add) else "-", norm(s.target).split("[")[0], norm(s.target).split("[")[0])
        if cmp_ is not None and step is not None:
            desc.append((arm, type(cmp_.ops[0]).__name__, const_value(cmp_.comparators[0]), step[0], step[1] == step[2] == norm(cmp_.left), finite is not None))
    want = {("scalar", "Lt", -180.0, "+"), ("scalar", "Gt", 180.0, "-"), ("array", "Lt", -180.0, "+"), ("array", "Gt", 180.0, "-")}
    got = {(a, o, float(v) if v is not None else None, s) for a, o, v, s, same, fin in desc if same}
    chk.ob("R10.11", "wrap_ra_diff::fold-structure", got == want and len(desc) == 4, fi.where(),
           "both arms add 360 while below -180 and subtract 360 while above 180, re-testing after each step (found %s)" % sorted(desc))
    chk.ob("R10.11", "wrap_ra_diff::array-loops-ignore-non-finite", all(fin for a, o, v, s, same, fin in desc if a == "array") and any(a == "array" for a, *_ in desc), fi.where(),
           "the array loops mask out non-finite entries (an infinite difference would never leave the loop)")
    sc = [x for x in walk_no_nested(fi.node) if isinstance(x, ast.If) and "isfinite" in norm(x.test) and isinstance(x.test, ast.UnaryOp)]
    chk.ob("R10.11", "wrap_ra_diff::scalar-non-finite-returned", len(sc) == 1 and any(isinstance(s, ast.Return) for s in sc[0].body), fi.where(), "a non-finite scalar is returned unchanged before the loops")


# ---------------------------------------------------------------------------
# R10.12 inverse polynomial fit
# ---------------------------------------------------------------------------
def invfit(chk, repo):
    u, v, xc, yc = symx.symbols("u", "v", "xc", "yc")
    mk = repo.func(MOD + ".make_amatrix")
    pk = repo.func(MOD + ".pack_coeffs")
    chk.analysed_unit(mk.qualname)
    chk.analysed_unit(pk.qualname)
    for const in (True, False):
        se = symx.SymEval(repo)
        se.run(mk, {"u": u, "v": v, "order": sp.Integer(3)}, {"constant": const})
        rows = {}
        for (arr, idx), val in se.last_env.elem.items():
            if arr == "amatrix" and isinstance(idx, tuple):
                rows[int(idx[0])] = val
        if const:
            rows.setdefault(0, sp.Integer(1))     # the matrix starts as ones: row 0 is the constant term
        se2 = symx.SymEval(repo)
        r = se2.run(pk, {"xcoeffs": xc, "ycoeffs": yc, "porder": sp.Integer(3)}, {"constant": const})
        ok = isinstance(r, tuple) and len(r) == 2 and symx._is_matrix(r[0]) and symx._is_matrix(r[1])
        n_terms = 10 if const else 9
        good = ok and len(rows) == n_terms
        bad = []
        if good:
            for k, term in sorted(rows.items()):
                # where does coefficient k land?
                pos = [(i, j) for i in range(4) for j in range(4) if r[0][i][j] == sp.Function("AT")(xc, sp.Integer(k))]
                posy = [(i, j) for i in range(4) for j in range(4) if r[1][i][j] == sp.Function("AT")(yc, sp.Integer(k))]
                if len(pos) != 1 or pos != posy or sp.simplify(term - u ** pos[0][0] * v ** pos[0][1]) != 0:
                    good = False
                    bad.append((k, str(term), pos))
        chk.ob("R10.12", "make_amatrix/pack_coeffs[constant=%s]::term-enumeration-agrees" % const, bool(good), mk.where(),
               "row k of the design matrix is u^i v^j exactly when coefficient k is packed into [i, j] (%d terms)%s" % (n_terms, "" if good else " -- mismatch %s" % bad[:3]))
    inv = repo.func(MOD + ".invert_for_coeffs")
    se = symx.SymEval(repo)
    A, X, Y = symx.symbols("A", "X", "Y")
    r = se.run(inv, {"amatrix": A, "x": X, "y": Y}, {"lsolve": True})
    IN, SO = sp.Function("INNER"), sp.Function("SOLVE")
    ok = isinstance(r, tuple) and r == (SO(IN(A, A), IN(A, X)), SO(IN(A, A), IN(A, Y)))
    chk.ob("R10.12", "invert_for_coeffs::normal-equations", ok, inv.where(), "coefficients solve (A A^T) c = A x and (A A^T) c = A y in (x, y) order (got %s)" % str(r)[:160])
    i2 = repo.func(MOD + ".Invert2DPolynomial")
    se = symx.SymEval(repo, opaque={MOD + ".make_amatrix", MOD + ".invert_for_coeffs", MOD + ".pack_coeffs"})
    px, py, po = symx.symbols("px", "py", "po")
    r = se.run(i2, {"u": u, "v": v, "x": px, "y": py, "porder": po}, {"pack": True, "constant": True})
    txt = str(r)
    ok = "make_amatrix(u, v, po)" in txt and "invert_for_coeffs" in txt and txt.count("px, py") >= 1 and "pack_coeffs" in txt
    chk.ob("R10.12", "Invert2DPolynomial::roles", ok, i2.where(), "design matrix from the source coordinates (u, v), constraints (x, y), packed with the same order (got %s)" % txt[:200])
    # what is fitted, over which region
    for name, const_kw in (("InvertPVDistortion", None), ("InvertSipDistortion", False)):
        fi = repo.func(W + name)
        chk.analysed_unit(fi.qualname)
        env = {}
        for x in sorted([s for s in walk_no_nested(fi.node) if isinstance(s, ast.Assign)], key=lambda s: s.lineno):
            for t in rules._flat_targets(x.targets[0]):
                env.setdefault(norm(t), []).append(x)
        calls = [c for c in walk_no_nested(fi.node) if isinstance(c, ast.Call) and call_name(c) == "Invert2DPolynomial"]
        ok = len(calls) == 1
        if ok:
            c = calls[0]
            a = [norm(z) for z in c.args]
            if name == "InvertPVDistortion":
                def src(nm):
                    d = env.get(nm, [])
                    return norm(d[-1].value) if d else ""
                ok = src(a[0]).startswith("Apply2DPolynomial(self.distort['a'], %s, %s)" % (a[2], a[3])) and src(a[1]).startswith("Apply2DPolynomial(self.distort['b'], %s, %s)" % (a[2], a[3])) \
                    and "self.ApplyCDMatrix(" in src(a[2]) and a[4] == "porder + order_increase"
                what = "fits (P_a(u,v), P_b(u,v)) -> (u, v) with (u, v) = CD (pixel offsets), order raised by order_increase"
            else:
                ok = a[0:2] == ["xdiff", "ydiff"] and a[2] == "x - xback" and a[3] == "y - yback" and a[4] == "porder + order_increase" \
                    and kwarg(c, "constant") is not None and norm(env["constant"][-1].value) == "False" \
                    and norm(env["xdiff"][-1].value) == "xback - self.crpix[0]" and norm(env["ydiff"][-1].value) == "yback - self.crpix[1]"
                what = "fits undistorted offsets -> (x - xback, y - yback) without a constant term (SIP adds the polynomial to the offsets)"
            st = [(norm(s.targets[0]), norm(s.value)) for s in walk_no_nested(fi.node) if isinstance(s, ast.Assign) and _attr_root(s.targets[0]) == "distort"]
            res = [norm(t) for s in walk_no_nested(fi.node) if isinstance(s, ast.Assign) and s.value is c for t in rules._flat_targets(s.targets[0])]
            ok = ok and len(res) == 2 and ("self.distort['ap']", res[0]) in st and ("self.distort['bp']", res[1]) in st
        chk.ob("R10.12", "%s::what-is-fitted" % name, bool(ok), fi.where(), what if ok or len(calls) == 1 else "Invert2DPolynomial call not found")
        rng = {k: norm(env[k][-1].value) for k in ("xrang", "yrang") if k in env}
        ok = "self.naxis[0]" in rng.get("xrang", "") and "self.naxis[1]" in rng.get("yrang", "") and "1.0" in rng.get("xrang", "") and "1.0" in rng.get("yrang", "")
        if name == "InvertPVDistortion":
            ok = ok and rng["xrang"].endswith("- self.crpix[0]") and rng["yrang"].endswith("- self.crpix[1]")
        grid = [c for c in walk_no_nested(fi.node) if isinstance(c, ast.Call) and call_name(c) == "make_xy_grid"]
        ok = ok and len(grid) == 1 and [norm(z) for z in grid[0].args[1:3]] == ["xrang", "yrang"]
        chk.ob("R10.12", "%s::fit-grid-covers-the-image" % name, bool(ok), fi.where(), "the fit grid spans pixels 1..NAXIS1 in x and 1..NAXIS2 in y (%s)" % rng)


# ---------------------------------------------------------------------------
# helpers must not modify their inputs (the term domain above ignores aliasing)
# ---------------------------------------------------------------------------
def noalias(chk, repo):
    from vcheck import effects
    from checks.C15 import analyse_with_arrays
    eng = effects.Effects(repo, {})
    scope = [(W + "Distort", ["x", "y"], [{"inverse": False}, {"inverse": True}]), (MOD + ".Apply2DPolynomial", ["a", "x", "y"], [{}]),
             (W + "ApplyCDMatrix", ["x", "y"], [{"inverse": False}, {"inverse": True}]), (W + "image2sph", ["x", "y"], [{}]),
             (W + "sph2image", ["longitude", "latitude"], [{}]), (W + "_rotate", ["longitude", "latitude", "r"], [{}]), (W + "Rotate", ["lon", "lat"], [{}])]
    for q, params, variants in scope:
        fi = repo.func(q)
        for flags in variants:
            s = analyse_with_arrays(eng, fi, params, flags)
            for p in params:
                sites = [st for st in s.mut.get(p, []) if st.kind in ("data", "meta")]
                fl = ",".join("%s=%s" % kv for kv in sorted(flags.items()))
                chk.ob("R10.13", "%s(%s)%s" % (fi.name, p, "[%s]" % fl if fl else ""), not sites, sites[0].where() if sites else fi.where(),
                       "input `%s` is not modified%s (each stage re-uses its inputs after computing the first output, and callers re-use them after the call)"
                       % (p, "" if not sites else ": " + sites[0].describe()))
