"""C19 -- random sky positions stay in their region; samplers invert the distribution."""
import ast

import sympy as sp

from vcheck import rules, symx
from vcheck.core import PyRepo, AnalysisError, call_name, dotted_name, kwarg, norm, walk_no_nested
from vcheck.rules import cfg_of

MANIFEST = dict(
    text="Formula conformance by symbolic normal forms plus RNG discipline (not statistical testing): box and cap samplers are "
         "abstractly interpreted with every generator draw as a fresh uninterpreted deviate; the resulting terms must equal the stated "
         "constructions (uniform in sin(dec) between the box limits; cap radius sqrt(U)*rad, spherical-triangle formulas for the "
         "position, two-sided clips before acos, longitude folded into [0,360]); the optionally returned radii must be the generated "
         "radii in degrees on the direct and on the rotated path (unit consistency); every draw is a method call on the passed generator "
         "with size= the requested count and no global-state numpy.random call exists outside the documented fallback constructors; "
         "cumulative sampler: normalised trapezoid table aligned with x[1:] and inverse interpolation roles; Cholesky samplers: "
         "M = cholesky(cov), result = (M.r + mean) transposed, constructor consults the normalised copies only; index selection maps "
         "unique -> replace=False on the passed/seeded generator on every returning path (tests on imax/nrand the flags do not decide are "
         "explored both ways); box containment proper: for zero-width, proper and full boxes the longitude term (and the latitude term in "
         "the coordinate cos(90+dec)) lies between the requested limits for every deviate, decided exactly for forms affine in the deviate "
         "and the limits (vertex extrema over the box classes, selections and modulo operations resolved per class); reproducibility: every package "
         "function that draws on behalf of a sampler is handed the sampler's generator (generator flow over the call graph); the cartesian output "
         "of the box sampler is the unit vector of the equatorial output for the same deviates (polynomial normal form modulo the circle "
         "relations); the stored cumulative table and abscissae hold every grid point (no element selection on top of them); with no ranges given "
         "the box sampler returns the terms of the box [0,360]x[-90,90]; the constructor of the cumulative sampler is evaluated along every "
         "path its arguments leave open and ends with the passed generator (or RandomState(seed)) stored; element types (abstract domain "
         "{holds a double, does not, the caller's own type} resp. integer widths): no conversion, typed output array or in-place update between "
         "M.r + mean and the returned samples narrows the floating values (the constructor's stored copies included), and a conversion of the drawn "
         "indices is to an integer type that holds imax-1 for every imax its path admits; the routine that interpolates under the cumulative "
         "sampler returns the line through the two table entries bracketing the deviate, segment index max(searchsorted-1, 0) for every deviate "
         "up to the last cumulative value (index functions of the search result and the table size decided symbolically per region); effect "
         "analysis of the function samplers: nothing they write outlives the call and reaches the result other than keyed on the arguments' values; "
         "the cap sampler's call of itself comes back for every radius (path-by-path evaluation: the call's arguments, fed back, must not reach "
         "the same call under tests some radius in (0,180] satisfies); the grid of a functional density given by xrange/nx has nx points with "
         "first point xrange[0] and last point xrange[1] (ends of linspace / arange / affine maps of them read off the term); a shortcut path "
         "of the Cholesky constructor stores a term that scales like a factor (degree 1/2 in cov) unless its tests depend on the scale; the "
         "range validator accepts only ranges inside the allowed interval (linear feasibility of the tests on every accepting path).",
    note="Not decided: distributional correctness, containment numerically. Trusted: numpy Generator/RandomState APIs, scipy "
         "cumulative_trapezoid, sympy normaliser.",
    technique="static analysis: abstract interpretation over a symbolic term domain (draws as uninterpreted deviates), who-may-call RNG discipline, AST provenance rules",
)

CO = "esutil.coords."
RA = "esutil.random."
GLOBAL_RNG_OK = {"RandomState", "default_rng", "Generator", "SeedSequence"}


# rules that keep their verdict however the code is laid out (decided by term equality, effect analysis or dominance over
# resolved calls); every other rule of this check is a template rule (vcheck.core.Check.obt)
SEMANTIC = ('R19.cap', 'R19.chol', 'R19.gen', 'R19.ind', 'R19.box::randsphere::ra-inside-box', 'R19.box::randsphere::dec-inside-box',
            'R19.box::randsphere::generator-forwarded', 'R19.box::randsphere::xyz-system-converts-same-points',
            'R19.box::randsphere::default-ranges-are-full-sphere', 'R19.box::randsphere::draws-from-passed-generator',
            'R19.box::esutil.coords.randsphere::nothing-carried-between-calls', 'R19.box::_check_range::outside-allowed-rejected')


def run(chk):
    repo = PyRepo()
    chk.set_templates(repo, semantic=SEMANTIC)
    chk.explanation = MANIFEST["text"]
    chk.trusted = ["numpy.random Generator / RandomState API", "scipy.integrate.cumulative_trapezoid", "sympy normaliser"]
    chk.floor = 45
    randsphere(chk, repo)
    randcap(chk, repo)
    rng_discipline(chk, repo)
    generator(chk, repo)
    cholesky(chk, repo)
    no_carried_state(chk, repo)
    indices(chk, repo)


def _draws(se):
    return [n for n in se.notes if n[0] == "draw"]


class _RefEnv(symx.Env):
    """a call made through a value that is a reference to a package function -- a local picked from a dispatch table
    (`TABLE.get(system, default)(ra, dec)`, `TABLE[key](...)`) or a plain alias (`conv = eq2xyz`) -- is the call of that function:
    the reference is followed (data flow), so the result is the same term as for the direct call in an if/else chain.  Only
    references that name a module-level function of the module being evaluated are followed, and only when no other package
    module has a function of that name (a table imported from another module would name that module's function); anything else is
    left to the engine (an application of an unknown callee: no verdict for the rules reading it)."""

    def _function_ref(self, v):
        if not isinstance(v, symx.Opaque) or not isinstance(v.what, str) or not v.what.isidentifier():
            return None
        name = v.what
        if name in self.vars or name in self.pins or name in self.flags or name not in self.mod.funcs:
            return None
        if self.se.module_const(self.mod, name) is not None:
            return None
        others = [f for f in self.se.repo.funcs.values() if f.cls is None and f.name == name and f.module is not self.mod]
        return None if others else name

    def call(self, c, stmt_level=False):
        f = c.func
        v = None
        if isinstance(f, ast.Name) and f.id in self.vars and f.id not in self.pins:
            v = self.vars[f.id]
        elif isinstance(f, (ast.Subscript, ast.Call)):
            try:
                v = self.ev(f)
            except (symx.Unsupported, KeyError, TypeError):
                v = None
        name = self._function_ref(v)
        if name is not None:
            c = ast.copy_location(ast.Call(func=ast.copy_location(ast.Name(id=name, ctx=ast.Load()), f), args=c.args, keywords=c.keywords), c)
        c = self._positional(c)
        made = self._instantiate(c)
        if made is not None:
            return made
        return super().call(c, stmt_level)

    # ---- keyword arguments of package callees ---------------------------------------------------------------------------------
    def _positional(self, c):
        """the same call with the keyword arguments of a package function put at their positions in its signature
        (`atbound(longitude=x, minval=0.0, maxval=360.0)` is `atbound(x, 0.0, 360.0)`); a parameter that is skipped is filled with
        its default when that is a literal.  The engine binds keywords of callees it follows by name anyway; for the callees kept
        as function symbols (and for the in-place updates it tracks through positional arguments) the spelling of the call must
        not matter.  Anything not plainly bindable is left as it is."""
        if not c.keywords or any(k.arg is None for k in c.keywords) or any(isinstance(a, ast.Starred) for a in c.args):
            return c
        d = dotted_name(c.func)
        if not d or d.split(".")[0] in self.vars or d.split(".")[0] in self.pins:
            return c
        full = self.se.repo.resolve_name(self.mod, d)
        if not self.se.repo.has(full):
            return c
        tgt = self.se.repo.func(full)
        a = tgt.node.args
        if tgt.cls is not None or a.vararg or a.kwarg or a.kwonlyargs or a.posonlyargs:
            return c
        params = list(tgt.params)
        kw = {k.arg: k.value for k in c.keywords}
        if len(kw) != len(c.keywords) or len(c.args) > len(params) or not set(kw) <= set(params[len(c.args):]):
            return c
        last = max(params.index(k) for k in kw)
        new = list(c.args)
        for p in params[len(c.args):last + 1]:
            if p in kw:
                new.append(kw[p])
            elif p in tgt.defaults and isinstance(tgt.defaults[p], ast.Constant):
                new.append(ast.copy_location(ast.Constant(value=tgt.defaults[p].value), c))
            else:
                return c
        return ast.copy_location(ast.Call(func=c.func, args=new, keywords=[]), c)

    # ---- small record classes of the package ------------------------------------------------------------------------------------
    def _instantiate(self, c):
        """the value of `Cls(args)` for a plain package class (no bases but object, no attribute hooks): a record of the
        attributes its __init__ stores on self, each the term __init__ computes for it (the constructor is followed like any other
        package callee).  None when the callee is not such a class"""
        d = dotted_name(c.func)
        if not d or d.split(".")[0] in self.vars or d.split(".")[0] in self.pins:
            return None
        full = self.se.repo.resolve_name(self.mod, d)
        hit = self.se.repo.class_of(full)
        if hit is None or not self.se.repo.has(full + ".__init__"):
            return None
        _, cd = hit
        if cd.decorator_list or cd.keywords or any(not (isinstance(b, ast.Name) and b.id == "object") for b in cd.bases):
            return None
        if any(isinstance(s, ast.FunctionDef) and s.name in ("__new__", "__getattr__", "__getattribute__", "__setattr__", "__init_subclass__")
               for s in cd.body):
            return None
        if any(isinstance(a, ast.Starred) for a in c.args) or any(k.arg is None for k in c.keywords):
            return None
        if self.depth >= self.se.inline_depth:
            raise symx.Unsupported("symx: constructor `%s` at %s is nested too deeply" % (norm(c)[:60], self.where(c)))
        init = self.se.repo.func(full + ".__init__")
        params = [p for p in init.params if not p.startswith("*")][1:]
        if len(c.args) > len(params):
            return None
        bind = {p: self.ev(a) for p, a in zip(params, c.args)}
        for k in c.keywords:
            bind[k.arg] = self.ev(k.value)
        bind["self"] = symx.Opaque("self")
        env = type(self)(self.se, init, init.module, bind, {}, depth=self.depth + 1)
        for p in init.params:
            pn = p.lstrip("*")
            if pn not in env.vars and pn in init.defaults:
                env.vars[pn] = env.ev(init.defaults[pn])
        missing = [p for p in params if p not in env.vars]
        if missing:
            return None
        env.exec_body(init.node.body, sp.true)
        return {k[5:]: v for k, v in env.vars.items() if k.startswith("self.") and k.count(".") == 1}

    # ---- module-level values the engine does not evaluate ------------------------------------------------------------------------
    def ev(self, e, stmt_level=False):
        if isinstance(e, ast.Name) and e.id not in self.pins and e.id not in self.vars and e.id not in self.flags:
            v = self._module_value(self.mod, e.id)
            if v is not None:
                return v
        return super().ev(e, stmt_level)

    def _module_value(self, mod, name):
        """value of a module-level name bound exactly once, by `name = <expr>` or as one element of `a, b = x, y`, and never
        re-bound or stored into anywhere in the module: constants computed once at import by package helpers or record classes
        (`_LIMITS = _limits(_FULL)`, `_CENTRE = _Centre(90.0, 0.0)`) are the value the expression has.  None: not such a name"""
        v = self.se.module_const(mod, name)
        if v is not None:
            return v
        cache = self.se.__dict__.setdefault("_c19_module_values", {})
        key = (mod.name, name)
        if key in cache:
            return cache[key]
        cache[key] = None
        expr = []
        for st in mod.tree.body:
            if isinstance(st, ast.Assign):
                for t in st.targets:
                    if isinstance(t, ast.Name) and t.id == name:
                        expr.append(st.value)
                    elif isinstance(t, (ast.Tuple, ast.List)):
                        for i, x in enumerate(t.elts):
                            if name in {y.id for y in ast.walk(x) if isinstance(y, ast.Name)}:
                                ok = isinstance(x, ast.Name) and isinstance(st.value, (ast.Tuple, ast.List)) and len(st.value.elts) == len(t.elts) \
                                    and not any(isinstance(y, ast.Starred) for y in list(t.elts) + list(st.value.elts))
                                expr.append(st.value.elts[i] if ok else None)
            elif not isinstance(st, (ast.FunctionDef, ast.ClassDef, ast.Import, ast.ImportFrom)):
                if any(isinstance(y, ast.Name) and y.id == name and isinstance(y.ctx, (ast.Store, ast.Del)) for y in ast.walk(st)):
                    expr.append(None)
        if len(expr) != 1 or expr[0] is None:
            return None
        for y in ast.walk(mod.tree):
            if isinstance(y, ast.Global) and name in y.names:
                return None
            if isinstance(y, (ast.Attribute, ast.Subscript)) and isinstance(y.ctx, (ast.Store, ast.Del)) and isinstance(y.value, ast.Name) and y.value.id == name:
                return None
        try:
            v = type(self)(self.se, None, mod, {}, {}).ev(expr[0])
        except symx.Unsupported:
            v = None
        cache[key] = v
        return v


class _RefEval(symx.SymEval):
    """SymEval whose environments follow function references (see _RefEnv); nested calls keep the environment class"""

    def run(self, fi, args, flags=None, depth=0, pins=None):
        flags = dict(flags or {})
        env = _RefEnv(self, fi, fi.module, dict(args), flags, depth=depth)
        env.pins = dict(pins or {})
        for p in fi.params:
            pn = p.lstrip("*")
            if pn not in env.vars:
                if pn in fi.defaults:
                    env.vars[pn] = env.ev(fi.defaults[pn])
                elif p.startswith("**"):
                    env.vars[pn] = {}
                elif p.startswith("*"):
                    env.vars[pn] = ()
        params = [p.lstrip("*") for p in fi.params]
        for k, v in flags.items():
            if k in params:
                env.vars[k] = v
        rets = env.exec_body(fi.node.body, sp.true)
        env.finish_returns(rets)
        self.last_env = env
        return env.result


def _opaque(repo, *names):
    """the functions the names stand for in esutil.coords, wherever they are defined (a helper moved to a module of its own and
    re-imported is the same function): kept as function symbols, their own behaviour is another property's business"""
    mod = repo.module(CO[:-1])
    return {CO + n for n in names} | {repo.resolve_name(mod, n) for n in names}


def randsphere(chk, repo):
    fi = repo.func(CO + "randsphere")
    chk.analysed_unit(fi.qualname)
    se = _RefEval(repo, opaque=_opaque(repo, "atbound", "atbound2", "_check_range"))
    r0, r1, d0, d1, num = symx.symbols("r0", "r1", "d0", "d1", "num")
    rng = symx.Opaque("rng")
    res = se.run(fi, {"num": num, "ra_range": [r0, r1], "dec_range": [d0, d1], "rng": rng}, {"system": "eq"},
                 pins={"ra_range": [r0, r1], "dec_range": [d0, d1]})
    dr = _draws(se)
    ok = len(dr) == 2 and all(d[2] == "rng" and d[4] == "num" for d in dr)
    chk.ob("R19.box", "randsphere::two-draws-from-passed-generator-of-requested-size", ok, fi.where(), "two uniform draws, both rng.uniform(..., size=num): %s" % [(d[1], d[2], d[4]) for d in dr])
    # reproducibility: the receiver of the draws is still the caller's generator where they are made (data flow of the parameter:
    # kept by the `is None` fallback and by helpers that hand a passed generator back, lost when the name is bound to a value
    # that does not depend on it)
    sites = _draw_sites(repo, fi, {"rng": "gen", "num": "count"})
    fresh = [s_ for s_ in sites if s_[2] == "fresh"]
    chk.ob("R19.box", "randsphere::draws-from-passed-generator", False if fresh else (True if sites and all(s_[2] == "gen" for s_ in sites) else None), fi.where(),
           "equal seeded generators must give equal output: every draw is made on the generator that was passed%s (draw sites %s)"
           % (": the name is bound to a new generator before the draw at %s even when one was passed" % fresh[0][0] if fresh else "", sites))
    if isinstance(res, tuple) and len(res) == 2 and len(dr) == 2:
        U1, U2 = sp.Symbol(dr[0][5]), sp.Symbol(dr[1][5])
        ra, dec = res
        eq, _ = symx.equal(ra, r0 + (r1 - r0) * U1)
        chk.ob("R19.box", "randsphere::ra-uniform-in-range", eq, fi.where(), "ra = lo + (hi-lo)*U (inside the requested range)")
        # containment proper, whatever the formula: for every box inside [0,360] (zero-width and full circle included) and every
        # deviate the longitude lies between the requested limits
        res_c = box_containment(ra, r0, r1, 0, 360, U1)
        bad = [(bc, why) for bc, okc, why in res_c if okc is False]
        und = [(bc, why) for bc, okc, why in res_c if okc is None]
        if bad:
            chk.ob("R19.box", "randsphere::ra-inside-box", False, fi.where(), "the longitude must lie inside [ra_range[0], ra_range[1]] for every box: for %s %s" % (bad[0][0].text, bad[0][1]))
        elif und:
            chk.ob("R19.box", "randsphere::ra-inside-box", None, fi.where(), "containment of the longitude not decided for %s: %s" % (und[0][0].text, und[0][1]))
        else:
            chk.ob("R19.box", "randsphere::ra-inside-box", True, fi.where(), "for zero-width, proper and full-circle boxes and every deviate in [0,1) the longitude %s lies between the requested limits" % ra)
        d2r = sp.pi / 180
        lo, hi = sp.cos((90 + d1) * d2r), sp.cos((90 + d0) * d2r)
        v = lo + (hi - lo) * U2
        CL = sp.Function("CLIP")
        ref = sp.acos(CL(v, -1, 1)) * 180 / sp.pi - 90
        eq, d = symx.equal(dec, ref)
        chk.ob("R19.box", "randsphere::dec-uniform-in-sin", eq, fi.where(),
               "dec = acos(clip(v,-1,1)) - 90 deg with v uniform between cos(90+dec_hi) and cos(90+dec_lo): uniform in sin(dec) inside the box%s" % ("" if eq else " (difference %s)" % str(d)[:160]))
        # the same for the latitude: d_lo <= dec <= d_hi  <=>  cos(90+d_hi) <= clip(x) <= cos(90+d_lo) when dec = acos(clip(x)) - 90 deg
        # (acos decreases on [-1,1]); the box is re-parametrised by its limits c = cos(90 deg + d) in [-1,1], in which x must be
        # affine in the deviate and lie between the limits for zero-height, proper and full-range boxes
        okd, whyd = None, "the latitude is not acos(...) - 90 deg of a term over the box limits: %s" % str(dec)[:120]
        try:
            y = sp.expand((dec + 90) * sp.pi / 180)
            if isinstance(y, sp.acos):
                x = y.args[0]
                if fname(x) == "CLIP" and len(x.args) == 3 and x.args[1] == -1 and x.args[2] == 1:
                    x = x.args[0]
                c_hi, c_lo = symx.symbols("c_at_dec_lo", "c_at_dec_hi")
                x = x.subs({d0: 180 * sp.acos(c_hi) / sp.pi - 90, d1: 180 * sp.acos(c_lo) / sp.pi - 90}, simultaneous=True)
                x = x.replace(lambda e: isinstance(e, (sp.cos, sp.sin)), lambda e: e.func(sp.expand(e.args[0])))
                res_c = box_containment(x, c_lo, c_hi, -1, 1, U2)
                bad = [(bc, why) for bc, okc, why in res_c if okc is False]
                und = [(bc, why) for bc, okc, why in res_c if okc is None]
                if bad:
                    okd, whyd = False, "in the coordinate c = cos(90 deg + dec), for %s %s" % (bad[0][0].text, bad[0][1])
                elif und:
                    okd, whyd = None, "containment of the latitude not decided for %s: %s" % (und[0][0].text, und[0][1])
                else:
                    okd, whyd = True, "cos(90 deg + dec) = %s lies between cos(90+dec_hi) and cos(90+dec_lo) for zero-height, proper and full-range boxes" % x
        except Exception as ex:      # sympy could not normalise the term: no verdict
            okd, whyd = None, "latitude term not normalised (%s)" % type(ex).__name__
        chk.ob("R19.box", "randsphere::dec-inside-box", okd, fi.where(), "the latitude must lie inside [dec_range[0], dec_range[1]] for every box: %s" % whyd)
    else:
        chk.ob("R19.box", "randsphere::returns-pair", False, fi.where(), "got %r" % (res,))
    # xyz system goes through eq2xyz of the same ra/dec
    se_x = _RefEval(repo, opaque=_opaque(repo, "atbound", "atbound2", "_check_range", "eq2xyz"))
    ok = None
    try:
        resx = se_x.run(fi, {"num": num, "ra_range": [r0, r1], "dec_range": [d0, d1], "rng": rng}, {"system": "xyz"},
                        pins={"ra_range": [r0, r1], "dec_range": [d0, d1]})
        comps = list(resx) if isinstance(resx, tuple) else [resx]
        if isinstance(res, tuple) and len(res) == 2 and comps and all(isinstance(c, sp.Basic) and getattr(c.func, "__name__", "").startswith("eq2xyz") for c in comps):
            names = [c.func.__name__ for c in comps]
            ok = names in (["eq2xyz"], ["eq2xyz_0", "eq2xyz_1", "eq2xyz_2"]) and \
                all(len(c.args) == 2 and symx.equal(c.args[0], res[0])[0] and symx.equal(c.args[1], res[1])[0] for c in comps)
    except symx.Unsupported:
        ok = None
    why = ""
    if ok is None and isinstance(res, tuple) and len(res) == 2:
        # not literally eq2xyz(ra, dec): decided on the values.  With the converter followed too, the three returned terms must be
        # the unit vector of the point (ra, dec) that system='eq' returns for the same deviates
        ok, why = _xyz_of_same_point(repo, fi, res, {"num": num, "ra_range": [r0, r1], "dec_range": [d0, d1], "rng": rng},
                                     {"ra_range": [r0, r1], "dec_range": [d0, d1]})
    chk.ob("R19.box", "randsphere::xyz-system-converts-same-points", ok, fi.where(),
           "system='xyz' returns eq2xyz(ra, dec) of the generated points: the unit vectors of the same points inside the box%s" % why)
    generator_forwarded(chk, repo, "R19.box", fi, "rng")
    # ranges are validated
    cr = repo.func(CO + "_check_range")
    cfgr = cfg_of(cr)
    ok = any(("rng[0] < allowed[0] or rng[1] > allowed[1]", "T") in rules.controlling_tests(cfgr.view(), n) for n in rules.raise_nodes(cfgr))
    why = ""
    if not ok:
        # not spelled that way: decided on the paths of the validator (every path that accepts a range has it inside the interval)
        ok, why = outside_rejected(repo, cr)
    chk.ob("R19.box", "_check_range::outside-allowed-rejected", ok, cr.where(), "ranges outside the allowed interval are rejected%s" % why)
    ok, found, okd, foundd = _allowed_intervals(repo, fi, cr, res, {"num": num, "rng": rng}, (r0, r1, d0, d1))
    chk.ob("R19.box", "randsphere::allowed-intervals", ok, fi.where(), "allowed intervals [0,360] and [-90,90] (%s)" % found)
    if okd is not None or ok:
        # (decided on the returned terms; not reported when neither the validations nor the defaults were recognised: the rule
        # above then says so)
        chk.ob("R19.box", "randsphere::default-ranges-are-full-sphere", okd, fi.where(), "a range that is not given stands for the full interval: %s" % foundd)


# ---- the validator of the ranges -------------------------------------------------------------------------------------------------
def _feasible(cons, syms):
    """the linear constraints [(form, strict)] -- form > 0 resp. form >= 0 over the real symbols -- have a common solution
    (Fourier-Motzkin elimination, exact over the rationals); None when a form is not linear with rational coefficients"""
    rows = []
    for f, strict in cons:
        try:
            p_ = sp.Poly(sp.expand(f), *syms)
        except Exception:
            return None
        if p_.total_degree() > 1 or not all(c.is_Rational for c in p_.coeffs()):
            return None
        co = [p_.coeff_monomial(x) for x in syms]
        rows.append((co, p_.coeff_monomial(1), strict))
    for i in range(len(syms)):
        pos = [r for r in rows if r[0][i] > 0]
        neg = [r for r in rows if r[0][i] < 0]
        rows = [r for r in rows if r[0][i] == 0]
        for cp, kp, sp_ in pos:
            for cn, kn, sn in neg:
                a, b = -cn[i], cp[i]
                rows.append(([a * x + b * y for x, y in zip(cp, cn)], a * kp + b * kn, sp_ or sn))
        if len(rows) > 400:
            return None
    return all((k > 0) if strict else (k >= 0) for _, k, strict in rows)


def outside_rejected(repo, cr):
    """(True / False / None, text) for: the validator raises for every range [lo, hi] with lo < allowed[0] or hi > allowed[1].
    Its paths are enumerated with the range and the interval as pairs of symbols; on a path that does not raise, the tests taken
    (linear comparisons of the four numbers; tests of the kind of the object are independent of them) must be incompatible with
    both `lo < allowed[0]` and `hi > allowed[1]`"""
    params = [p for p in cr.params if not p.startswith("*")]
    if len(params) != 2:
        return None, " (the validator does not take (range, allowed interval))"
    r0, r1, a0, a1 = symx.symbols("range_lo", "range_hi", "allowed_lo", "allowed_hi")
    syms = [r0, r1, a0, a1]
    paths = _paths_to_self_call(repo, cr, {params[0]: [r0, r1], params[1]: [a0, a1]}, set())
    if not paths:
        return None, " (paths of the validator not enumerated)"
    accepted = 0
    for path, end in paths:
        if end[0] == "raises":
            continue
        if end[0] != "returns":
            return None, " (validator not evaluated: %s)" % (end[1],)
        cons = []
        for c, val in path:
            if not isinstance(c, sp.Basic):
                return None, " (test %s not read)" % (c,)
            if c.free_symbols and all(str(s_).startswith("B_") for s_ in c.free_symbols):
                continue
            if not isinstance(c, (sp.StrictGreaterThan, sp.GreaterThan, sp.StrictLessThan, sp.LessThan)) or not c.free_symbols <= set(syms):
                return None, " (test %s is not a comparison of the range with the interval)" % c
            d = (c.lhs - c.rhs) if isinstance(c, (sp.StrictGreaterThan, sp.GreaterThan)) else (c.rhs - c.lhs)
            strict = isinstance(c, (sp.StrictGreaterThan, sp.StrictLessThan))
            cons.append((d, strict) if val else (-d, not strict))
        live = _feasible(cons, syms)
        if live is None:
            return None, " (tests of the validator are not linear: %s)" % [str(c) for c, _ in path]
        if not live:
            continue
        accepted += 1
        for what, out in (("its lower end below the allowed interval", a0 - r0), ("its upper end above the allowed interval", r1 - a1)):
            f = _feasible(cons + [(out, True)], syms)
            if f is None:
                return None, " (not decided)"
            if f:
                return False, (": a range with %s is accepted on the path where %s" % (what, " and ".join("%s is %s" % (c, v_) for c, v_ in path) or "no test is made"))
    if not accepted:
        return None, " (no path of the validator accepts a range)"
    return True, " (every path of the validator that accepts a range implies allowed[0] <= range[0] and range[1] <= allowed[1])"


def _allowed_intervals(repo, fi, cr, res, args, syms):
    """(True / False / None, what was found) twice, for: a range that is passed is validated against [0,360] (longitude) resp.
    [-90,90] (latitude); and: a range that is not passed stands for that full interval.
    The validations are the calls of the validator found through their callee; the range argument is followed to the parameter
    (data flow) and the allowed interval is evaluated (a literal, a module constant, ...); a validation may be skipped only where
    its range is None.  The defaults are judged on the values: with both ranges None (validator followed) the sampler must
    return the terms it returns for the box [0,360]x[-90,90] with the same deviates."""
    want = {"ra_range": (0, 360), "dec_range": (-90, 90)}
    cfg = cfg_of(fi)
    view = cfg.view()
    vparams = [p for p in cr.params if not p.startswith("*")]
    got, odd = {}, []
    for n in cfg.nodes:
        if n.ast is None or not view.reachable(n):
            continue
        roots = [n.ast.test] if n.kind in ("branch", "loop") and hasattr(n.ast, "test") else ([n.ast] if n.kind in ("stmt", "return") else [])
        for root in roots:
            for x in walk_no_nested(root):
                if not isinstance(x, ast.Call):
                    continue
                d = dotted_name(x.func)
                if not d or repo.resolve_name(fi.module, d) != cr.qualname:
                    continue
                bound = dict(zip(vparams, x.args))
                bound.update({k.arg: k.value for k in x.keywords if k.arg})
                if len(vparams) != 2 or set(bound) != set(vparams) or len(x.args) + len(x.keywords) != 2:
                    odd.append(norm(x))
                    continue
                who = rules.expand(bound[vparams[0]], fi.node)
                try:
                    iv = _RefEnv(_RefEval(repo), fi, fi.module, {}, {}).ev(rules.expand(bound[vparams[1]], fi.node))
                    iv = tuple(sp.nsimplify(symx._as_expr(v)) for v in iv) if isinstance(iv, (list, tuple)) and len(iv) == 2 else None
                except (symx.Unsupported, TypeError, ValueError):
                    iv = None
                if not (isinstance(who, ast.Name) and who.id in want) or iv is None or not all(v.is_number for v in iv):
                    odd.append(norm(x))
                    continue
                ts = rules.controlling_tests(view, n)
                if any(not ((t == "%s is not None" % who.id and lab == "T") or (t == "%s is None" % who.id and lab == "F")) for t, lab in ts):
                    odd.append("%s under %s" % (norm(x), ts))
                    continue
                got.setdefault(who.id, set()).add(iv)
    found = "validated: %s" % ", ".join("%s against %s" % (k, sorted(v, key=str)) for k, v in sorted(got.items()))
    if odd:
        found += "; not followed: %s" % odd
    wrong = [k for k, v in got.items() if v != {tuple(sp.Integer(z) for z in want[k])}]
    missing = [k for k in want if k not in got]
    if wrong:
        ok = False
    elif missing:
        ok = None if odd else False
        found += "; no validation of %s" % missing
    else:
        ok = None if odd else True
    # the defaults: no range given = the full sphere
    r0, r1, d0, d1 = syms
    se_n = _RefEval(repo, opaque=_opaque(repo, "atbound", "atbound2"))
    try:
        res_n = se_n.run(fi, dict(args, ra_range=None, dec_range=None), {"system": "eq"})
    except symx.Unsupported as ex:
        return ok, found, None, "defaults not evaluated: %s" % ex
    if not (isinstance(res, tuple) and isinstance(res_n, tuple) and len(res) == len(res_n) == 2 and all(isinstance(t, sp.Basic) for t in res + res_n)):
        return ok, found, None, "defaults not evaluated: %s" % (res_n,)
    if len(_draws(se_n)) != 2:          # (the run with both ranges given draws twice: U1, U2 name the same deviates in both)
        return ok, found, None, "without ranges the sampler draws %s: the deviates are not matched" % ([d[1:5] for d in _draws(se_n)],)
    full = {r0: 0, r1: 360, d0: -90, d1: 90}
    same = all(symx.equal(a, b.subs(full, simultaneous=True))[0] for a, b in zip(res_n, res))
    return ok, found, same, ("without ranges the points are those of the box [0,360]x[-90,90] for the same deviates" if same else
                             "without ranges the sampler returns %s, not the points of the box [0,360]x[-90,90] for the same deviates" % (str(res_n)[:200],))


# --------------------------------------------------------------------------
# the cartesian output is the unit vector of the point the equatorial output names
#
# ra and dec are the terms system='eq' returns, dec = acos(C) - 90 deg with C the (clipped) sampled cosine.  With A = ra in radians
# the unit vector is (cos dec cos A, cos dec sin A, sin dec) = (s cos A, s sin A, -C) with s = sqrt(1 - C^2) >= 0.  Returned terms
# are brought to polynomials in (C, s, cos A, sin A) modulo s^2 + C^2 = 1 and cos^2 A + sin^2 A = 1 (a Groebner basis, so the
# remainder is a normal form); since every (C, A) is produced by some box and deviate and a polynomial that vanishes on an open
# piece of that torus vanishes identically, a non-zero remainder of the difference is a proof that the vectors differ for some
# box and deviate, a zero remainder that they agree for all.  Terms that do not reduce to such polynomials are compared with the
# general normaliser (equal: held; otherwise no verdict).
# --------------------------------------------------------------------------

def _xyz_of_same_point(repo, fi, res_eq, args, pins):
    opaque = _opaque(repo, "atbound", "atbound2", "_check_range")
    se_e = _RefEval(repo, opaque=opaque)
    se_x = _RefEval(repo, opaque=opaque)
    try:
        res_e = se_e.run(fi, dict(args), {"system": "eq"}, pins=dict(pins))
        got = se_x.run(fi, dict(args), {"system": "xyz"}, pins=dict(pins))
    except symx.Unsupported as ex:
        return None, " (system='xyz' not evaluated: %s)" % ex
    if not (isinstance(got, tuple) and all(isinstance(c, sp.Basic) for c in got)):
        return None, " (system='xyz' returns %s)" % str(got)[:120]
    if len(got) != 3:
        return False, ": it returns %d values instead of x, y, z" % len(got)
    # the same deviates must be meant: both evaluations draw the same things in the same order
    if [d[1:5] for d in _draws(se_e)] != [d[1:5] for d in _draws(se_x)] or not (isinstance(res_e, tuple) and len(res_e) == 2):
        return None, " (system='xyz' draws differently from system='eq': the deviates are not matched)"
    ra, dec = res_e
    A = sp.expand(ra * sp.pi / 180)
    D = dec * sp.pi / 180
    want = (sp.cos(D) * sp.cos(A), sp.cos(D) * sp.sin(A), sp.sin(D))
    y = sp.expand((dec + 90) * sp.pi / 180)
    names = ("x", "y", "z")
    if isinstance(y, sp.acos):
        C = y.args[0]
        T, c, s, ca, sa = sp.symbols("T_colat c_colat s_colat cosA sinA", real=True)

        def nf(t):
            t = sp.expand(sp.sympify(t)).xreplace({sp.acos(C): T}).xreplace({C: c})      # (expanded as y was: C has the same shape)

            def trig(e):
                a = sp.expand(e.args[0])
                if not a.has(T):
                    if sp.expand(a - A) == 0:
                        return ca if isinstance(e, sp.cos) else sa
                    if sp.expand(a + A) == 0:
                        return ca if isinstance(e, sp.cos) else -sa
                    return e.func(a)
                return sp.expand_trig(e.func(a)).xreplace({sp.cos(T): c, sp.sin(T): s})
            t = t.replace(lambda e: isinstance(e, (sp.sin, sp.cos)), trig)
            t = t.replace(lambda e: isinstance(e, sp.Pow) and e.exp == sp.Rational(1, 2) and sp.expand(e.base - (1 - c ** 2)) == 0, lambda e: s)
            t = sp.expand(t)
            if t.free_symbols - {c, s, ca, sa} or not t.is_polynomial(c, s, ca, sa):
                return None
            return sp.reduced(t, [s ** 2 + c ** 2 - 1, sa ** 2 + ca ** 2 - 1], s, sa, c, ca, order="lex")[1]
        try:
            forms = [(nf(g), nf(w_)) for g, w_ in zip(got, want)]
        except Exception:
            forms = [(None, None)]
        if all(g is not None and w_ is not None for g, w_ in forms):
            shown = {c: sp.Symbol("C"), s: sp.Symbol("sqrt(1-C^2)"), ca: sp.Symbol("cos(ra)"), sa: sp.Symbol("sin(ra)")}
            for n_, (g, w_) in zip(names, forms):
                if sp.expand(g - w_) != 0:
                    return False, (": with C the sampled cosine (dec = acos(C) - 90 deg, so sin(dec) = -C) the returned %s is %s, but the point (ra, dec) that "
                                   "system='eq' returns for the same deviates has %s = %s: the vector names a different point, which need not lie "
                                   "inside the requested box" % (n_, g.xreplace(shown), n_, w_.xreplace(shown)))
            return True, ""
    try:
        if all(symx.equal(g, w_)[0] for g, w_ in zip(got, want)):
            return True, ""
    except Exception:
        pass
    return None, " (the returned terms are not brought to a normal form: %s)" % str(got[2])[:120]


# --------------------------------------------------------------------------
# containment of a sampled coordinate in its box, for every box and every deviate
#
# The coordinate is a term t(lo, hi, U) over the requested limits and one uniform deviate U in [0,1).  The boxes of the property
# (allowed interval [LO,HI]) are split into the three classes its quantifier names: zero width (lo = hi = a), proper
# (lo = a, hi = a + w, 0 < w < HI-LO) and the full interval (lo = LO, hi = HI).  Each class is a product of simplices in (a, w)
# and U with some faces left out (w = 0, U = 1, the seam value a = HI).  On such a domain a form that is affine in U and jointly
# affine in (a, w) takes its extrema at the vertices, and the set where an extremum is attained is a union of product faces whose
# vertices all attain it; this decides `>= 0` and `> 0` of such forms exactly, for all points of the class at once.  With it the
# selections (Piecewise), Max/Min/Abs and the modulo operations of the term are resolved per class; the resolved term must be such a
# form and lie between lo and hi.  A modulo that stays unresolved over an argument sweeping a whole period covers the whole
# circle.  Anything else has no verdict.
# --------------------------------------------------------------------------

class _Undecided(Exception):
    pass


def _with(d, k, v):
    d = dict(d)
    d[k] = sp.Integer(v)
    return d


class _BoxClass:
    def __init__(self, name, text, lo, hi, pverts, excluded, U):
        self.name, self.text, self.lo, self.hi, self.U = name, text, lo, hi, U
        self.params = sorted({k for v in pverts for k in v}, key=str)
        self.pverts = pverts
        self.verts = [_with(v, U, u) for v in pverts for u in (0, 1)]
        self.excluded = excluded            # predicates on a vertex: the vertex lies on a face that is not part of the class
        import itertools
        psub = [c for n in range(1, len(pverts) + 1) for c in itertools.combinations(range(len(pverts)), n)]
        self.faces = [[_with(pverts[i], U, u) for i in ps for u in us] for ps in psub for us in ((0,), (1,), (0, 1))]

    def form(self, e):
        """e when it is affine in U and jointly affine in the box parameters (else _Undecided)"""
        e = sp.expand(e)
        try:
            p = sp.Poly(e, self.U, *self.params)
        except Exception:
            raise _Undecided("not a polynomial form: %s" % str(e)[:80])
        if p.free_symbols_in_domain or any(m[0] > 1 or sum(m[1:]) > 1 for m in p.monoms()):
            raise _Undecided("not affine in the deviate and the box limits: %s" % str(e)[:80])
        return e

    def values(self, e):
        e = self.form(e)
        vals = [sp.nsimplify(e.subs(v, simultaneous=True)) for v in self.verts]
        if not all(x.is_number and x.is_real for x in vals):
            raise _Undecided("vertex value of %s" % str(e)[:80])
        return vals

    def nonneg(self, e):
        return min(self.values(e)) >= 0

    def negative_somewhere(self, e):
        """the form is negative at points of the class (its closure has a negative vertex value and the class is dense in it)"""
        return min(self.values(e)) < 0

    def positive(self, e):
        """e > 0 at every point of the class: the minimum over the closure is positive, or it is zero and only attained on faces
        that are not part of the class"""
        vals = self.values(e)
        m = min(vals)
        if m != 0:
            return m > 0
        e = self.form(e)
        for face in self.faces:
            if all(sp.nsimplify(e.subs(v, simultaneous=True)) == 0 for v in face):
                if not any(all(ex(v) for v in face) for ex in self.excluded):
                    return False
        return True

    def zero(self, e):
        return all(x == 0 for x in self.values(e))

    # ---- conditions and terms of the class ----------------------------------
    def decide(self, c):
        if c is sp.true or c is sp.false:
            return bool(c)
        if isinstance(c, sp.And):
            vals = [self.decide(a) for a in c.args]
            return all(vals)
        if isinstance(c, sp.Or):
            return any([self.decide(a) for a in c.args])
        if isinstance(c, sp.Not):
            return not self.decide(c.args[0])
        if isinstance(c, sp.Rel):
            d = self.resolve(c.lhs - c.rhs)
            if isinstance(c, (sp.Eq, sp.Ne)):
                if self.zero(d):
                    r = True
                elif self.positive(d) or self.positive(-d):
                    r = False
                else:
                    raise _Undecided("%s holds for some boxes of the class only" % c)
                return r if isinstance(c, sp.Eq) else (not r)
            if isinstance(c, (sp.StrictLessThan, sp.LessThan)):
                d = -d
            if isinstance(c, (sp.StrictGreaterThan, sp.StrictLessThan)):
                if self.positive(d):
                    return True
                if self.nonneg(-d):
                    return False
            else:
                if self.nonneg(d):
                    return True
                if self.positive(-d):
                    return False
            raise _Undecided("%s holds for some boxes of the class only" % c)
        raise _Undecided("condition %s" % c)

    def resolve(self, e):
        """e with the selections, extrema, absolute values and modulo operations decided for this class"""
        e = sp.sympify(e)
        if isinstance(e, sp.Piecewise):
            for v, c in e.args:
                if self.decide(c):
                    return self.resolve(v)
            raise _Undecided("no arm of %s selected" % str(e)[:80])
        if not e.args:
            return e
        args = [self.resolve(a) for a in e.args]
        if isinstance(e, sp.Mod):
            x, m = args
            if not (m.is_number and m.is_positive):
                raise _Undecided("modulus %s" % m)
            if x.is_number:
                return sp.Mod(x, m)
            try:
                k = sp.floor(min(self.values(x)) / m)
                y = sp.expand(x - k * m)
                if self.positive(m - y):
                    return y                 # the argument stays inside one period: the operation is a shift
            except _Undecided:
                pass
            return sp.Mod(x, m, evaluate=False)
        if isinstance(e, (sp.Max, sp.Min)):
            sign = 1 if isinstance(e, sp.Max) else -1
            for a in args:
                if all(a is b or self.nonneg(sign * (a - b)) for b in args):
                    return a
            raise _Undecided("%s is not the same argument over the class" % str(e)[:80])
        if isinstance(e, sp.Abs):
            if self.nonneg(args[0]):
                return args[0]
            if self.nonneg(-args[0]):
                return -args[0]
            raise _Undecided("sign of %s" % str(args[0])[:80])
        return e.func(*args)

    def contains(self, t):
        """(True / False / None, reason) for: t lies in [lo, hi] at every point of the class"""
        try:
            r = self.resolve(t)
            if isinstance(r, sp.Mod):
                x, m = r.args
                c1 = self.form(x).coeff(self.U)
                if self.nonneg(c1 - m) or self.nonneg(-c1 - m):
                    # the argument sweeps at least one period as U runs over [0,1): every value of [0, m) is taken
                    if self.nonneg(-self.lo) and self.nonneg(self.hi - m):
                        return True, ""
                    return False, "the coordinate is %s with U in [0,1), which sweeps a whole period: every value in [0,%s) is produced" % (r, m)
                return None, "modulo operation not resolved: %s" % r
            for what, d in (("below the lower limit", r - self.lo), ("above the upper limit", self.hi - r)):
                if self.negative_somewhere(d):
                    e = self.form(d)
                    wit = [v for v in self.verts if sp.nsimplify(e.subs(v, simultaneous=True)) < 0][0]
                    return False, "the coordinate is %s, which is %s (towards %s)" % (r, what, ", ".join("%s=%s" % (k, wit[k]) for k in sorted(wit, key=str)))
            return True, ""
        except _Undecided as ex:
            return None, str(ex)


def box_classes(lo, hi, LO, HI, U):
    """the three classes of boxes [lo, hi] inside the allowed interval [LO, HI], as substitutions for (lo, hi)"""
    a, wd = sp.Symbol("a", real=True), sp.Symbol("w", real=True)
    LO, HI = sp.sympify(LO), sp.sympify(HI)
    at_u1 = lambda v: v[U] == 1
    return [
        ({lo: a, hi: a}, _BoxClass("zero-width", "a box of zero width [a, a]", a, a, [{a: LO}, {a: HI}], [at_u1, lambda v: v[a] == HI], U)),
        ({lo: a, hi: a + wd}, _BoxClass("proper", "a box [a, a+w] with 0 < w < %s" % (HI - LO), a, a + wd,
                                        [{a: LO, wd: 0}, {a: HI, wd: 0}, {a: LO, wd: HI - LO}], [at_u1, lambda v: v[wd] == 0, lambda v: v[wd] == HI - LO], U)),
        ({lo: LO, hi: HI}, _BoxClass("full", "the full interval [%s, %s]" % (LO, HI), LO, HI, [{}], [at_u1], U)),
    ]


def box_containment(t, lo, hi, LO, HI, U):
    """[(class, True/False/None, reason)]"""
    out = []
    for sub, bc in box_classes(lo, hi, LO, HI, U):
        ok, why = bc.contains(sp.sympify(t).subs(sub, simultaneous=True))
        out.append((bc, ok, why))
    return out


# --------------------------------------------------------------------------
# helpers for the cap sampler
# --------------------------------------------------------------------------

DRAW_METHODS = ("uniform", "random", "random_sample", "normal", "standard_normal")
UNIFORM_FAMILY = ("uniform", "random", "random_sample")     # deviates on [0,1) (uniform: scaled by its low/high, which symx applies)
POLE = sp.Rational(899, 10)


def _value_names(x):
    """names read as values in expression x (callee expressions left out)"""
    skip = set()
    for c in ast.walk(x):
        if isinstance(c, ast.Call):
            skip |= {id(y) for y in ast.walk(c.func)}
    return {n.id for n in ast.walk(x) if isinstance(n, ast.Name) and id(n) not in skip}


def _numeric_constants(repo, fi, names):
    """those of the names that stand for a number fixed at import: module-level constants of fi's module (a named threshold,
    `_POLE_DEC = 89.9`) that fi neither takes as a parameter nor binds itself"""
    if not names:
        return set()
    local = {p.lstrip("*") for p in fi.params} | {n.id for n in ast.walk(fi.node) if isinstance(n, ast.Name) and isinstance(n.ctx, (ast.Store, ast.Del))}
    out = set()
    se = symx.SymEval(repo)
    for nm in names - local:
        try:
            v = se.module_const(fi.module, nm)
            v = symx._as_expr(v) if symx._is_expr(v) else None
        except Exception:
            v = None
        if v is not None and v.is_number and v.is_real:
            out.add(nm)
    return out


def _polar_predicates(repo, fi, param):
    """the maximal boolean expressions of fi that depend on nothing but the centre latitude `param` (comparisons of it, or of its
    absolute value, with literals): [(node, set of latitudes where it holds or None, [(sub-condition node, its set or None), ...])]"""
    out = []
    covered = set()
    lat = sp.Symbol(param, real=True)
    for x in walk_no_nested(fi.node):
        if id(x) in covered or not isinstance(x, (ast.BoolOp, ast.Compare, ast.UnaryOp)):
            continue
        if isinstance(x, ast.UnaryOp) and not isinstance(x.op, ast.Not):
            continue
        cmps = [y for y in ast.walk(x) if isinstance(y, ast.Compare)]
        if _value_names(x) - _numeric_constants(repo, fi, _value_names(x) - {param}) != {param} or not cmps:
            continue
        if not all(isinstance(o, (ast.Lt, ast.LtE, ast.Gt, ast.GtE)) for y in cmps for o in y.ops):
            continue
        if any(isinstance(y, ast.Call) and call_name(y) not in ("abs", "fabs", "absolute") for y in ast.walk(x)):
            continue
        if any(isinstance(y, (ast.Attribute, ast.Subscript)) and not any(isinstance(c, ast.Call) and y in ast.walk(c.func) for c in ast.walk(x)) for y in ast.walk(x)):
            continue
        covered |= {id(y) for y in ast.walk(x)}
        parts = []
        for y in ast.walk(x):
            if isinstance(y, (ast.BoolOp, ast.Compare)) or (isinstance(y, ast.UnaryOp) and isinstance(y.op, ast.Not)):
                where = None
                try:
                    env = symx.Env(symx.SymEval(repo), fi, fi.module, {param: lat}, {})
                    t = env.truth(y)
                    if isinstance(t, bool):
                        where = sp.S.Reals if t else sp.S.EmptySet
                    elif isinstance(t, sp.Basic):
                        where = t.as_set()
                except Exception:
                    where = None
                parts.append((y, where))
        out.append((x, parts[0][1], parts))
    return out


def _rel_atom(c):
    """(atom, polarity) of a relational: the atom is `d > 0`, `d >= 0` or `d == 0` with d = lhs - rhs scaled to a positive
    leading coefficient, so that a relation and its negation (`p > PI` and `p <= PI`), its mirrored spelling (`PI < p`) and a
    positive multiple share the atom"""
    if isinstance(c, (sp.StrictGreaterThan, sp.GreaterThan)):
        d, strict = c.lhs - c.rhs, isinstance(c, sp.StrictGreaterThan)
    elif isinstance(c, (sp.StrictLessThan, sp.LessThan)):
        d, strict = c.rhs - c.lhs, isinstance(c, sp.StrictLessThan)
    elif isinstance(c, (sp.Eq, sp.Ne)):
        d, strict = c.lhs - c.rhs, None
    else:
        return ("cond", sp.srepr(c)), True
    d = sp.expand(d)
    pol = True
    try:
        syms = sorted(d.free_symbols, key=str)
        lc = sp.Poly(d, *syms).LC() if syms else sp.Integer(1)
        if lc.is_number and lc != 0:
            if lc.is_positive or strict is None:
                d = sp.expand(d / lc)
            else:
                # d > 0  <=>  not (-d >= 0);  d >= 0  <=>  not (-d > 0)
                d = sp.expand(d / lc)           # (= -d scaled by the positive number -lc)
                strict, pol = (not strict), False
    except Exception:
        pass
    if strict is None:
        return ("Equality", sp.srepr(d)), isinstance(c, sp.Eq)
    return ("StrictGreaterThan" if strict else "GreaterThan", sp.srepr(d)), pol


def _rel_key(c):
    return _rel_atom(c)[0]


def _cond_atoms(e, acc):
    if isinstance(e, sp.Piecewise):
        for v, c in e.args:
            _cond_rels(c, acc)
            _cond_atoms(v, acc)
    elif isinstance(e, sp.Basic):
        for a in e.args:
            _cond_atoms(a, acc)


def _cond_rels(c, acc):
    if c is sp.true or c is sp.false:
        return
    if isinstance(c, sp.Rel):
        k = _rel_key(c)
        if k not in acc:
            acc.append(k)
        _cond_atoms(c.lhs, acc)
        _cond_atoms(c.rhs, acc)
    elif isinstance(c, (sp.And, sp.Or, sp.Not)):
        for a in c.args:
            _cond_rels(a, acc)
    else:
        k = ("cond", sp.srepr(c))
        if k not in acc:
            acc.append(k)


def _cond_value(c, val):
    if c is sp.true or c == True:      # noqa
        return True
    if c is sp.false or c == False:    # noqa
        return False
    if isinstance(c, sp.And):
        return all(_cond_value(a, val) for a in c.args)
    if isinstance(c, sp.Or):
        return any(_cond_value(a, val) for a in c.args)
    if isinstance(c, sp.Not):
        return not _cond_value(c.args[0], val)
    if isinstance(c, sp.Rel):
        k, pol = _rel_atom(c)
        return val[k] if pol else (not val[k])
    return val[("cond", sp.srepr(c))]


def _select(e, val):
    """e with every Piecewise replaced by the arm chosen under the truth assignment val"""
    if isinstance(e, sp.Piecewise):
        for v, c in e.args:
            if _cond_value(c, val):
                return _select(v, val)
        return sp.nan
    if isinstance(e, sp.Basic) and e.args and e.has(sp.Piecewise):
        return e.func(*[_select(a, val) for a in e.args])
    return e


def cases_equal(a, b):
    """equality of two terms containing element-wise selections (Piecewise): compared arm by arm under every truth assignment of
    the (canonicalised) selecting conditions, so that where(c, x+y, x-y) and x + where(c, 1, -1)*y are the same term"""
    a, b = sp.sympify(a), sp.sympify(b)
    atoms = []
    _cond_atoms(a, atoms)
    _cond_atoms(b, atoms)
    if not atoms:
        return symx.equal(a, b)[0]
    if len(atoms) > 4:
        return symx.equal(a, b)[0]
    import itertools
    for bits in itertools.product((True, False), repeat=len(atoms)):
        val = dict(zip(atoms, bits))
        if not symx.equal(_select(a, val), _select(b, val))[0]:
            return False
    return True


def _only_when_none(tests, v):
    """the controlling tests say that `v` is None here (the branch of `if v is None:`, or what follows `if v is not None: return`)"""
    return any((t == "%s is None" % v and lab == "T") or (t == "%s is not None" % v and lab == "F") for t, lab in tests)


def _hands_back(repo, tgt, p, _memo={}):
    """the package function tgt returns its parameter p itself whenever p is not None: every return statement either returns the
    name p or is reached only when p is None (the fallback that builds a default), p is not re-bound except when it is None, and
    the function does not fall off its end.  `rng = _make_rng(rng, ...)` then leaves a passed generator what it was"""
    key = (id(repo), tgt.qualname, p)
    if key in _memo:
        return _memo[key]
    _memo[key] = False
    cfg = cfg_of(tgt)
    view = cfg.view()
    ok = p in [q.lstrip("*") for q in tgt.params] and not rules.falls_off_end(cfg, view) and not rules.is_generator(tgt.node)
    gave = False
    for n in cfg.nodes:
        if not ok:
            break
        if n.ast is None or not view.reachable(n):
            continue
        ts = rules.controlling_tests(view, n)
        if n.kind == "return":
            if _only_when_none(ts, p):
                continue
            if isinstance(n.ast.value, ast.Name) and n.ast.value.id == p:
                gave = True
            else:
                ok = False
        elif n.kind in ("stmt", "loop", "with"):
            d, _ = cfg.defs_uses(n)
            if p in d and not _only_when_none(ts, p):
                ok = False
    _memo[key] = bool(ok and gave)
    return _memo[key]


def _roles_kept(repo, fi, roles, gen_only):
    """the roles ('gen': the caller's generator, 'count': the requested count) the names of fi still have after its re-bindings:
    a role is lost when the name is re-bound, except (for a generator) by the fallback that runs only when none was passed
    (`if rng is None: rng = ...`) and by `rng = helper(.. rng ..)` with a package helper that hands a passed generator back"""
    cfg = cfg_of(fi)
    view = cfg.view()
    roles = dict(roles)
    for n in cfg.nodes:
        if n.ast is None or n.kind not in ("stmt", "loop", "with"):
            continue
        d, _ = cfg.defs_uses(n)
        for v in d:
            if v not in roles:
                continue
            if (roles[v] == "gen" or not gen_only) and _only_when_none(rules.controlling_tests(view, n), v):
                continue
            if roles[v] == "gen" and _rebinds_to_itself(repo, fi, n.ast, v):
                continue
            # bound to a value that does not depend on the name (nor on anything computed from it): positively not what was passed
            fresh = roles[v] == "gen" and isinstance(n.ast, ast.Assign) and len(n.ast.targets) == 1 and isinstance(n.ast.targets[0], ast.Name) \
                and v not in rules.names_in(rules.expand(n.ast.value, fi.node)) and not _aliased(fi, v)
            roles[v] = "fresh" if fresh else "rebound"
    return roles


def _aliased(fi, v):
    """the value of the parameter v is copied somewhere (`g = rng`, `self.rng = rng`, packed into a container): another name may stand for it"""
    for x in walk_no_nested(fi.node):
        if isinstance(x, (ast.Assign, ast.AnnAssign, ast.NamedExpr)) and x.value is not None:
            tg = x.targets if isinstance(x, ast.Assign) else [x.target]
            if v in rules.names_in(x.value) and not all(isinstance(t, ast.Name) and t.id == v for t in tg):
                # (results of calls and arithmetic on it are not the generator itself; a bare name, a container display or a
                # conditional / boolean selection of it is)
                vals = [x.value]
                while vals:
                    y = vals.pop()
                    if isinstance(y, ast.Name) and y.id == v:
                        return True
                    if isinstance(y, (ast.Tuple, ast.List, ast.Set)):
                        vals += list(y.elts)
                    elif isinstance(y, ast.Dict):
                        vals += [z for z in y.values if z is not None]
                    elif isinstance(y, ast.IfExp):
                        vals += [y.body, y.orelse]
                    elif isinstance(y, ast.BoolOp):
                        vals += list(y.values)
                    elif isinstance(y, ast.Starred):
                        vals.append(y.value)
    return False


def _rebinds_to_itself(repo, fi, st, v):
    """st leaves a generator that was passed as v what it is: `v = helper(.., v, ..)` where the package function helper hands the
    parameter v is bound to back when it is given, or the one-line spellings of the `is None` fallback"""
    if not (isinstance(st, ast.Assign) and len(st.targets) == 1 and isinstance(st.targets[0], ast.Name) and st.targets[0].id == v):
        return False
    c = st.value
    is_v = lambda e: isinstance(e, ast.Name) and e.id == v
    if isinstance(c, ast.IfExp):
        # v = v if v is not None else <default>  /  v = <default> if v is None else v
        t = norm(c.test)
        return (t == "%s is not None" % v and is_v(c.body)) or (t == "%s is None" % v and is_v(c.orelse))
    if isinstance(c, ast.BoolOp) and isinstance(c.op, ast.Or):
        return is_v(c.values[0])            # v = v or <default>: a generator object is true
    if not isinstance(c, ast.Call):
        return False
    d = dotted_name(c.func)
    full = repo.resolve_name(fi.module, d) if d else None
    if not (full and repo.has(full)) or any(isinstance(a, ast.Starred) for a in c.args) or any(k.arg is None for k in c.keywords):
        return False
    tgt = repo.func(full)
    if tgt.cls is not None:
        return False
    params = [p for p in tgt.params if not p.startswith("*")]
    bound = dict(zip(params, c.args))
    bound.update({k.arg: k.value for k in c.keywords})
    mine = [p for p, a in bound.items() if isinstance(a, ast.Name) and a.id == v]
    return len(mine) == 1 and _hands_back(repo, tgt, mine[0])


def _draw_sites(repo, fi, roles, seen=None):
    """every generator-draw call site reachable from fi, following calls into package functions with the roles of the parameters
    carried along (roles: parameter name -> 'gen' | 'count'): [(where, method, receiver role, size role)]"""
    seen = set() if seen is None else seen
    key = (fi.qualname, tuple(sorted(roles.items())))
    if key in seen:
        return []
    seen.add(key)
    roles = _roles_kept(repo, fi, roles, gen_only=True)
    out = []
    for x in walk_no_nested(fi.node):
        if not isinstance(x, ast.Call):
            continue
        f = x.func
        if isinstance(f, ast.Attribute) and f.attr in DRAW_METHODS and not (dotted_name(f) and repo.resolve_name(fi.module, dotted_name(f)).startswith(("numpy.", "math.", "scipy."))):
            recv = rules.expand(f.value, fi.node)
            size = kwarg(x, "size")
            if size is None:
                pos = 2 if f.attr in ("uniform", "normal") else 0
                size = x.args[pos] if len(x.args) > pos else None
            size = rules.expand(size, fi.node) if size is not None else None
            out.append((fi.where(x), f.attr,
                        roles.get(recv.id) if isinstance(recv, ast.Name) else None,
                        roles.get(size.id) if isinstance(size, ast.Name) else None))
            continue
        d = dotted_name(f)
        full = repo.resolve_name(fi.module, d) if d else None
        if full and repo.has(full):
            tgt = repo.func(full)
            params = [p for p in tgt.params if not p.startswith("*")]
            sub = {}
            for p, a in zip(params, x.args):
                a = rules.expand(a, fi.node)
                if isinstance(a, ast.Name) and roles.get(a.id) in ("gen", "count"):
                    sub[p] = roles[a.id]
            for k in x.keywords:
                a = rules.expand(k.value, fi.node)
                if k.arg and isinstance(a, ast.Name) and roles.get(a.id) in ("gen", "count"):
                    sub[k.arg] = roles[a.id]
            if "gen" in sub.values():
                out += _draw_sites(repo, tgt, sub, seen)
    return out


def _drawing_params(repo, tgt, _memo={}):
    """the parameters of the package function tgt that it draws from (directly or through the package functions it hands them
    to): a draw-method call has the parameter as receiver"""
    key = (id(repo), tgt.qualname)
    if key not in _memo:
        _memo[key] = [p for p in tgt.params if not p.startswith("*")
                      and any(g == "gen" for _, _, g, _ in _draw_sites(repo, tgt, {p: "gen"}, set()))]
    return _memo[key]


def _fresh_generator(repo, fi, a):
    """the expression is None or builds a new generator (numpy.random.RandomState(...), default_rng(...)): not the caller's generator"""
    if isinstance(a, ast.Constant) and a.value is None:
        return True
    if isinstance(a, ast.Call):
        d = dotted_name(a.func)
        full = repo.resolve_name(fi.module, d) if d else ""
        return full.startswith("numpy.random.") and full.rsplit(".", 1)[-1] in GLOBAL_RNG_OK
    return False


def _generator_handoffs(repo, fi, roles, seen=None):
    """every call, reachable from fi along the generator's flow, of a package function that draws from one of its parameters:
    [(where, callee, parameter, True: bound to the generator of fi / False: left at its default, None, or a newly built generator /
    None: bound to something the analysis does not follow)]"""
    seen = set() if seen is None else seen
    key = (fi.qualname, tuple(sorted(roles.items())))
    if key in seen:
        return []
    seen.add(key)
    roles = _roles_kept(repo, fi, roles, gen_only=False)
    out = []
    for x in walk_no_nested(fi.node):
        if not isinstance(x, ast.Call):
            continue
        d = dotted_name(x.func)
        full = repo.resolve_name(fi.module, d) if d else None
        if not (full and repo.has(full)):
            continue
        tgt = repo.func(full)
        want = _drawing_params(repo, tgt)
        if not want:
            # the callee takes no generator; it may still reach a drawing function (a helper the sampler was split into)
            out += _generator_handoffs(repo, tgt, {}, seen)
            continue
        params = [p for p in tgt.params if not p.startswith("*")]
        bound = dict(zip(params, x.args))
        bound.update({k.arg: k.value for k in x.keywords if k.arg})
        spread = any(isinstance(a, ast.Starred) for a in x.args) or any(k.arg is None for k in x.keywords)
        sub = {}
        for p in want:
            if p not in bound:
                ok = None if spread else False
                what = "left at its default"
            else:
                a = rules.expand(bound[p], fi.node)
                if isinstance(a, ast.Name) and roles.get(a.id) == "gen":
                    ok, what = True, norm(a)
                    sub[p] = "gen"
                elif _fresh_generator(repo, fi, a):
                    ok, what = False, "bound to `%s`" % norm(a)
                else:
                    ok, what = None, "bound to `%s`" % norm(a)
            out.append((fi.where(x), tgt.name, p, ok, what))
        out += _generator_handoffs(repo, tgt, sub, seen)
    return out


def generator_forwarded(chk, repo, rule, fi, param):
    """reproducibility: whatever fi draws through other package functions is drawn from the generator it was given"""
    hand = _generator_handoffs(repo, fi, {param: "gen"})
    bad = [h for h in hand if h[3] is False]
    und = [h for h in hand if h[3] is None]
    key = fi.name + "::generator-forwarded-to-drawing-callees"
    if bad:
        w, callee, p, _, what = bad[0]
        chk.ob(rule, key, False, w, "equal seeded generators must give equal output: %s() draws from its parameter `%s`, which this call leaves %s instead of "
               "passing on `%s`, so the points come from a generator the caller did not seed" % (callee, p, what.replace("left ", ""), param))
    elif und:
        w, callee, p, _, what = und[0]
        chk.ob(rule, key, None, w, "%s() draws from its parameter `%s`, %s: not followed" % (callee, p, what))
    else:
        chk.ob(rule, key, True, fi.where(), "every package function that draws on behalf of %s is handed `%s` (%d call(s): %s)"
               % (fi.name, param, len(hand), sorted({h[1] for h in hand})), nontrivial=bool(hand))


# --------------------------------------------------------------------------
# the rotated construction calls the sampler again: that call must come back
#
# "the requested number of points is always returned" for every centre and every radius up to 180 degrees: a sampler that calls
# itself must, with the arguments of that call, end on a construction that draws the points without calling itself again.  The
# function is evaluated one path at a time (every test the symbolic arguments leave open is taken both ways, the same test the
# same way along a path); a path that reaches a call of the function itself stops there with the arguments of the call as terms.
# The function is then evaluated with exactly those arguments: a path that reaches the call again with the same arguments, under
# tests that hold for some admissible radius, repeats itself for ever (RecursionError instead of points).
# --------------------------------------------------------------------------

class _Recursed(Exception):
    pass


class _PathEnv(_RefEnv):
    def truth(self, t):
        v = super().truth(t)
        if v is True or v is False or not isinstance(v, sp.Basic):
            return v
        se = self.se
        key = sp.srepr(v)
        if key not in se.forced:
            se.forced[key] = True
            se.trail.append(key)
        se.path.append((v, se.forced[key]))
        return se.forced[key]

    def exec_stmt(self, st, cond):
        if isinstance(st, ast.Raise):
            self.se.raised = True       # (every test on the way was taken one way: the path ends here)
        return super().exec_stmt(st, cond)

    def call(self, c, stmt_level=False):
        d = dotted_name(c.func)
        if d and d.split(".")[0] not in self.vars and d.split(".")[0] not in self.pins:
            tgt = self.se.rec_target
            if self.se.repo.resolve_name(self.mod, d) == tgt.qualname and not any(isinstance(a, ast.Starred) for a in c.args) \
                    and not any(k.arg is None for k in c.keywords):
                params = [p for p in tgt.params if not p.startswith("*")]
                bind = {p_: self.ev(a) for p_, a in zip(params, c.args)}
                bind.update({k.arg: self.ev(k.value) for k in c.keywords})
                self.se.reached = (list(self.se.path), bind, self.where(c))
                raise _Recursed()
        return super().call(c, stmt_level)


class _PathEval(_RefEval):
    def run_path(self, fi, args):
        env = _PathEnv(self, fi, fi.module, dict(args), {}, depth=0)
        env.pins = {}
        for p in fi.params:
            pn = p.lstrip("*")
            if pn not in env.vars and pn in fi.defaults:
                env.vars[pn] = env.ev(fi.defaults[pn])
        rets = env.exec_body(fi.node.body, sp.true)
        env.finish_returns(rets)
        return env.result


def _paths_to_self_call(repo, fi, args, opaque, limit=24):
    """every path of fi under the arguments: [(tests taken [(condition, value)], ('calls-itself', arguments, where) | ('returns', value)
    | ('raises', None) | ('not-evaluated', why))]; None when there are more than `limit` paths"""
    out = []
    work = [{}]
    while work:
        forced = work.pop()
        if len(out) + len(work) > limit:
            return None
        se = _PathEval(repo, opaque=opaque)
        se.forced, se.trail, se.path, se.reached, se.rec_target, se.raised = dict(forced), [], [], None, fi, False
        try:
            end = ("returns", se.run_path(fi, args))
            if se.raised:
                end = ("raises", None)
        except _Recursed:
            end = ("calls-itself", se.reached[1], se.reached[2])
        except Exception as ex:         # a construct the engine does not model (or sympy gave up): no verdict for the rules reading this
            end = ("not-evaluated", "%s: %s" % (type(ex).__name__, str(ex)[:120]))
        path = se.reached[0] if end[0] == "calls-itself" else list(se.path)
        taken = dict(forced)
        for key in se.trail:
            alt = dict(taken)
            alt[key] = False
            work.append(alt)
            taken[key] = True
        out.append((path, end))
    return out


def _same_arguments(a, b):
    if set(a) != set(b):
        return False
    for k in a:
        x, y = a[k], b[k]
        if isinstance(x, symx.Opaque) and isinstance(y, symx.Opaque):
            if x.what != y.what:
                return False
        elif symx._is_expr(x) and symx._is_expr(y):
            if sp.simplify(symx._as_expr(x) - symx._as_expr(y)) != 0:
                return False
        elif type(x) is not type(y) or x != y:
            return False
    return True


def _where_satisfied(path, domain):
    """the part of the domain {symbol: set} on which every test of the path has the value taken: a set of values of the single
    numeric symbol the tests read (the others have none), True when no test reads one, None when not decided.  Tests on
    uninterpreted booleans are independent of the numbers (either value possible)"""
    conds = []
    for c, val in path:
        if not isinstance(c, sp.Basic):
            return None
        if all(isinstance(s_, sp.Symbol) and str(s_).startswith("B_") for s_ in c.free_symbols) and c.free_symbols:
            continue
        conds.append(c if val else sp.Not(c))
    syms = set().union(*[c.free_symbols for c in conds]) if conds else set()
    if not syms:
        try:
            return None if not all(c in (sp.true, sp.false) for c in conds) else all(bool(c) for c in conds)
        except Exception:
            return None
    if len(syms) != 1 or not syms <= set(domain):
        return None
    x = next(iter(syms))
    try:
        where = domain[x]
        for c in conds:
            where = where.intersect(c.as_set())
        return where
    except Exception:
        return None


def recursion_returns(repo, fi, args, domain, opaque):
    """(True / False / None, text): every call of fi by itself comes back (see above)"""
    first = []
    for dorot in (True, False):
        paths = _paths_to_self_call(repo, fi, dict(args, dorot=dorot) if "dorot" in [p.lstrip("*") for p in fi.params] else dict(args), opaque)
        if paths is None:
            return None, "too many paths"
        for path, end in paths:
            if end[0] == "not-evaluated":
                return None, "path not evaluated: %s" % end[1]
            if end[0] == "calls-itself" and not any(_same_arguments(end[1], b) for b, _ in first):
                first.append((end[1], end[2]))
    if not first:
        return True, "the sampler does not call itself"
    shown = lambda b: ", ".join("%s=%s" % (k, b[k]) for k in sorted(b) if not isinstance(b[k], symx.Opaque))
    und = None
    for bind, where in first:
        cur, depth = bind, 0
        seen = [bind]
        while cur is not None and depth < 3:
            depth += 1
            paths = _paths_to_self_call(repo, fi, dict(cur), opaque)
            if paths is None:
                return None, "too many paths"
            nxt = None
            for path, end in paths:
                if end[0] == "not-evaluated":
                    und = und or "the call %s(%s) at %s was not evaluated: %s" % (fi.name, shown(cur), where, end[1])
                    continue
                if end[0] != "calls-itself":
                    continue
                sat = _where_satisfied(path, domain)
                if sat is False or sat == sp.S.EmptySet:
                    continue
                if sat is None:
                    und = und or "whether the call %s(%s) calls %s again is not decided (tests %s)" % (fi.name, shown(cur), fi.name, [str(c) for c, _ in path][:4])
                    continue
                if any(_same_arguments(end[1], b) for b in seen):
                    on = "" if sat is True else " for %s in %s" % (", ".join(sorted({str(s_) for c, _ in path for s_ in c.free_symbols if s_ in domain})) or "arguments", sat)
                    return False, ("the call %s(%s) at %s calls %s again with the same arguments%s (tests taken: %s): the recursion never reaches the construction that "
                                   "draws the points, so the call ends in RecursionError instead of returning the requested points"
                                   % (fi.name, shown(cur), where, fi.name, on, ", ".join("%s is %s" % (c, v_) for c, v_ in path) or "none"))
                nxt = end[1]
            if nxt is not None:
                seen.append(nxt)
            cur = nxt
        if cur is not None:
            und = und or "the chain of self-calls from %s is longer than 3" % where
    if und:
        return None, und
    return True, "%d call(s) of %s by itself, each of which ends on a path that draws the points without a further self-call (%s)" \
        % (len(first), fi.name, "; ".join("%s(%s)" % (fi.name, shown(b)) for b, _ in first))


def _try_run(se, fi, args, flags):
    try:
        return se.run(fi, args, flags), None
    except symx.Unsupported as e:
        return None, str(e)


def _is_triple(res):
    return isinstance(res, tuple) and len(res) == 3 and all(isinstance(x, sp.Basic) for x in res)


def randcap(chk, repo):
    fi = repo.func(CO + "randcap")
    chk.analysed_unit(fi.qualname)
    ra, dec, rad, nrand = symx.symbols("ra", "dec", "rad", "nrand")
    rng = symx.Opaque("rng")
    AT = sp.Function("atbound")
    CL = sp.Function("CLIP")
    d2r = sp.pi / 180
    R = "R19.cap"
    w = fi.where()
    # ---- which path is taken: the polar test is a predicate of the centre latitude alone
    preds = _polar_predicates(repo, fi, "dec")
    polar_set = sp.Union(sp.Interval(-sp.oo, -POLE), sp.Interval(POLE, sp.oo))
    assume_direct = {}
    polar_ok = None
    away = sp.Interval.open(-POLE, POLE)        # centre latitudes of the direct construction
    if preds and all(s is not None for _, s, _ in preds):
        polar_ok = all(s in (polar_set, away) for _, s, _ in preds)
        for _, _, parts in preds:
            for node, s in parts:               # the test and its sub-conditions, as far as they are constant away from the poles
                if s is None:
                    continue
                if s.intersect(away) == sp.S.EmptySet:
                    assume_direct["text:" + norm(node)] = False
                elif away.is_subset(s):
                    assume_direct["text:" + norm(node)] = True
    args = {"nrand": nrand, "ra": ra, "dec": dec, "rad": rad, "rng": rng}
    # ---- reproducibility: the recursive / helper calls that draw are handed the passed generator
    generator_forwarded(chk, repo, R, fi, "rng")
    # ---- the requested points are returned for every radius: the sampler's call of itself comes back
    okr, whyr = recursion_returns(repo, fi, dict(args, get_radius=True), {rad: sp.Interval.Lopen(0, 180), dec: sp.Interval(-90, 90), ra: sp.Interval(0, 360)},
                                  _opaque(repo, "atbound", "atbound2", "rotate"))
    chk.ob(R, "randcap::self-call-returns", okr, w, "for every centre and every radius up to 180 degrees the points are returned: a call of randcap by itself must end on the "
           "construction that draws them (%s)" % whyr)

    def unrec(keys, why):
        for k in keys:
            chk.ob(R, k, None, w, why)

    DIRECT = ["randcap[direct]::draws-from-passed-generator", "randcap[direct]::dec-formula", "randcap[direct]::ra-folded-into-[0,360]",
              "randcap[direct]::ra-formula", "randcap[direct]::returned-radius-in-degrees"]
    ROTATED = ["randcap[rotated]::returned-radius-in-degrees", "randcap[rotated]::positions-are-rotated-cap", "randcap[rotated]::rotation-sequence",
               "randcap[rotated]::inner-cap"]
    if not assume_direct:
        unrec(DIRECT + ROTATED + ["randcap::polar-fallback"], "no test of the centre latitude alone selects between the direct and the rotated construction: path selection not recognised")
        return
    # ---- RNG provenance: every draw reachable from randcap is a method call on the passed generator with size = the requested count
    sites = _draw_sites(repo, fi, {"rng": "gen", "nrand": "count"})
    prov = bool(sites) and all(g == "gen" and c == "count" for _, _, g, c in sites)
    # ---- direct path
    se = _RefEval(repo, opaque=_opaque(repo, "atbound", "atbound2"))
    se.assume = dict(assume_direct)
    res, err = _try_run(se, fi, dict(args, dorot=False), {"get_radius": True})
    dr = _draws(se)
    rra = rdec = None
    if err is not None or not isinstance(res, tuple):
        unrec(DIRECT, "direct path not evaluated: %s" % (err or "result %r" % (res,)))
    elif len(res) != 3:
        chk.ob(R, "randcap[direct]::returns-triple", False, w, "get_radius=True must return (ra, dec, radius); got %d values" % len(res))
    else:
        ok = len(dr) == 2 and all(d[1] in UNIFORM_FAMILY for d in dr) and prov
        if len(dr) > 2 and any(isinstance(x, sp.Piecewise) for x in res):
            ok = None       # both constructions were evaluated and merged: the path selection was not recognised
        chk.ob(R, "randcap[direct]::draws-from-passed-generator", ok if sites else None, w,
               "exactly two uniform deviates (radius, position angle), every draw a method of the passed generator with size = the requested count: "
               "evaluated draws %s; draw sites %s" % ([(d[1], d[2], d[4]) for d in dr], sites))
        if len(dr) != 2 or not _is_triple(res):
            unrec(DIRECT[1:], "direct path: %d deviates, result %s" % (len(dr), str(res)[:120]))
        else:
            U1, U2 = sp.Symbol(dr[0][5]), sp.Symbol(dr[1][5])
            r = sp.sqrt(U1) * rad * d2r
            psi = 2 * sp.pi * U2
            th = (dec + 90) * d2r
            ph = ra * d2r
            cos_t2 = CL(sp.cos(th) * sp.cos(r) + sp.sin(th) * sp.sin(r) * sp.cos(psi), -1, 1)
            t2 = sp.acos(cos_t2)
            cosD = CL((sp.cos(r) - sp.cos(th) * cos_t2) / (sp.sin(th) * sp.sin(t2)), -1, 1)
            D = sp.acos(cosD)
            rra, rdec, rr = res
            eq, d = symx.equal(rdec, t2 / d2r - 90)
            chk.ob(R, "randcap[direct]::dec-formula", eq, w, "colatitude of the point from the spherical law of cosines with a two-sided clip before acos%s" % ("" if eq else " (difference %s)" % str(d)[:160]))
            ok = isinstance(rra, AT) and rra.args[1:] == (0, 360)
            chk.ob(R, "randcap[direct]::ra-folded-into-[0,360]", bool(ok), w, "the generated longitude is folded into [0,360] on the direct path")
            inner = rra.args[0] if isinstance(rra, AT) else rra
            want = sp.Piecewise(((ph + D) / d2r, psi > sp.pi), ((ph - D) / d2r, True))
            eq = cases_equal(inner, want)
            chk.ob(R, "randcap[direct]::ra-formula", bool(eq), w, "longitude = centre +/- acos(clip((cos r - cos t cos t2)/(sin t sin t2))) by position angle")
            eq, d = symx.equal(rr, sp.sqrt(U1) * rad)
            chk.ob(R, "randcap[direct]::returned-radius-in-degrees", eq, w,
                   "returned radii are the generated separations sqrt(U)*rad in degrees (found %s)" % rr)
    # ---- rotated path: radii must be the same quantity in the same unit; positions are the equatorial cap, tilted then turned
    se2 = _RefEval(repo, opaque=_opaque(repo, "atbound", "atbound2", "rotate"))
    se2.assume = dict(assume_direct)
    res2, err = _try_run(se2, fi, dict(args, dorot=True), {"get_radius": True})
    dr2 = _draws(se2)
    if err is not None or not isinstance(res2, tuple):
        unrec(ROTATED, "rotated path not evaluated: %s" % (err or "result %r" % (res2,)))
        res2 = None
    elif len(res2) != 3:
        chk.ob(R, "randcap[rotated]::returns-triple", False, w, "get_radius=True must return (ra, dec, radius); got %d values" % len(res2))
        res2 = None
    elif not dr2 or not _is_triple(res2):
        unrec(ROTATED, "rotated path: %d deviates, result %s" % (len(dr2), str(res2)[:120]))
        res2 = None
    else:
        V1 = sp.Symbol(dr2[0][5])
        rr2 = res2[2]
        eq, d = symx.equal(rr2, sp.sqrt(V1) * rad)
        factor = sp.simplify(rr2 / (sp.sqrt(V1) * rad))
        chk.ob(R, "randcap[rotated]::returned-radius-in-degrees", eq, w,
               "on the rotated path the returned radii are those of the generated cap, still in degrees%s"
               % ("" if eq else ": they are %s times too large (converted rad->deg a second time after the inner call already returned degrees)" % factor))
        # positions: rotate(ra - 90, 0, 0, *rotate(0, dec - 0, 0, X, Y)) with (X, Y) the direct construction at (90, 0)
        shape = _rotation_shape(res2[0], res2[1])
        if shape is None:
            unrec(ROTATED[1:], "the rotated positions are not two nested applications of rotate(): %s" % str(res2[0])[:160])
        else:
            outer, inner_, X, Y = shape
            chk.ob(R, "randcap[rotated]::positions-are-rotated-cap", True, w, "positions come from rotating a generated cap to the requested centre")
            if outer is None:
                chk.ob(R, "randcap[rotated]::rotation-sequence", False, w,
                       "tilt by (dec - 0) about the node, then turn by (ra - 90) about the pole: a single rotate%s is applied instead" % (inner_,))
            else:
                ok = all(symx.equal(a, b)[0] for a, b in zip(inner_, (0, dec, 0))) and all(symx.equal(a, b)[0] for a, b in zip(outer, (ra - 90, 0, 0)))
                chk.ob(R, "randcap[rotated]::rotation-sequence", ok, w,
                       "tilt by (dec - 0) about the node, then turn by (ra - 90) about the pole (found rotate%s after rotate%s)" % (outer, inner_))
            if rra is None or len(dr2) != 2:
                chk.ob(R, "randcap[rotated]::inner-cap", None if rra is None else False, w,
                       "the equatorial cap is the direct construction at (90, 0) with the same count, radius and generator (%d deviates)" % len(dr2))
            else:
                sub = {ra: 90, dec: 0, sp.Symbol(dr[0][5]): sp.Symbol(dr2[0][5]), sp.Symbol(dr[1][5]): sp.Symbol(dr2[1][5])}
                ok = all(d[1] in UNIFORM_FAMILY for d in dr2) and prov and cases_equal(X, rra.subs(sub, simultaneous=True)) and cases_equal(Y, rdec.subs(sub, simultaneous=True))
                chk.ob(R, "randcap[rotated]::inner-cap", bool(ok), w, "the equatorial cap is the direct construction at (90, 0) with the same count, radius and generator")
    # ---- polar centres force the rotated path
    if polar_ok is None or res2 is None:
        chk.ob(R, "randcap::polar-fallback", None, w, "polar test or rotated path not recognised")
    elif not polar_ok:
        chk.ob(R, "randcap::polar-fallback", False, w, "centres within 0.1 degree of a pole use the rotated path: the latitude test holds on %s" % [str(s) for _, s, _ in preds])
    else:
        ok = True
        why = ""
        for pole in (90, -90, POLE, -POLE):
            se3 = _RefEval(repo, opaque=_opaque(repo, "atbound", "atbound2", "rotate"))
            res3, err = _try_run(se3, fi, dict(args, dec=sp.sympify(pole), dorot=False), {"get_radius": True})
            if err is not None or not _is_triple(res3):
                ok, why = None, "centre latitude %s not evaluated: %s" % (pole, err or res3)
                break
            if not all(symx.equal(a, b.subs(dec, pole))[0] for a, b in zip(res3, res2)):
                ok, why = False, "at centre latitude %s the result is not the rotated construction" % pole
                break
        chk.ob(R, "randcap::polar-fallback", ok, w, "centres within 0.1 degree of a pole use the rotated path %s" % why)


def _rotation_shape(pa, pb):
    """(outer angles or None, inner angles, X, Y) when (pa, pb) are the two components of rotate(o, *rotate(i, X, Y)) or of one
    rotate(i, X, Y); None when they are not rotate applications"""
    def comp(t, k):
        return isinstance(t, sp.Basic) and getattr(t.func, "__name__", "") == "rotate_%d" % k and len(t.args) == 5
    if not (comp(pa, 0) and comp(pb, 1) and pa.args == pb.args):
        return None
    a = pa.args
    if comp(a[3], 0) and comp(a[4], 1) and a[3].args == a[4].args:
        b = a[3].args
        return tuple(a[:3]), tuple(b[:3]), b[3], b[4]
    return None, tuple(a[:3]), a[3], a[4]


SAMPLERS = [CO + "randsphere", CO + "randcap", RA + "Generator.__init__", RA + "Generator.sample", RA + "Generator._genrand_accum", RA + "Generator._genrand_cut",
            RA + "Generator.generate_cut_values", RA + "CholeskySampler.__init__", RA + "CholeskySampler.sample", RA + "cholesky_sample", RA + "random_indices"]


def _private_callees(repo, fi):
    """package-private functions / methods of the same class that fi calls"""
    out = []
    for x in walk_no_nested(fi.node):
        if not isinstance(x, ast.Call):
            continue
        d = dotted_name(x.func)
        if not d:
            continue
        if d.startswith("self.") and d.count(".") == 1 and fi.cls:
            full = "%s.%s.%s" % (fi.module.name, fi.cls, d[5:])
        else:
            full = repo.resolve_name(fi.module, d)
        leaf = full.rsplit(".", 1)[-1]
        if repo.has(full) and leaf.startswith("_") and not leaf.startswith("__") and full not in out:
            out.append(full)
    return out


def _fallback_operand(root, x):
    """x lies in the operand of an expression that is evaluated only when some <generator> is None: the one-line spellings of the
    fallback, `<new> if g is None else g`, `g if g is not None else <new>`, `g or <new>`"""
    def inside(sub):
        return any(y is x for y in ast.walk(sub))
    simple = lambda e: dotted_name(e) is not None
    for y in ast.walk(root):
        if isinstance(y, ast.IfExp) and isinstance(y.test, ast.Compare) and len(y.test.ops) == 1 and simple(y.test.left) \
                and isinstance(y.test.comparators[0], ast.Constant) and y.test.comparators[0].value is None:
            if (isinstance(y.test.ops[0], ast.Is) and inside(y.body)) or (isinstance(y.test.ops[0], ast.IsNot) and inside(y.orelse)):
                return True
        if isinstance(y, ast.BoolOp) and isinstance(y.op, ast.Or) and simple(y.values[0]) and any(inside(v) for v in y.values[1:]):
            return True
    return False


def rng_discipline(chk, repo):
    units = list(SAMPLERS)
    for q in units:                     # the list grows while it is walked: helpers the samplers were split into
        if repo.has(q):
            for h in _private_callees(repo, repo.func(q)):
                if h not in units:
                    units.append(h)
    for q in units:
        fi = repo.func(q)
        chk.analysed_unit(q)
        cfg = cfg_of(fi)
        view = cfg.view()
        bad = []
        n_glob = 0
        for n in cfg.nodes:
            exprs = []
            if n.ast is None:
                continue
            roots = [n.ast.test] if n.kind == "branch" else ([n.ast] if n.kind in ("stmt", "return") else [])
            for root in roots:
                for x in ast.walk(root):
                    d = dotted_name(x) if isinstance(x, ast.Attribute) else None
                    if d:
                        full = repo.resolve_name(fi.module, d)
                        if full.startswith("numpy.random.") and full.count(".") == 2:
                            n_glob += 1
                            leaf = full.split(".")[-1]
                            ts = rules.controlling_tests(view, n)
                            # reached only when some <generator> is None: the arm of `if g is None:` or the code after the guard
                            # clause `if g is not None: return g`
                            fallback = any((t.endswith(" is None") and " " not in t[:-8] and lab == "T") or
                                           (t.endswith(" is not None") and " " not in t[:-12] and lab == "F") for t, lab in ts) \
                                or _fallback_operand(root, x)
                            if leaf in GLOBAL_RNG_OK and fallback:
                                continue
                            if leaf in ("randn",) and fallback and isinstance(n.ast, ast.Assign):
                                continue      # documented default deviate source when dist= is not given
                            bad.append("%s at %s" % (d, fi.where(n.ast)))
        chk.ob("R19.rng", q + "::no-global-state-draw", not bad, fi.where(),
               "no numpy.random global-state call except the documented fallback under `<generator> is None` (%d numpy.random references; offending: %s)" % (n_glob, bad))
    # positive example for the zero-expected rule
    import tempfile, os, shutil
    d = tempfile.mkdtemp(prefix="vcheck-pos-")
    try:
        os.makedirs(os.path.join(d, "esutil"))
        open(os.path.join(d, "esutil", "__init__.py"), "w").write("import numpy as np\ndef f(n, rng=None):\n    if rng is None:\n        rng = np.random.RandomState()\n    return np.random.uniform(size=n)\n")
        r2 = PyRepo(d)
        fi = r2.func("esutil.f")
        hits = [x for x in ast.walk(fi.node) if isinstance(x, ast.Attribute) and (dotted_name(x) or "").startswith("np.random.") and dotted_name(x).count(".") == 2]
        if len(hits) != 2:
            raise AnalysisError("RNG-discipline self check failed")
    finally:
        shutil.rmtree(d, ignore_errors=True)


# --------------------------------------------------------------------------
# a small forward evaluator for the set-up / transform code of the samplers: every value becomes a term over the inputs in which
# library calls stay applied function symbols with their arguments (cumulative_trapezoid(p, x), dot(M, r), x[1:], v[-1], ...),
# private helpers and methods of the same object are followed, and branches are decided from literal flag values.  It yields the
# same terms for the same data flow however the statements are grouped into temporaries, helpers, guard clauses or if/else arms.
# --------------------------------------------------------------------------

class NoVerdict(Exception):
    """a construct the evaluator does not model: the rules reading its result have no verdict"""


class _Ret(Exception):
    def __init__(self, value):
        self.value = value


class _Raised(Exception):
    pass


UNK = type("Unk", (), {"__repr__": lambda s: "UNK"})()      # a value known only to be undecided (usable in tests, nowhere else)
NONE_T = sp.Symbol("None")
Fn = sp.Function
T_, DOT, ROWADD, ROWADDN, COLADD, COL, AT_, SLICE, SHAPE, SIZE, LEN, RESHAPE, APPLY, CHOL, CUMTRAPZ, CUMSUM, DIFF = [
    Fn(n) for n in ("T", "DOT", "ROWADD", "ROWADDN", "COLADD", "COL", "AT", "SLICE", "SHAPE", "SIZE", "LEN", "RESHAPE", "APPLY", "CHOL",
                    "CUMTRAPZ", "CUMSUM", "DIFF")]
IDENT_FUNCS = {"numpy.array", "numpy.asarray", "numpy.atleast_1d", "numpy.atleast_2d", "numpy.asanyarray", "numpy.ascontiguousarray", "float", "int",
               "numpy.float64"}
IDENT_METHODS = {"copy", "astype", "view"}
BUILTIN_TYPES = {"bool", "int", "float", "complex", "object", "str"}
SETITEM, INVERT, SL = Fn("SETITEM"), Fn("INVERT"), Fn("SL")
CAST = Fn("CAST")
CMP = {ast.Lt: Fn("CMP_lt"), ast.LtE: Fn("CMP_le"), ast.Gt: Fn("CMP_gt"), ast.GtE: Fn("CMP_ge"), ast.Eq: Fn("CMP_eq"), ast.NotEq: Fn("CMP_ne")}
ARITH_FUNCS = {"numpy.add": ast.Add, "numpy.subtract": ast.Sub, "numpy.multiply": ast.Mult, "numpy.divide": ast.Div, "numpy.true_divide": ast.Div}


# ---- element types ------------------------------------------------------------------------------------------------------------
# numpy's allocation functions: position of the dtype argument, and what the element type is when none is given
BUFFER_FUNCS = {"numpy.empty": (1, "f8"), "numpy.zeros": (1, "f8"), "numpy.ones": (1, "f8"), "numpy.ndarray": (1, "f8"), "numpy.full": (2, "fill"),
                "numpy.empty_like": (1, "proto"), "numpy.zeros_like": (1, "proto"), "numpy.ones_like": (1, "proto"), "numpy.full_like": (2, "proto")}


def _all_full(sl):
    """the subscript is `:, :` (, ...): every element of the array"""
    return isinstance(sl, ast.Tuple) and bool(sl.elts) and all(isinstance(x, ast.Slice) and x.lower is None and x.upper is None and x.step is None for x in sl.elts)


def _own_dtype(t):
    """the element type (a dtype term) that the array t keeps when values are stored into it: the one it was allocated with or
    converted to, otherwise `its own` (ATTR_dtype(t), decided from the term by elem_class)"""
    n = fname(t)
    if n == "CAST":
        return t.args[1]
    if n in BUFFER_FUNCS:
        pos, default = BUFFER_FUNCS[n]
        plain = [a for a in t.args if not fname(a).startswith("KW_")]
        for a in t.args:
            if fname(a) == "KW_dtype":
                if a.args[0] != NONE_T:
                    return a.args[0]
                plain = plain[:pos]
        if len(plain) > pos and plain[pos] != NONE_T:
            return plain[pos]
        if default == "f8":
            return sp.Symbol("'f8'")
        if default == "proto" and plain:
            return Fn("ATTR_dtype")(plain[0])
        if default == "fill" and len(plain) > 1:
            return Fn("ATTR_dtype")(plain[1])
        return sp.Symbol("unknown-dtype")
    return Fn("ATTR_dtype")(t)


def _dtype_table():
    """name of a numpy element type -> (kind, bits): kind 'b' bool, 'i' signed, 'u' unsigned, 'f' floating, 'c' complex.  LP64 Linux
    (DESIGN section 4.6): C long and numpy's default integer are 8 bytes"""
    t = {}
    for bits in (8, 16, 32, 64):
        t["i%d" % (bits // 8)] = t["int%d" % bits] = ("i", bits)
        t["u%d" % (bits // 8)] = t["uint%d" % bits] = ("u", bits)
    for names, kb in (
            (("bool", "bool_", "bool8", "?", "b1"), ("b", 1)),
            (("b", "byte"), ("i", 8)), (("B", "ubyte"), ("u", 8)), (("h", "short"), ("i", 16)), (("H", "ushort"), ("u", 16)),
            (("i", "intc"), ("i", 32)), (("I", "uintc"), ("u", 32)),
            (("l", "q", "p", "n", "int", "int_", "intp", "long", "longlong"), ("i", 64)),
            (("L", "Q", "P", "N", "uint", "uintp", "ulong", "ulonglong"), ("u", 64)),
            (("e", "f2", "float16", "half"), ("f", 16)), (("f", "f4", "float32", "single"), ("f", 32)),
            (("d", "f8", "float64", "float", "float_", "double"), ("f", 64)), (("g", "f16", "float128", "longdouble", "longfloat"), ("f", 128)),
            (("F", "c8", "complex64", "csingle", "singlecomplex"), ("c", 64)),
            (("D", "c16", "complex128", "complex", "complex_", "cdouble", "cfloat"), ("c", 128)),
            (("G", "c32", "complex256", "clongdouble", "clongfloat", "longcomplex"), ("c", 256))):
        for n in names:
            t[n] = kb
    return t


DTYPES = _dtype_table()


def _dtype_info(d):
    """(kind, bits) of a dtype term that names an element type -- a string ('i4', '<f8', 'float64'), a numpy scalar type
    (numpy.int32), a builtin (int, float, bool, complex), numpy.dtype(<one of these>) -- else None"""
    if fname(d) == "numpy.dtype" and len(d.args) == 1:
        return _dtype_info(d.args[0])
    if not isinstance(d, sp.Symbol):
        return None
    n = str(d)
    if len(n) >= 2 and n[0] == n[-1] and n[0] in "'\"":
        n = n[1:-1].strip()
        if n[:1] in "<>=|" and len(n) > 1:
            n = n[1:]
        return DTYPES.get(n)
    if n.startswith("numpy."):
        n = n[6:]
        return DTYPES.get(n) if len(n) > 3 and n not in ("float", "complex") else None       # (scalar types; not the one-letter codes)
    return DTYPES.get(n) if n in ("int", "float", "bool", "complex") else None


def _holds_double(info):
    return info[0] == "f" and info[1] >= 64 or info[0] == "c" and info[1] >= 128


def dtype_class(d, inputs):
    """abstract element type named by the dtype term d, for real-valued data: 'real' (holds every double: float64 or wider),
    'narrow' (an integer, boolean or shorter floating type: a double stored into it is truncated or rounded), 'input:<name>' (the
    element type of the caller's array <name>, which is whatever the caller passed: integer for integer data), None (not decided)"""
    info = _dtype_info(d)
    if info is not None:
        return "real" if _holds_double(info) else "narrow"
    n = fname(d)
    if n == "numpy.dtype" and len(d.args) == 1:
        return dtype_class(d.args[0], inputs)
    if n == "ATTR_dtype":
        return elem_class(d.args[0], inputs)
    if n in ("numpy.result_type", "numpy.promote_types", "numpy.common_type") and d.args:
        # at least as wide as every argument (arrays and dtypes alike)
        return _promote([(dtype_class(a, inputs) if (_dtype_info(a) is not None or fname(a) in ("ATTR_dtype", "numpy.dtype")) else elem_class(a, inputs)) for a in d.args])
    return None


def _promote(cs):
    if "real" in cs:
        return "real"                  # a float64 operand makes the result float64 or wider, whatever the other real operands are
    if None in cs or not cs:
        return None
    ins = sorted({c for c in cs if c.startswith("input:")})
    if not ins:
        return "narrow"
    return ins[0] if len(ins) == 1 else "input:" + "+".join(c[6:] for c in ins)


def elem_class(t, inputs):
    """abstract element type (see dtype_class) of the array-valued term t; `inputs`: symbol -> class for the arrays the caller
    passes.  Library facts used: arithmetic and dot promote to the widest operand; numpy.linalg.cholesky returns a floating factor;
    a deviate source returns floating deviates; reshape / transpose / element and slice selection / copy keep the element type;
    an in-place row update (`V[i, :] += m[i]`) keeps the type of the array updated"""
    t = sp.sympify(t)
    if t in inputs:
        return inputs[t]
    if t.is_number:
        return "real" if (t.is_Float or (t.is_Rational and not t.is_Integer) or t.is_irrational) else "narrow"
    n = fname(t)
    if n == "CAST":
        return dtype_class(t.args[1], inputs)
    if n in BUFFER_FUNCS:
        return dtype_class(_own_dtype(t), inputs)
    if n in ("CHOL", "APPLY"):
        return "real"
    if n in ("T", "RESHAPE", "AT", "SLICE", "COL", "ATCOL", "ROWADDN", "M_copy", "M_ravel", "M_flatten", "M_squeeze", "numpy.transpose", "numpy.squeeze",
             "numpy.ravel", "numpy.atleast_1d", "numpy.atleast_2d"):
        return elem_class(t.args[0], inputs)
    if n in ("DOT", "ROWADD", "COLADD"):
        return _promote([elem_class(a, inputs) for a in t.args[:2]])
    if isinstance(t, (sp.Add, sp.Mul)):
        return _promote([elem_class(a, inputs) for a in t.args])
    return None


def value_casts(t):
    """the CAST applications of t that convert (part of) the VALUE t stands for: not those inside shapes, counts, sizes, dtype
    expressions, indices or the arguments a deviate source is called with"""
    out = []

    def go(x):
        n = fname(x)
        if not isinstance(x, sp.Basic) or not x.args or n in ("SHAPE", "SIZE", "LEN", "APPLY") or n.startswith(("ATTR_", "KW_")) or n in BUFFER_FUNCS:
            return
        if n == "CAST":
            out.append(x)
            go(x.args[0])
        elif n in ("RESHAPE", "AT", "SLICE", "ATCOL", "SETITEM"):
            go(x.args[0])
        elif n == "ROWADDN":
            go(x.args[0])
            go(x.args[1])
        else:
            for a in x.args:
                go(a)
    go(sp.sympify(t))
    return out


def real_data_cast(c, inputs):
    """(True / False / None, text) for one conversion CAST(value, dtype, where) of real-valued data (see dtype_class)"""
    v, d, where = c.args
    cd, cv = dtype_class(d, inputs), elem_class(v, inputs)
    shown = "the element type `%s`" % str(d)[:60].replace("ATTR_dtype", "dtype of ")
    if cd == "real":
        return True, ""
    if cd is None or cv is None:
        return None, "%s converts %s to %s: not decided" % (where, str(v)[:80], shown)
    if cd == cv or cv == "narrow":
        return True, ""                # the value has that element type already (or is an integer constant)
    if cd == "narrow":
        return False, ("%s converts %s to %s, which does not hold a double: the fractional part (or the precision) of the %s is lost"
                       % (where, str(v)[:100], shown, "floating values computed" if cv == "real" else "values the caller passed"))
    if cv == "real":                   # cd is the element type of a caller's array
        return False, ("%s converts the floating values %s to %s, i.e. to whatever the caller passed as `%s`: when that holds integers (a list of "
                       "ints, an integer array) the values are truncated to integers" % (where, str(v)[:100], shown, cd[6:]))
    return None, "%s converts %s (%s) to %s (%s): not decided" % (where, str(v)[:80], cv, shown, cd)


def term(v):
    """python value -> sympy term"""
    if isinstance(v, sp.Basic):
        return v
    if v is None:
        return NONE_T
    if isinstance(v, bool):
        return sp.Symbol("True" if v else "False")
    if isinstance(v, str):
        return sp.Symbol(repr(v))
    if isinstance(v, (tuple, list)):
        return sp.Tuple(*[term(x) for x in v])
    raise NoVerdict("value %r is not a term" % (v,))


def fname(t):
    return getattr(getattr(t, "func", None), "__name__", "")


def applications(t, name):
    """all sub-terms that are applications of the function symbol `name`"""
    return [x for x in sp.preorder_traversal(t) if fname(x) == name]


class Mini:
    def __init__(self, repo, ranks=None):
        self.repo = repo
        self.ranks = dict(ranks or {})      # input symbol -> array rank
        self.state = {}                     # "self.attr" -> value, shared by the methods of one object
        self.calls = []                     # qualified names of the helpers followed
        self.square = set()                 # input symbols known to be square matrices
        # path exploration (mini_paths): a comparison of symbolic input terms that the flags do not decide is a free atom; one
        # truth value per atom and path (the same atom, or its negation, met again on the path keeps its value)
        self.forced = None                  # atom -> bool chosen for this path; None: no exploration (undecided tests have no verdict)
        self.trail = []                     # atoms first met on this path, in order, with the value taken
        # path exploration over tests nothing decides (mini_forks): `if isinstance(p, FunctionType):` is taken both ways, one
        # run per combination; a test met again (same statement) keeps its value
        self.fork = None                    # (function, line, column) of an if statement -> arm taken on this path; None: no exploration
        self.fork_trail = []
        self.fork_leaves = {}               # the same key -> the leaves of the test as terms (see test_leaves), where it was met
        self.entries = []                   # (qualified name, object state on entry) of every function evaluated
        self.depth = 0                      # nesting of followed calls; `at`: the statement of the outermost function being evaluated
        self.at = None
        self.elementwise = False            # comparisons of array terms used as values are kept as terms (masks) instead of UNK
        # element types: with keep_casts every conversion of a value to a named element type (astype, array(.., dtype=), int()/float(),
        # a store into the whole of an array that has an element type of its own, an in-place update of such an array) stays in the
        # term as CAST(value, element type, where); without it these are the identities they are on the values (the term rules)
        self.keep_casts = False

    # ---- ranks / broadcasting -------------------------------------------
    def rank(self, t):
        if not isinstance(t, sp.Basic):
            return None
        if t in self.ranks:
            return self.ranks[t]
        n = fname(t)
        if t.is_number:
            return 0
        if n == "DOT":
            a, b = self.rank(t.args[0]), self.rank(t.args[1])
            if a == 2 and b == 2:
                return 2
            if a is not None and b is not None and {a, b} == {1, 2}:
                return 1
            return None
        if n in ("T", "ROWADD", "ROWADDN", "COLADD", "CAST"):
            return self.rank(t.args[0])
        if n == "RESHAPE":
            return len(t.args) - 1
        if n == "CHOL":
            return 2
        if n == "COL":
            return 2
        if n == "AT":
            r = self.rank(t.args[0])
            return None if r is None or r == 0 else r - 1
        if isinstance(t, (sp.Add, sp.Mul)):
            rs = [self.rank(a) for a in t.args]
            return None if any(r is None for r in rs) else max(rs)
        return None

    def add(self, a, b):
        a, b = term(a), term(b)
        if fname(b) == "COL":
            return ROWADD(a, b.args[0])
        if fname(a) == "COL":
            return ROWADD(b, a.args[0])
        if self.rank(a) == 2 and self.rank(b) == 1:
            return COLADD(a, b)
        if self.rank(b) == 2 and self.rank(a) == 1:
            return COLADD(b, a)
        return a + b

    def binop(self, op, a, b):
        if isinstance(op, type):
            op = op()
        if isinstance(op, ast.Add):
            return self.add(a, b)
        if isinstance(op, ast.MatMult):
            return DOT(term(a), term(b))
        a, b = term(a), term(b)
        if any(fname(x) == "COL" for x in (a, b)):
            raise NoVerdict("broadcast of a column in %s" % type(op).__name__)
        if isinstance(op, ast.Sub):
            return a - b
        if isinstance(op, ast.Mult):
            return a * b
        if isinstance(op, ast.Div):
            return a / b
        if isinstance(op, ast.Pow):
            return a ** b
        if isinstance(op, ast.Mod):
            if any(str(s).startswith("'") for s in a.free_symbols):
                return UNK
            return sp.Mod(a, b)
        raise NoVerdict("operator %s" % type(op).__name__)

    def tnorm(self, t):
        """transposes pushed to the leaves: T(T(x)) = x, T(A.B) = T(B).T(A), T(X +rows m) = T(X) +cols m"""
        if not isinstance(t, sp.Basic) or not t.args:
            return t
        if fname(t) == "T":
            x = self.tnorm(t.args[0])
            n = fname(x)
            if n == "T":
                return x.args[0]
            if self.rank(x) in (0, 1):
                return x
            if n == "DOT" and self.rank(x.args[0]) == 2 and self.rank(x.args[1]) == 2:
                return DOT(self.tnorm(T_(x.args[1])), self.tnorm(T_(x.args[0])))
            if n == "ROWADD":
                return COLADD(self.tnorm(T_(x.args[0])), x.args[1])
            if n == "COLADD":
                return ROWADD(self.tnorm(T_(x.args[0])), x.args[1])
            return T_(x)
        return t.func(*[self.tnorm(a) for a in t.args])

    # ---- element types -------------------------------------------------------
    def cast(self, v, d, where):
        if v is UNK or d is UNK:
            return UNK
        return CAST(term(v), term(d), sp.Symbol(where))

    def converted(self, full, c, args, env, fi):
        """value of a call of one of IDENT_FUNCS with the conversion it makes kept: int(x) / float(x) / numpy.float64(x), and
        numpy.array(x, dtype=D) and its relatives (D also as second positional argument); dtype=None converts nothing"""
        where = "`%s` at %s" % (norm(c)[:80], fi.where(c))
        if full in ("int", "float", "numpy.float64"):
            return self.cast(args[0], sp.Symbol(full), where)
        kws = {k.arg: k.value for k in c.keywords}
        d = None
        if "dtype" in kws:
            d = self.ev(kws["dtype"], env, fi)
        elif len(args) > 1 and full in ("numpy.array", "numpy.asarray", "numpy.asanyarray", "numpy.ascontiguousarray"):
            d = args[1]
        return args[0] if d is None else self.cast(args[0], d, where)

    # ---- functions ---------------------------------------------------------
    def run(self, fi, bind):
        """value returned by fi (None when it falls off the end) with parameters bound to `bind` (defaults filled in)"""
        env = dict(bind)
        for p in fi.params:
            pn = p.lstrip("*")
            if pn not in env and pn in fi.defaults:
                env[pn] = self.ev(fi.defaults[pn], {}, fi)
        self.calls.append(fi.qualname)
        self.entries.append((fi.qualname, dict(self.state)))
        if len(self.calls) > 40:
            raise NoVerdict("call depth")
        self.depth += 1
        try:
            self.body(fi.node.body, env, fi)
        except _Ret as r:
            return r.value
        finally:
            self.depth -= 1
        return None

    def body(self, stmts, env, fi):
        for st in stmts:
            self.stmt(st, env, fi)

    def always_raises(self, stmts):
        return bool(stmts) and isinstance(stmts[-1], ast.Raise) and all(isinstance(s, (ast.Raise, ast.Expr, ast.Assign)) for s in stmts)

    def stmt(self, st, env, fi):
        if self.depth == 1:
            self.at = st
        if isinstance(st, (ast.Pass, ast.Import, ast.ImportFrom, ast.Global, ast.Assert)):
            return
        if isinstance(st, ast.Expr):
            if isinstance(st.value, ast.Constant):
                return
            if isinstance(st.value, ast.Call) and self.followed(st.value, env, fi) is not None:
                self.ev(st.value, env, fi)
                return
            raise NoVerdict("statement-level call `%s` at %s" % (norm(st.value)[:60], fi.where(st)))
        if isinstance(st, ast.Assign):
            v = self.ev(st.value, env, fi)
            for t in st.targets:
                self.assign(t, v, env, fi)
            return
        if isinstance(st, ast.AugAssign):
            if not isinstance(st.target, (ast.Name, ast.Attribute)):
                raise NoVerdict("augmented store into `%s` at %s" % (norm(st.target), fi.where(st)))
            cur = self.ev(symx._load(st.target), env, fi)
            new = self.binop(st.op, cur, self.ev(st.value, env, fi))
            if self.keep_casts and isinstance(cur, sp.Basic) and (fname(cur) == "CAST" or fname(cur) in BUFFER_FUNCS) and new is not UNK:
                # an in-place update keeps the element type of the array it updates
                new = self.cast(new, _own_dtype(cur), "the in-place update `%s` at %s" % (norm(st)[:80], fi.where(st)))
            self.assign(st.target, new, env, fi)
            return
        if isinstance(st, ast.Return):
            raise _Ret(self.ev(st.value, env, fi) if st.value is not None else None)
        if isinstance(st, ast.Raise):
            raise _Raised()
        if isinstance(st, ast.If):
            t = self.truth(st.test, env, fi)
            if t is None:
                if self.always_raises(st.body):
                    t = False       # a rejection guard: the valid-input path goes on
                elif self.always_raises(st.orelse):
                    t = True
                elif self.fork is not None:
                    key = (fi.qualname, st.lineno, st.col_offset)
                    if key not in self.fork:
                        self.fork[key] = True
                        self.fork_trail.append(key)
                    self.fork_leaves[key] = (norm(st.test), self.test_leaves(st.test, env, fi))
                    t = self.fork[key]
                else:
                    raise NoVerdict("test `%s` at %s is not decided by the flags" % (norm(st.test), fi.where(st)))
            self.body(st.body if t else st.orelse, env, fi)
            return
        if isinstance(st, ast.For):
            self.loop(st, env, fi)
            return
        raise NoVerdict("statement %s at %s" % (type(st).__name__, fi.where(st)))

    # ---- loops: per-row updates ---------------------------------------------------
    # The loop this code uses adds m[i] to row i of V for i = 0 .. N-1.  It is recognised through what each pass does, not through
    # its spelling: the iteration scheme (range / len / shape counts, enumerate, zip, enumerate(zip), elements of V or of m bound by
    # the loop header, temporaries in the body) is reduced to one canonical row index, and the single store of the body must then
    # be `row <index> of V gets (itself +) element <index> of m`.
    ROW = "row__index"

    def callee_name(self, c, env, fi):
        if not isinstance(c, ast.Call):
            return None
        full = self.resolve(c.func, env, fi)
        if full is None and isinstance(c.func, ast.Name) and c.func.id not in env:
            full = c.func.id
        return full

    def iter_bind(self, target, it, env, fi, sub, lens):
        """one `for <target> in <it>` header: names bound per pass -> expression over the canonical row index (sub); number of
        passes each iterable allows (lens)"""
        full = self.callee_name(it, env, fi)
        plain = isinstance(it, ast.Call) and not any(isinstance(a, ast.Starred) for a in it.args)
        if full == "enumerate" and plain and isinstance(target, (ast.Tuple, ast.List)) and len(target.elts) == 2 and isinstance(target.elts[0], ast.Name):
            start = [k.value for k in it.keywords if k.arg == "start"] + list(it.args[1:2])
            if len(it.args) + len(it.keywords) > 2 or not it.args or len(start) != len(it.args) + len(it.keywords) - 1 \
                    or any(self.ev(x, env, fi) != sp.Integer(0) for x in start):
                raise NoVerdict("enumerate arguments at %s" % fi.where(it))
            sub[target.elts[0].id] = ast.Name(id=self.ROW, ctx=ast.Load())
            self.iter_bind(target.elts[1], it.args[0], env, fi, sub, lens)
            return
        if full == "zip" and plain and not [k for k in it.keywords if k.arg != "strict"] and isinstance(target, (ast.Tuple, ast.List)) \
                and len(target.elts) == len(it.args) and it.args:
            for t, x in zip(target.elts, it.args):
                self.iter_bind(t, x, env, fi, sub, lens)
            return
        if not isinstance(target, ast.Name):
            raise NoVerdict("loop target `%s` at %s" % (norm(target), fi.where(target)))
        if full in ("range", "numpy.arange") and plain and not it.keywords and 1 <= len(it.args) <= 3:
            args = [self.ev(x, env, fi) for x in it.args]
            if (len(args) >= 2 and args[0] != sp.Integer(0)) or (len(args) == 3 and args[2] != sp.Integer(1)):
                raise NoVerdict("range arguments at %s" % fi.where(it))
            sub[target.id] = ast.Name(id=self.ROW, ctx=ast.Load())
            lens.append(term(args[0] if len(args) == 1 else args[1]))
            return
        x = self.ev(it, env, fi)        # the elements of an array (rows of V, entries of m)
        if x is UNK or not isinstance(x, sp.Basic) or not isinstance(it, (ast.Name, ast.Attribute)):
            raise NoVerdict("iteration over `%s` at %s" % (norm(it)[:60], fi.where(it)))
        sub[target.id] = ast.Subscript(value=it, slice=ast.Name(id=self.ROW, ctx=ast.Load()), ctx=ast.Load())
        lens.append(LEN(x))

    def subst(self, node, sub):
        import copy

        class S(ast.NodeTransformer):
            def visit_Name(s_, n):
                return copy.deepcopy(sub[n.id]) if n.id in sub else n
        return ast.fix_missing_locations(S().visit(copy.deepcopy(node)))

    def whole_row(self, t):
        """V when the expression t is the whole of row <canonical index> of V (`V[i]`, `V[i, :]`, `V[i, ...]`, `V[i][:]`), else None"""
        if not isinstance(t, ast.Subscript):
            return None
        s = t.slice
        is_row = lambda x: isinstance(x, ast.Name) and x.id == self.ROW
        full = lambda x: (isinstance(x, ast.Slice) and x.lower is None and x.upper is None and x.step is None) or (isinstance(x, ast.Constant) and x.value is Ellipsis)
        if is_row(s) or (isinstance(s, ast.Tuple) and s.elts and is_row(s.elts[0]) and all(full(x) for x in s.elts[1:])):
            return t.value
        if full(s) or (isinstance(s, ast.Tuple) and s.elts and all(full(x) for x in s.elts)):
            return self.whole_row(t.value)
        return None

    def element(self, t):
        """m when the expression t is element <canonical index> of m, else None"""
        if isinstance(t, ast.Subscript) and isinstance(t.slice, ast.Name) and t.slice.id == self.ROW \
                and not any(isinstance(x, ast.Name) and x.id == self.ROW for x in ast.walk(t.value)):
            return t.value
        return None

    def row_plus_element(self, e, env, fi, want=None):
        """(V, m) when e is `row of V + element of m` in either order (also numpy.add(.., ..)), else None; want: the text of V when
        it is known (the array stored into)"""
        if isinstance(e, ast.BinOp) and isinstance(e.op, ast.Add):
            ops = [e.left, e.right]
        elif isinstance(e, ast.Call) and self.callee_name(e, env, fi) == "numpy.add" and len(e.args) == 2 and not e.keywords:
            ops = list(e.args)
        else:
            return None
        out = []
        for a, b in (ops, ops[::-1]):
            V, m = self.whole_row(a), self.element(b)
            if V is not None and m is not None and (want is None or norm(V) == want):
                out.append((V, m))
        if len(out) == 2:
            # `x[i] + y[i]`: the array with rows is the one of rank 2 (the other, of rank 1 or unknown, holds one number per row)
            def fits(V, m):
                try:
                    return self.rank(term(self.ev(symx._load(V), env, fi))) == 2 and self.rank(term(self.ev(m, env, fi))) in (1, None)
                except NoVerdict:
                    return False
            out = [x for x in out if isinstance(x[0], (ast.Name, ast.Attribute)) and fits(*x)]
        return out[0] if len(out) == 1 else None

    def passes(self, lens):
        ls = sorted(set(lens), key=str)
        return ls[0] if len(ls) == 1 else Fn("MINLEN")(*ls)

    def loop(self, st, env, fi):
        """`for i in range(N): V[i, :] += m[i]` in any spelling of the iteration and of the store: V becomes ROWADDN(V, m, N)"""
        if st.orelse or not st.body:
            raise NoVerdict("loop at %s" % fi.where(st))
        sub, lens = {}, []
        try:
            self.iter_bind(st.target, st.iter, env, fi, sub, lens)
        except NoVerdict as ex:
            raise NoVerdict("loop at %s (%s)" % (fi.where(st), ex))
        header = {x.id for x in ast.walk(st.iter) if isinstance(x, ast.Name)}
        for s_ in st.body[:-1]:
            # temporaries of one pass (`mi = mean[i]`, `row = V[i]`): replaced by what they stand for
            if isinstance(s_, ast.Expr) and isinstance(s_.value, ast.Constant):
                continue
            if not (isinstance(s_, ast.Assign) and len(s_.targets) == 1 and isinstance(s_.targets[0], ast.Name)) \
                    or s_.targets[0].id in sub or s_.targets[0].id in header:
                raise NoVerdict("loop at %s: statement `%s`" % (fi.where(st), norm(s_)[:60]))
            sub[s_.targets[0].id] = self.subst(s_.value, sub)
        last = st.body[-1]
        view = False
        V = m = None
        if isinstance(last, ast.AugAssign) and isinstance(last.op, ast.Add):
            view = isinstance(last.target, ast.Name)       # `row += mi`: updates V only when row is a view of it (V has rows)
            if not view or last.target.id in sub:
                V, m = self.whole_row(self.subst(last.target, sub)), self.element(self.subst(last.value, sub))
        elif isinstance(last, ast.Assign) and len(last.targets) == 1 and not isinstance(last.targets[0], ast.Name):
            V = self.whole_row(self.subst(last.targets[0], sub))
            got = self.row_plus_element(self.subst(last.value, sub), env, fi, norm(V)) if V is not None else None
            if got is not None:
                m = got[1]
        if V is None or m is None or not isinstance(V, (ast.Name, ast.Attribute)):
            raise NoVerdict("loop at %s" % fi.where(st))
        v = self.ev(symx._load(V), env, fi)
        if view and self.rank(term(v)) != 2:
            raise NoVerdict("loop at %s: `%s` updates a loop variable in place" % (fi.where(st), norm(last)[:60]))
        mt = self.ev(m, env, fi)
        if v is UNK or mt is UNK:
            raise NoVerdict("loop at %s" % fi.where(st))
        self.assign(V, ROWADDN(term(v), term(mt), self.passes(lens)), env, fi)

    def rows_built(self, e, env, fi):
        """`[V[i] + m[i] for i in range(N)]` (any spelling of the iteration): the rows of ROWADDN(V, m, N), as a list"""
        if len(e.generators) != 1 or e.generators[0].ifs or e.generators[0].is_async:
            raise NoVerdict("comprehension at %s" % fi.where(e))
        g = e.generators[0]
        sub, lens = {}, []
        self.iter_bind(g.target, g.iter, env, fi, sub, lens)
        got = self.row_plus_element(self.subst(e.elt, sub), env, fi)
        if got is None or not isinstance(got[0], (ast.Name, ast.Attribute)):
            raise NoVerdict("comprehension at %s" % fi.where(e))
        v, mt = self.ev(symx._load(got[0]), env, fi), self.ev(got[1], env, fi)
        if v is UNK or mt is UNK:
            raise NoVerdict("comprehension at %s" % fi.where(e))
        return Fn("ROWS")(ROWADDN(term(v), term(mt), self.passes(lens)))

    def assign(self, t, v, env, fi):
        if isinstance(t, ast.Name):
            env[t.id] = v
        elif isinstance(t, ast.Attribute) and norm(t).startswith("self.") and norm(t).count(".") == 1:
            self.state[norm(t)] = v
        elif isinstance(t, (ast.Tuple, ast.List)):
            if isinstance(v, tuple) and len(v) == len(t.elts):
                for e, x in zip(t.elts, v):
                    self.assign(e, x, env, fi)
            elif isinstance(v, sp.Basic):
                for i, e in enumerate(t.elts):
                    self.assign(e, AT_(v, sp.Integer(i)), env, fi)
            else:
                raise NoVerdict("cannot unpack %r at %s" % (v, fi.where(t)))
        elif isinstance(t, ast.Subscript) and isinstance(t.value, ast.Name) and t.value.id in env and (not isinstance(t.slice, ast.Tuple) or _all_full(t.slice)):
            # part of a local array is overwritten: the local becomes SETITEM(old, where, value); a store into the whole of it
            # (`a[:] = v`, `a[...] = v`, `a[:, :] = v`) leaves the value stored -- converted to the element type the array has
            whole = (isinstance(t.slice, ast.Constant) and t.slice.value is Ellipsis) or _all_full(t.slice)
            it = ":" if whole else self.index_item(t.slice, env, fi)
            if it == ":":
                if self.keep_casts:
                    v = self.cast(v, _own_dtype(term(env[t.value.id])), "the store into `%s` at %s" % (norm(t), fi.where(t)))
                env[t.value.id] = v
            elif it == "newaxis":
                raise NoVerdict("store into `%s` at %s" % (norm(t), fi.where(t)))
            else:
                idx = SL(*it[1:]) if isinstance(it, tuple) else it
                env[t.value.id] = SETITEM(term(env[t.value.id]), idx, term(v))
        else:
            raise NoVerdict("store into `%s` at %s" % (norm(t), fi.where(t)))

    # ---- tests ---------------------------------------------------------------
    def truth(self, t, env, fi):
        """True / False / None (undecided)"""
        if isinstance(t, ast.BoolOp):
            vals = [self.truth(v, env, fi) for v in t.values]
            if isinstance(t.op, ast.And):
                return False if any(v is False for v in vals) else (True if all(v is True for v in vals) else None)
            return True if any(v is True for v in vals) else (False if all(v is False for v in vals) else None)
        if isinstance(t, ast.UnaryOp) and isinstance(t.op, ast.Not):
            v = self.truth(t.operand, env, fi)
            return None if v is None else (not v)
        if isinstance(t, ast.Compare) and len(t.ops) == 1:
            try:
                a, b = self.ev(t.left, env, fi), self.ev(t.comparators[0], env, fi)
            except NoVerdict:
                return None
            op = t.ops[0]
            if a is UNK or b is UNK:
                return None
            if isinstance(op, (ast.Is, ast.IsNot)):
                if a is None or b is None:
                    r = a is None and b is None
                elif isinstance(a, bool) and isinstance(b, bool):
                    r = a == b
                else:
                    return None
                return r if isinstance(op, ast.Is) else (not r)
            const = lambda x: x is None or isinstance(x, (bool, str))
            if isinstance(op, (ast.Eq, ast.NotEq)) and (const(a) and const(b)):
                return (a == b) if isinstance(op, ast.Eq) else (a != b)
            if isinstance(op, (ast.Eq, ast.NotEq)) and isinstance(a, sp.Basic) and isinstance(b, sp.Basic) and a.is_number and b.is_number:
                return bool(a == b) if isinstance(op, ast.Eq) else bool(a != b)
            return self.free_atom(op, a, b)
        try:
            v = self.ev(t, env, fi)
        except NoVerdict:
            return None
        if v is None or isinstance(v, (bool, str)):
            return bool(v)
        if isinstance(v, sp.Basic) and v.is_number:
            return bool(v != 0)
        return None

    def test_leaves(self, t, env, fi):
        """what a test reads, as terms: [("truth", term) | ("cmp", operator name, lhs, rhs) | ("type", None) | None], one entry per
        leaf of its and/or/not structure; ("type", None): a test of the kind of an object (isinstance, hasattr, callable); None:
        a leaf that was not evaluated"""
        if isinstance(t, ast.BoolOp):
            return [x for v in t.values for x in self.test_leaves(v, env, fi)]
        if isinstance(t, ast.UnaryOp) and isinstance(t.op, ast.Not):
            return self.test_leaves(t.operand, env, fi)
        try:
            if isinstance(t, ast.Compare):
                if len(t.ops) != 1:
                    return [None]
                a, b = self.ev(t.left, env, fi), self.ev(t.comparators[0], env, fi)
                if a is UNK or b is UNK:
                    return [None]
                return [("cmp", type(t.ops[0]).__name__, term(a), term(b))]
            if isinstance(t, ast.Call) and self.callee_name(t, env, fi) in ("isinstance", "hasattr", "callable", "issubclass"):
                return [("type", None)]
            v = self.ev(t, env, fi)
            return [None] if v is UNK else [("truth", term(v))]
        except (NoVerdict, _Raised):
            return [None]

    def free_atom(self, op, a, b):
        """truth of a comparison of two input terms on the explored path (None when paths are not explored or the operands are
        not arithmetic terms over the inputs)"""
        if self.forced is None or not (isinstance(a, sp.Basic) and isinstance(b, sp.Basic)) or type(op) not in REL_OF:
            return None
        if any(str(s_).startswith("'") or s_ in (NONE_T, sp.Symbol("True"), sp.Symbol("False")) for s_ in (a.free_symbols | b.free_symbols)):
            return None
        try:
            d = sp.expand(a - b)
            rel = REL_OF[type(op)](d, 0)
        except Exception:
            return None
        if rel is sp.true or rel is sp.false:
            return bool(rel)
        key, pol = _atom_key(rel)
        ATOM_RELS[key] = rel if pol else sp.Not(rel)
        if key not in self.forced:
            self.forced[key] = True
            self.trail.append(key)
        return self.forced[key] if pol else (not self.forced[key])

    # ---- expressions -----------------------------------------------------------
    def resolve(self, node, env, fi):
        """fully qualified dotted name of a module-level object the expression names, or None when it is a value of this function"""
        d = dotted_name(node)
        if not d:
            return None
        head = d.split(".")[0]
        if head in env or head == "self":
            return None
        return self.repo.resolve_name(fi.module, d)

    def referenced(self, v, fi):
        """the package function a value refers to, when it is one that calls are followed into (see followed); else None"""
        if not isinstance(v, sp.Symbol):
            return None
        d = str(v)
        if d.startswith("self.") and d.count(".") == 1 and fi.cls:
            q = "%s.%s.%s" % (fi.module.name, fi.cls, d[5:])
            return self.repo.func(q) if self.repo.has(q) and d not in self.state else None
        if self.repo.has(d):
            tgt = self.repo.func(d)
            leaf = d.rsplit(".", 1)[1]
            if tgt.cls is None and leaf.startswith("_") and not leaf.startswith("__"):
                return tgt
        return None

    def followed(self, c, env, fi):
        """the package function a call is followed into: methods of the same object and private helpers; else None"""
        d = dotted_name(c.func)
        if not d or (isinstance(c.func, ast.Name) and c.func.id in env):
            # the callee is a value (picked from a dispatch table, returned by a call, held in a local): followed when the value
            # is a reference to a method of the same object or to a private helper, exactly as the direct call would be
            if isinstance(c.func, (ast.Name, ast.Subscript, ast.Call, ast.IfExp)):
                try:
                    v = self.ev(c.func, env, fi)
                except (NoVerdict, _Raised):
                    return None
                return self.referenced(v, fi)
            return None
        if d.startswith("self.") and d.count(".") == 1 and fi.cls:
            q = "%s.%s.%s" % (fi.module.name, fi.cls, d[5:])
            return self.repo.func(q) if self.repo.has(q) and ("self." + d[5:]) not in self.state else None
        full = self.resolve(c.func, env, fi)
        if full and self.repo.has(full):
            leaf = full.rsplit(".", 1)[1]
            if leaf.startswith("_") and not leaf.startswith("__"):
                return self.repo.func(full)
        return None

    def ev(self, e, env, fi):
        if e is None:
            return None
        if isinstance(e, ast.Constant):
            v = e.value
            if v is None or isinstance(v, (bool, str)):
                return v
            if isinstance(v, int):
                return sp.Integer(v)
            if isinstance(v, float):
                return sp.Rational(repr(v))
            raise NoVerdict("constant %r" % (v,))
        if isinstance(e, ast.Name):
            if e.id in env:
                return env[e.id]
            if e.id in ("True", "False", "None"):
                return {"True": True, "False": False, "None": None}[e.id]
            if e.id in fi.module.consts:
                return self.ev(fi.module.consts[e.id], {}, fi)
            full = self.repo.resolve_name(fi.module, e.id)
            if full != e.id or e.id in fi.module.funcs or e.id in fi.module.classes:
                return sp.Symbol(full)
            if e.id in BUILTIN_TYPES:
                return sp.Symbol(e.id)      # a builtin type named as a value (dtype=bool)
            raise NoVerdict("unbound name `%s` at %s" % (e.id, fi.where(e)))
        if isinstance(e, ast.Attribute):
            k = norm(e)
            if k.startswith("self.") and k.count(".") == 1:
                return self.state[k] if k in self.state else sp.Symbol(k)
            full = self.resolve(e, env, fi)
            if full is not None:
                if full == "numpy.newaxis":
                    return None
                if full in ("numpy.pi", "math.pi"):
                    return sp.pi
                return sp.Symbol(full)
            base = self.ev(e.value, env, fi)
            if e.attr == "T":
                return T_(term(base))
            if e.attr == "shape":
                return SHAPE(term(base))
            if e.attr == "size":
                return SIZE(term(base))
            return Fn("ATTR_" + e.attr)(term(base))
        if isinstance(e, ast.UnaryOp):
            if isinstance(e.op, ast.Not):
                t = self.truth(e.operand, env, fi)
                return UNK if t is None else (not t)
            v = term(self.ev(e.operand, env, fi))
            if isinstance(e.op, ast.USub):
                return -v
            if isinstance(e.op, ast.UAdd):
                return v
            if isinstance(e.op, ast.Invert):
                return INVERT(v)
            raise NoVerdict("unary operator at %s" % fi.where(e))
        if isinstance(e, ast.BinOp):
            a, b = self.ev(e.left, env, fi), self.ev(e.right, env, fi)
            if isinstance(e.op, ast.Mod) and isinstance(a, str):
                return UNK
            if a is UNK or b is UNK:
                return UNK
            return self.binop(e.op, a, b)
        if isinstance(e, (ast.BoolOp, ast.Compare)):
            t = self.truth(e, env, fi)
            if t is None and self.elementwise and self.forced is None and isinstance(e, ast.Compare) and len(e.ops) == 1 and type(e.ops[0]) in CMP:
                # an element-wise comparison used as a value (a mask): kept as a term; as a test it stays undecided
                try:
                    a, b = self.ev(e.left, env, fi), self.ev(e.comparators[0], env, fi)
                except NoVerdict:
                    return UNK
                if isinstance(a, sp.Basic) and isinstance(b, sp.Basic) and (a.free_symbols or b.free_symbols) \
                        and not any(str(s_).startswith("'") for s_ in (a.free_symbols | b.free_symbols)) \
                        and not any(z in (NONE_T, sp.Symbol("True"), sp.Symbol("False")) for z in (a, b)):
                    return CMP[type(e.ops[0])](a, b)
            return UNK if t is None else t
        if isinstance(e, ast.IfExp):
            t = self.truth(e.test, env, fi)
            if t is None:
                raise NoVerdict("conditional expression at %s is not decided by the flags" % fi.where(e))
            return self.ev(e.body if t else e.orelse, env, fi)
        if isinstance(e, ast.Tuple):
            return tuple(self.ev(x, env, fi) for x in e.elts)
        if isinstance(e, ast.List):
            return sp.Tuple(*[term(self.ev(x, env, fi)) for x in e.elts])
        if isinstance(e, ast.ListComp):
            return self.rows_built(e, env, fi)
        if isinstance(e, ast.Dict):
            # a table with literal keys (a dispatch table of bound methods / functions, a table of constants); an entry the
            # evaluator does not model only matters when it is the one selected
            out = {}
            for k, v in zip(e.keys, e.values):
                if k is None:
                    raise NoVerdict("dict unpacking at %s" % fi.where(e))
                kv = self.ev(k, env, fi)
                if not (isinstance(kv, (str, bool)) or kv is None or (isinstance(kv, sp.Basic) and kv.is_number)):
                    raise NoVerdict("dict key `%s` at %s is not a literal" % (norm(k), fi.where(e)))
                try:
                    out[kv] = self.ev(v, env, fi)
                except NoVerdict as ex:
                    out[kv] = ex
            return out
        if isinstance(e, ast.Subscript):
            return self.subscript(self.ev(e.value, env, fi), e.slice, env, fi, e)
        if isinstance(e, ast.Call):
            return self.call(e, env, fi)
        if isinstance(e, ast.JoinedStr):
            return UNK
        raise NoVerdict("expression %s at %s" % (type(e).__name__, fi.where(e)))

    def lookup(self, table, key, default, e, fi):
        """table[key] / table.get(key, default) of a literal-keyed table; default is a thunk or None (plain subscript: KeyError)"""
        if not (isinstance(key, (str, bool)) or key is None or (isinstance(key, sp.Basic) and key.is_number)):
            raise NoVerdict("key of the table lookup `%s` at %s is not decided by the flags" % (norm(e)[:60], fi.where(e)))
        if key in table:
            v = table[key]
            if isinstance(v, NoVerdict):
                raise v
            return v
        if default is None:
            raise _Raised()
        return default()

    def index_item(self, s, env, fi):
        if isinstance(s, ast.Slice):
            if s.lower is None and s.upper is None and s.step is None:
                return ":"
            return ("slice",) + tuple(NONE_T if x is None else term(self.ev(x, env, fi)) for x in (s.lower, s.upper, s.step))
        v = self.ev(s, env, fi)
        return "newaxis" if v is None else term(v)

    def subscript(self, base, sl, env, fi, e):
        if isinstance(sl, ast.Tuple):
            elts = list(sl.elts)
            if len(elts) == 2 and isinstance(elts[0], ast.Constant) and elts[0].value is Ellipsis and isinstance(elts[1], ast.Slice):
                # `a[..., lo:hi]` slices the last axis; the tables of this check are grids (one axis), where it is `a[lo:hi]`
                elts = elts[1:]
            items = [self.index_item(x, env, fi) for x in elts]
        else:
            items = [self.index_item(sl, env, fi)]
        if isinstance(base, tuple) and len(items) == 1 and isinstance(items[0], sp.Integer) and -len(base) <= int(items[0]) < len(base):
            return base[int(items[0])]
        if isinstance(base, dict):
            if isinstance(sl, (ast.Tuple, ast.Slice)):
                raise NoVerdict("subscript `%s` at %s" % (norm(e), fi.where(e)))
            return self.lookup(base, self.ev(sl, env, fi), None, e, fi)
        b = term(base)
        while len(items) > 1 and items[-1] == ":":
            items.pop()
        if items == [":"]:
            return b
        if items == [":", "newaxis"]:
            return COL(b)
        if len(items) == 2 and items[0] == ":" and isinstance(items[1], sp.Basic):
            return Fn("ATCOL")(b, items[1])
        if len(items) == 1 and isinstance(items[0], tuple):
            return SLICE(b, *items[0][1:])
        if all(isinstance(i, sp.Basic) for i in items):
            return AT_(b, *items)
        raise NoVerdict("subscript `%s` at %s" % (norm(e), fi.where(e)))

    def last_axis_only(self, c, env, fi):
        """the call has no keyword but, possibly, axis=-1"""
        if not c.keywords:
            return True
        if [k.arg for k in c.keywords] != ["axis"]:
            return False
        try:
            return self.ev(c.keywords[0].value, env, fi) == sp.Integer(-1)
        except NoVerdict:
            return False

    def kw_terms(self, c, env, fi, skip=()):
        return [Fn("KW_" + k.arg)(term(self.ev(k.value, env, fi))) for k in sorted(c.keywords, key=lambda k: k.arg or "") if k.arg and k.arg not in skip]

    def call(self, c, env, fi):
        f = c.func
        tgt = self.followed(c, env, fi)
        if tgt is not None:
            params = [p for p in tgt.params if not p.startswith("*")]
            if tgt.cls and params and params[0] == "self":
                params = params[1:]
            if len(c.args) > len(params) or any(isinstance(a, ast.Starred) for a in c.args) or any(k.arg is None for k in c.keywords):
                raise NoVerdict("call `%s` at %s" % (norm(c)[:60], fi.where(c)))
            bind = {p: self.ev(a, env, fi) for p, a in zip(params, c.args)}
            for k in c.keywords:
                bind[k.arg] = self.ev(k.value, env, fi)
            return self.run(tgt, bind)
        args = [self.ev(a, env, fi) for a in c.args]
        if any(a is UNK for a in args):
            return UNK
        full = self.resolve(f, env, fi)
        if full is not None and isinstance(f, ast.Attribute) and isinstance(f.value, ast.Name) and f.value.id in fi.module.consts \
                and isinstance(fi.module.consts[f.value.id], ast.Dict):
            full = None         # a method of a module-level table (TABLE.get(key, default)): handled with the receiver's value below
        if full is None and isinstance(f, ast.Name) and f.id not in env:
            full = f.id
        if full is not None:
            leaf = full.rsplit(".", 1)[-1]
            if args and fname(args[0]) == "ROWS":
                # an array made of the list of its rows
                axis0 = not c.keywords or ([k.arg for k in c.keywords] == ["axis"] and self.ev(c.keywords[0].value, env, fi) == sp.Integer(0))
                if len(args) == 1 and ((full in ("numpy.vstack", "numpy.stack") and axis0) or (full in ("numpy.array", "numpy.asarray") and not c.keywords)):
                    return args[0].args[0]
                raise NoVerdict("list of rows passed to `%s` at %s" % (norm(c)[:60], fi.where(c)))
            if full in IDENT_FUNCS and args:
                return self.converted(full, c, args, env, fi) if self.keep_casts else args[0]
            if self.keep_casts and len(args) == 1 and not c.keywords and _dtype_info(sp.Symbol(full)) is not None and full.startswith("numpy."):
                return self.cast(args[0], sp.Symbol(full), "`%s` at %s" % (norm(c)[:80], fi.where(c)))     # numpy.int32(x), numpy.float32(x)
            if full in ARITH_FUNCS and len(args) == 2 and not c.keywords:
                return self.binop(ARITH_FUNCS[full], args[0], args[1])
            if full in ("numpy.dot", "numpy.matmul") and len(args) == 2 and not c.keywords:
                return DOT(term(args[0]), term(args[1]))
            if full == "numpy.transpose" and len(args) == 1 and not c.keywords:
                return T_(term(args[0]))
            if full in ("numpy.linalg.cholesky", "scipy.linalg.cholesky") and len(args) == 1:
                if c.keywords and not (full.startswith("scipy") and [k.arg for k in c.keywords] == ["lower"] and self.ev(c.keywords[0].value, env, fi) is True):
                    if full.startswith("scipy"):
                        return T_(CHOL(term(args[0])))
                    raise NoVerdict("cholesky keywords at %s" % fi.where(c))
                if full.startswith("scipy") and not c.keywords:
                    return T_(CHOL(term(args[0])))       # scipy's default is the upper factor
                return CHOL(term(args[0]))
            if full in ("scipy.integrate.cumulative_trapezoid", "scipy.integrate.cumtrapz"):
                kws = {k.arg: k.value for k in c.keywords}
                if set(kws) - {"x"} or not args or len(args) > 2 or ("x" in kws and len(args) == 2):
                    raise NoVerdict("cumulative_trapezoid arguments at %s" % fi.where(c))
                x = args[1] if len(args) == 2 else (self.ev(kws["x"], env, fi) if "x" in kws else None)
                if x is None:
                    raise NoVerdict("cumulative_trapezoid without abscissae at %s" % fi.where(c))
                return CUMTRAPZ(term(args[0]), term(x))
            if full in ("numpy.cumsum", "numpy.diff") and len(args) == 1 and self.last_axis_only(c, env, fi):
                # along the last axis: numpy.diff's default; for numpy.cumsum the same as its default on a grid (one axis)
                return (CUMSUM if full == "numpy.cumsum" else DIFF)(term(args[0]))
            if full == "len" and len(args) == 1:
                return LEN(term(args[0]))
            if full == "numpy.size" and len(args) == 1:
                return SIZE(term(args[0]))
            if full in ("isinstance", "hasattr", "callable", "print"):
                return UNK
            return Fn(full)(*([term(a) for a in args] + self.kw_terms(c, env, fi)))
        if isinstance(f, ast.Attribute):
            d = dotted_name(f)
            if d and d.startswith("self.") and d.count(".") == 1:
                # a callable held by the object (self.pofx, self.dist)
                return APPLY(term(self.ev(f, env, fi)), *([term(a) for a in args] + self.kw_terms(c, env, fi)))
            recv = self.ev(f.value, env, fi)
            if recv is UNK:
                return UNK
            if isinstance(recv, dict):
                if f.attr == "get" and 1 <= len(args) <= 2 and not c.keywords:
                    return self.lookup(recv, args[0], (lambda: args[1]) if len(args) == 2 else (lambda: None), c, fi)
                raise NoVerdict("method `%s` of a table at %s" % (f.attr, fi.where(c)))
            r = term(recv)
            if f.attr in IDENT_METHODS:
                if self.keep_casts and f.attr == "astype":
                    kws = {k.arg: k.value for k in c.keywords}
                    d = args[0] if args else (self.ev(kws["dtype"], env, fi) if "dtype" in kws else None)
                    if d is not None:
                        return self.cast(r, d, "`%s` at %s" % (norm(c)[:80], fi.where(c)))
                return r
            if f.attr == "transpose" and not args and not c.keywords:
                return T_(r)
            if f.attr == "dot" and len(args) == 1 and not c.keywords:
                return DOT(r, term(args[0]))
            if f.attr == "reshape" and not c.keywords:
                shp = list(args[0]) if len(args) == 1 and isinstance(args[0], tuple) else args
                shp = [term(a) for a in shp]
                if shp == [sp.Integer(-1), sp.Integer(1)]:
                    return COL(r)
                return RESHAPE(r, *shp)
            return Fn("M_" + f.attr)(*([r] + [term(a) for a in args] + self.kw_terms(c, env, fi)))
        callee = self.ev(f, env, fi)
        if isinstance(callee, sp.Basic):
            return APPLY(callee, *([term(a) for a in args] + self.kw_terms(c, env, fi)))
        raise NoVerdict("call `%s` at %s" % (norm(c)[:60], fi.where(c)))


REL_OF = {ast.Lt: sp.Lt, ast.LtE: sp.Le, ast.Gt: sp.Gt, ast.GtE: sp.Ge, ast.Eq: sp.Eq, ast.NotEq: sp.Ne}


def _atom_key(rel):
    """(canonical text of the atom, polarity): a relation and its negation share the atom"""
    pos, neg = rel.canonical, sp.Not(rel).canonical
    a, b = str(pos), str(neg)
    return (a, True) if a <= b else (b, False)


ATOM_RELS = {}      # text of a path atom (see _atom_key) -> the sympy relation it stands for when taken as true


def mini_paths(repo, q, bind, state=None, ranks=None, limit=32, casts=False):
    """every path of the package function q that the literal flags leave open: [(atoms assumed {text: bool}, value or NoVerdict)];
    paths that end in raise are left out (the request is refused).  Undecided comparisons of input terms are explored both ways,
    consistently along a path; anything else undecided ends that path without a verdict."""
    out = []
    work = [{}]
    while work:
        forced = work.pop()
        if len(out) + len(work) > limit:
            return [({}, NoVerdict("more than %d paths" % limit))]
        mv = Mini(repo, ranks)
        mv.state.update(state or {})
        mv.forced = dict(forced)
        mv.keep_casts = casts
        raised = False
        try:
            v = mv.run(repo.func(q), bind)
        except NoVerdict as e:
            v = e
        except _Raised:
            raised = True
        # the alternatives: the first k new atoms as taken, atom k the other way
        taken = dict(forced)
        for key in mv.trail:
            alt = dict(taken)
            alt[key] = False
            work.append(alt)
            taken[key] = True
        if not raised:
            out.append(({k: mv.forced[k] for k in mv.forced}, v))
    return out


def mini_forks(repo, q, bind, state=None, limit=16):
    """the package function q evaluated along every combination of the tests that nothing decides (each such `if` taken both
    ways): [(None | NoVerdict | "raised", evaluator)] -- the evaluator holds the object state at the end of the path (or where
    the evaluation stopped) and the state on entry of every function followed.  None when there are more than `limit` paths"""
    out = []
    work = [{}]
    while work:
        fork = work.pop()
        if len(out) + len(work) > limit:
            return None
        mv = Mini(repo)
        mv.state.update(state or {})
        mv.fork = dict(fork)
        end = None
        try:
            mv.run(repo.func(q), dict(bind))
        except NoVerdict as e:
            end = e
        except _Raised:
            end = "raised"
        taken = dict(fork)
        for key in mv.fork_trail:
            alt = dict(taken)
            alt[key] = False
            work.append(alt)
            taken[key] = True
        out.append((end, mv))
    return out


def _path_text(atoms):
    return " and ".join(("%s" % k) if v else ("not (%s)" % k) for k, v in sorted(atoms.items())) or "every input"


def _partial_store(t):
    """the term is (built from) an array part of which was overwritten, other than inside the index of an element selection: the
    rules comparing terms have nothing to say about it"""
    if not isinstance(t, sp.Basic):
        return False
    if fname(t) == "SETITEM":
        return True
    if fname(t) == "AT":
        return _partial_store(t.args[0])
    return any(_partial_store(a) for a in t.args)


def mini_run(repo, q, bind, state=None, ranks=None, elementwise=False, casts=False):
    """(value, final object state, evaluator) of the package function q; value is a NoVerdict instance when it was not evaluated"""
    mv = Mini(repo, ranks)
    mv.state.update(state or {})
    mv.elementwise = elementwise
    mv.keep_casts = casts
    try:
        v = mv.run(repo.func(q), bind)
    except NoVerdict as e:
        v = e
    except _Raised:
        v = NoVerdict("the selected path ends in raise")
    if _partial_store(v):
        v = NoVerdict("the result is an array that was overwritten in part: %s" % str(v)[:120])
    for k, x in list(mv.state.items()):
        if _partial_store(x):
            mv.state[k] = NoVerdict("%s is an array that was overwritten in part" % k)
    return v, mv.state, mv


# ---- element selections on top of a table ------------------------------------------------------------------------------------
SELECTOR_FUNCS = {"numpy.unique": 0, "numpy.compress": 1, "numpy.extract": 1, "numpy.delete": 0, "numpy.take": 0, "numpy.trim_zeros": 0,
                  "M_compress": 0, "M_take": 0}


def _peel_selection(t, slices):
    """(selections applied last, innermost operand): t = sel_k(... sel_1(operand)) where a selection is an element selection by a
    non-literal index (a mask or an index array: AT(operand, idx)), a selecting library function, or -- when `slices` -- a slice
    other than the whole.  Each selection is (text, index term or None)"""
    sels = []
    while isinstance(t, sp.Basic):
        n = fname(t)
        if n == "AT" and len(t.args) == 2 and not t.args[1].is_number:
            used = sorted({fname(x) for x in sp.preorder_traversal(t.args[1]) if "." in fname(x)} |
                          {"a `%s` comparison" % fname(x)[4:] for x in sp.preorder_traversal(t.args[1]) if fname(x).startswith("CMP_")})
            sels.append(("a mask / index array" + (" computed with %s" % ", ".join(used) if used else " %s" % str(t.args[1])[:80]), t.args[1]))
            t = t.args[0]
        elif n in SELECTOR_FUNCS and len(t.args) > SELECTOR_FUNCS[n]:
            k = SELECTOR_FUNCS[n]
            rest = [a for i, a in enumerate(t.args) if i != k]
            sels.append(("%s(...)" % (n[2:] if n.startswith("M_") else n), sp.Tuple(*rest) if rest else None))
            t = t.args[k]
        elif n == "AT" and len(t.args) == 2 and t.args[1].is_number and fname(t.args[0]) in SELECTOR_FUNCS and t.args[1] == 0:
            t = t.args[0]           # unique(a, return_index=True)[0]
        elif slices and n == "SLICE" and not (t.args[1] in (NONE_T, sp.Integer(0)) and t.args[2] == NONE_T and t.args[3] in (NONE_T, sp.Integer(1))):
            sels.append(("the slice [%s]" % ":".join("" if a == NONE_T else str(a) for a in t.args[1:]), None))
            t = t.args[0]
        else:
            break
    return sels, t


def _exact_mask(idx):
    """the selecting index is decided by exact strict comparisons only (table increments against zero, neighbouring table values
    against each other): for a positive density every grid point passes mathematically and whether one is dropped is a matter of
    rounding -- not decided here"""
    if idx is None:
        return False
    cmps = [x for x in sp.preorder_traversal(idx) if fname(x).startswith("CMP_")]
    if not cmps or any("close" in fname(x) for x in sp.preorder_traversal(idx)):
        return False
    for c in cmps:
        a, b = c.args
        table = lambda z: any(fname(y) in ("CUMTRAPZ", "CUMSUM") for y in sp.preorder_traversal(z))
        if fname(c) not in ("CMP_gt", "CMP_lt", "CMP_ne"):
            return False
        if not ((a == 0 and table(b)) or (b == 0 and table(a)) or (table(a) and table(b) and not (a - b).is_number)):
            return False
    return True


def every_grid_point_kept(chk, rule, key, where, stored, data):
    """stored: [(attribute, its selections)]; data: the input symbols.  No element selection may stand between the full table and
    what is stored: the inverse map returns a grid point where u equals its cumulative value only if the point is in the table"""
    sels = [(attr, text, idx) for attr, ss in stored for text, idx in ss]
    if not sels:
        chk.ob(rule, key, True, where, "the stored cumulative table and abscissae hold every grid point (no element selection is applied to them)")
        return
    attr, text, idx = sels[0]
    dependent = idx is None or any(idx.has(d) for d in data)
    if dependent and not _exact_mask(idx):
        chk.ob(rule, key, False, where,
               "every grid point must stay in the table (x(u) returns a grid point exactly where u equals its cumulative value and reaches the grid end at u=1): "
               "%s keeps only the elements selected by %s%s, so genuine grid points of a positive density are dropped and the inverse map interpolates across them"
               % (attr, text, "" if idx is None else " from the tabulated values (no exact test of a positive increment)"))
    else:
        chk.ob(rule, key, None, where, "%s is a selection of the table (%s); whether it can drop a grid point of a positive density is not decided" % (attr, text))


def teq(a, b):
    if a is None or b is None or not isinstance(a, sp.Basic) or not isinstance(b, sp.Basic):
        return False
    if a == b:
        return True
    try:
        return symx.equal(a, b)[0]
    except Exception:
        return False


def _none(chk, rule, keys, where, why):
    for k in keys:
        chk.ob(rule, k, None, where, why)


def generator(chk, repo):
    R = "R19.gen"
    X, PF = sp.Symbol("self.xinput"), sp.Symbol("self.pofx")
    one = SLICE(X, 1, NONE_T, NONE_T)
    for q, P, norms in ((RA + "Generator.initialize_points", PF, [AT_(PF, -1)]),
                        (RA + "Generator.initialize_func", APPLY(PF, X), [AT_(APPLY(PF, X), -1), APPLY(PF, AT_(X, -1))])):
        fi = repo.func(q)
        chk.analysed_unit(q)
        w = fi.where()
        # ---- density input: the stored table is the normalised trapezoid integral, aligned with x[1:]
        known = _entry_flags(repo, q)
        v, st, _ = mini_run(repo, q, {}, dict(known, **{"self.method": "accum", "self.cumulative": False}), elementwise=True)
        keys = [q + "::trapezoid-cumulative", q + "::normalised", q + "::abscissa-alignment", q + "::every-grid-point-kept"]
        if isinstance(v, NoVerdict):
            _none(chk, R, keys, w, "set-up code not evaluated: %s" % v)
        else:
            pcum, nrm, xv = [st.get(k) if isinstance(st.get(k), sp.Basic) else None for k in ("self.pcum", "self.norm", "self.xvals")]
            # element selections applied on top of the table / the abscissae are judged on their own; the formula rules read what
            # they are applied to
            sel_p, pcum = _peel_selection(pcum, True) if pcum is not None else ([], None)
            sel_x, xv = _peel_selection(xv, False) if xv is not None else ([], None)
            if pcum is None and xv is None:
                chk.ob(R, keys[3], None, w, "no table is stored on the accum path")
            else:
                every_grid_point_kept(chk, R, keys[3], w, [("self.pcum", sel_p), ("self.xvals", sel_x)], (PF, X))
            tz = CUMTRAPZ(P, X)
            mid = (SLICE(P, 1, NONE_T, NONE_T) + SLICE(P, NONE_T, -1, NONE_T)) / 2
            byhand = [CUMSUM(mid * DIFF(X)), CUMSUM(mid * (SLICE(X, 1, NONE_T, NONE_T) - SLICE(X, NONE_T, -1, NONE_T)))]
            if pcum is None:
                _none(chk, R, keys[:2], w, "no cumulative table is stored on the accum path")
            else:
                U = sp.cancel(pcum * nrm) if nrm is not None else None
                # (whether it is normalised is the next rule's business)
                ok = any(teq(pcum, t) or teq(pcum, t / AT_(t, -1)) or (U is not None and (teq(U, t) or teq(pcum, t / nrm))) for t in [tz] + byhand)
                chk.ob(R, keys[0], ok if (ok or pcum.has(PF)) else None, w,
                       "the cumulative table is the trapezoid-rule running integral of p over x (table: %s)" % str(U if U is not None else pcum)[:200])
                if nrm is not None:
                    ok = teq(nrm, AT_(U, -1)) and teq(pcum, U / AT_(U, -1))
                else:
                    ok = True if any(teq(pcum, t / AT_(t, -1)) for t in [tz] + byhand) else None
                chk.ob(R, keys[1], ok, w, "the table is divided by its last value (ends at 1): pcum = %s, norm = %s" % (str(pcum)[:160], str(nrm)[:80]))
            chk.ob(R, keys[2], None if xv is None else teq(xv, one), w, "cumulative value k belongs to x[k+1]: abscissae are x[1:] (found %s)" % xv)
        # ---- cumulative input
        v, st, _ = mini_run(repo, q, {}, dict(known, **{"self.method": "accum", "self.cumulative": True}))
        if isinstance(v, NoVerdict):
            _none(chk, R, [q + "::cumulative-input-used-as-is"], w, "set-up code not evaluated: %s" % v)
        else:
            pcum, nrm, xv = [st.get(k) if isinstance(st.get(k), sp.Basic) else None for k in ("self.pcum", "self.norm", "self.xvals")]
            if pcum is None or xv is None:
                ok = None
            else:
                ok = teq(xv, X) and any(teq(pcum, P / n_) for n_ in norms) and (nrm is None or any(teq(nrm, n_) for n_ in norms))
            chk.ob(R, q + "::cumulative-input-used-as-is", ok, w,
                   "a cumulative input is only normalised by its last value (xvals = %s, pcum = %s)" % (xv, str(pcum)[:160]))
    # ---- the draw: u from the object's own generator, x(u) by inverse linear interpolation of the table
    fi = repo.func(RA + "Generator._genrand_accum")
    chk.analysed_unit(fi.qualname)
    w = fi.where()
    numrand = sp.Symbol("numrand")
    gen = sp.Symbol("self.rng")
    keys = [fi.qualname + "::uniform-deviates-from-own-generator", fi.qualname + "::inverse-interpolation-roles", fi.qualname + "::returns-interpolant"]
    acc, _, _ = mini_run(repo, fi.qualname, {"numrand": numrand})
    if not isinstance(acc, sp.Basic):
        _none(chk, R, keys, w, "draw not evaluated: %s" % (acc,))
    else:
        unit = [Fn("M_uniform")(gen, Fn("KW_size")(numrand)), Fn("M_random")(gen, numrand), Fn("M_random")(gen, Fn("KW_size")(numrand)),
                Fn("M_random_sample")(gen, numrand), Fn("M_random_sample")(gen, Fn("KW_size")(numrand))]
        draws = [x for x in sp.preorder_traversal(acc) if fname(x).startswith("M_") and fname(x)[2:] in DRAW_METHODS]
        glob = [x for x in sp.preorder_traversal(acc) if fname(x).startswith("numpy.random.")]
        if not draws and not glob:
            chk.ob(R, keys[0], None, w, "no generator draw found in %s" % str(acc)[:160])
        else:
            chk.ob(R, keys[0], len(draws) == 1 and not glob and draws[0] in unit, w, "u = self.rng.uniform(size=numrand) on [0,1) (found %s)" % (draws + glob))
        ip = [x for x in sp.preorder_traversal(acc) if fname(x).rsplit(".", 1)[-1] == "interplin"]
        if len(ip) != 1 or len(draws) != 1:
            _none(chk, R, keys[1:], w, "no single interplin application of a single deviate array in %s" % str(acc)[:160])
        else:
            chk.ob(R, keys[1], ip[0].args == (sp.Symbol("self.xvals"), sp.Symbol("self.pcum"), draws[0]), w,
                   "x(u) = interplin(values=xvals, abscissae=pcum, at=u) (found %s)" % str(ip[0])[:160])
            chk.ob(R, keys[2], acc == ip[0], w, "the interpolated values are returned unmodified")
    callee = None
    if isinstance(acc, sp.Basic):
        named = sorted({fname(x) for x in sp.preorder_traversal(acc) if fname(x).rsplit(".", 1)[-1] == "interplin" or repo.has(fname(x))})
        callee = named[0] if len(named) == 1 else None
    inverse_interpolant(chk, repo, callee)
    # Generator.sample dispatch and count
    fi = repo.func(RA + "Generator.sample")
    got, _, _ = mini_run(repo, fi.qualname, {"numrand": numrand}, {"self.method": "accum"})
    ok = None if not (isinstance(got, sp.Basic) and isinstance(acc, sp.Basic)) else (got == acc)
    chk.ob(R, fi.qualname + "::accum-dispatch-with-requested-count", ok, fi.where(), "method 'accum' draws exactly numrand values (%s)" % str(got)[:160])
    # the generator stored is the one passed: the constructor is evaluated with a generator and without one, along every path the
    # other arguments leave open; at the end of each the object's generator must be the passed one / a RandomState seeded with seed=
    fi = repo.func(RA + "Generator.__init__")
    ok, found = _stored_generator(repo, fi)
    chk.ob(R, fi.qualname + "::keeps-passed-generator", ok, fi.where(), "self.rng is the passed generator, or a seeded RandomState when none is given (%s)" % found)
    ok, found = _functional_grid(repo, fi)
    chk.ob(R, fi.qualname + "::functional-grid-spans-xrange", ok, fi.where(),
           "for a functional density given with xrange=[xmin,xmax] and nx= the grid is nx points reaching from xmin to xmax, both included (the table is "
           "normalised over the whole range and u=1 maps to xmax): %s" % found)


# ---- the inverse interpolation itself ----------------------------------------------------------------------------------------
def _segment_role(e, x, u, index_values):
    """the role of an index expression e (a function of s = searchsorted(x, u) and n = size(x)) for the query points the sampler
    can produce, u <= x[n-1] (the table ends at 1 and the deviates are in [0,1]), i.e. s in 0..n-1, n >= 2:
    ('k', None) / ('k+1', None) when e is the segment start k = max(s - 1, 0) / its end for all of them, ('other', text) when it
    is positively another function of (s, n), (None, None) when it is not read as such a function.
    Decided symbolically on the two regions s = 0 (u at or below the first table entry) and 1 <= s <= n-1 (inside the table),
    each parametrised by non-negative integers so that the min / max / clip of the clamp resolve; where the symbolic form does
    not resolve, the complete table of the integer function over small (n, s) (the one checks.C18 uses) decides."""
    SS, SIZE_, CL = sp.Function("SEARCHSORTED"), sp.Function("SIZE"), sp.Function("CLIP")
    s_, n_ = sp.Symbol("s_", integer=True), sp.Symbol("n_", integer=True)
    a, b = sp.Symbol("a_", integer=True, nonnegative=True), sp.Symbol("b_", integer=True, nonnegative=True)
    f = e.xreplace({SS(x, u): s_, SIZE_(x): n_})
    f = f.replace(CL, lambda v_, lo, hi: sp.Min(sp.Max(v_, lo), hi))
    if f.free_symbols - {s_, n_} or f.atoms(sp.core.function.AppliedUndef) or s_ not in f.free_symbols:
        return None, None
    regions = (("deviates at or below the first tabulated cumulative value", {s_: sp.Integer(0), n_: 2 + b}, sp.Integer(0)),
               ("deviates inside the table", {s_: 1 + a, n_: 2 + a + b}, a))
    proved = {"k": True, "k+1": True}
    for _, sub, k in regions:
        try:
            d = sp.simplify(f.subs(sub, simultaneous=True) - k)
        except Exception:
            d = None
        if d != 0:
            proved["k"] = False
        if d != 1:
            proved["k+1"] = False
    for role in ("k", "k+1"):
        if proved[role]:
            return role, None
    vals = index_values(e, x, u)
    if vals is None:
        return None, None
    off = {"k": 0, "k+1": 1}
    miss = {r: sorted({("below" if sv == 0 else "inside") for (n, sv), val in vals.items() if sv <= n - 1 and val != max(sv - 1, 0) + o}) for r, o in off.items()}
    for role in ("k", "k+1"):
        if not miss[role]:
            return role, None
    role = "k" if len(miss["k"]) <= len(miss["k+1"]) else "k+1"
    txt = {"below": "deviates below the first tabulated cumulative value", "inside": "deviates inside the table"}
    n, sv = [key for key in sorted(vals) if key[1] <= key[0] - 1 and vals[key] != max(key[1] - 1, 0) + off[role]][0]
    return "other", "`%s` is not the segment %s max(searchsorted - 1, 0)%s for %s (for a table of %d entries and a deviate with %d entries below it, it is %d%s)" \
        % (str(e)[:80], "start" if role == "k" else "end", "" if role == "k" else " + 1", " and ".join(txt[z] for z in miss[role]), n, sv, vals[(n, sv)],
           ": a negative index counts from the END of the table" if vals[(n, sv)] < 0 else "")


def inverse_interpolant(chk, repo, callee):
    """the map u -> x(u) under _genrand_accum: for every deviate u <= (last cumulative value) the routine that interpolates returns
    the point at u of the straight line through the table points k and k+1 that bracket u, k = max(searchsorted(abscissae, u) - 1, 0)
    (so below the first tabulated value it is the line through the FIRST TWO entries, continued).  This is what makes grid points come
    back exactly at their cumulative values, the map non-decreasing, and the result stay inside the grid from the first tabulated value
    on.  Decided on the term of the routine (search, size, element reads, clamp primitives), segment indices classified for all table
    sizes; anything else in the term: no verdict."""
    R, key = "R19.gen", "inverse-interpolation::line-through-bracketing-entries"
    if callee is None or not repo.has(callee):
        chk.ob(R, key, None, repo.func(RA + "Generator._genrand_accum").where(), "the interpolation routine under _genrand_accum is not a package function that can be read (%s)" % callee)
        return
    fi = repo.func(callee)
    chk.analysed_unit(fi.qualname)
    try:
        from checks import C18 as c18
        tools = (c18._SymEval, c18._search_in_part, c18._elementwise_lookups, c18._index_values)
    except Exception as e:                  # (the sibling module is being edited / not importable: no verdict rather than a crash)
        chk.ob(R, key, None, fi.where(), "interpolation term machinery of checks.C18 not available: %s" % str(e)[:80])
        return
    SymEval_, search_in_part, elementwise_lookups, index_values = tools
    pos = [p for p in fi.params if not p.startswith("*")]
    if len(pos) != 3:
        chk.ob(R, key, None, fi.where(), "%s does not take (values, abscissae, query points)" % fi.qualname)
        return
    v, x, u = symx.symbols("v", "x", "u")
    what = "x(u) = (u - p_k)(x_{k+1} - x_k)/(p_{k+1} - p_k) + x_k with k = max(searchsorted(p, u) - 1, 0) for every u up to the last cumulative value"
    try:
        r = SymEval_(repo, opaque_tests=False).run(fi, dict(zip(pos, (v, x, u))), {})
    except Exception as e:
        r = "%s: %s" % (type(e).__name__, str(e)[:120])
    if not isinstance(r, sp.Basic):
        chk.ob(R, key, None, fi.where(), what + " (the value %s returns was not reduced to a term: %r)" % (fi.name(), r))
        return
    try:
        r = elementwise_lookups(search_in_part(r, x), x, u, (x, v))
    except Exception as e:
        chk.ob(R, key, None, fi.where(), what + " (term not normalised: %s)" % str(e)[:120])
        return
    AT = sp.Function("AT")
    K = sp.Symbol("K", integer=True)
    ref = (u - AT(x, K)) * (AT(v, K + 1) - AT(v, K)) / (AT(x, K + 1) - AT(x, K)) + AT(v, K)
    roles, wrong, unread = {}, [], []
    for e in sorted({t.args[1] for t in r.atoms(AT) if len(t.args) == 2}, key=str):
        role, text = _segment_role(e, x, u, index_values)
        if role == "other":
            wrong.append(text)
        elif role is None:
            unread.append(e)
        else:
            roles[e] = K if role == "k" else K + 1
    if wrong:
        chk.ob(R, key, False, fi.where(), what + ": " + "; ".join(wrong[:2]))
        return
    rk = r.xreplace(roles)
    try:
        eq = bool(symx.equal(rk, ref)[0])
    except Exception:
        eq = False
    foreign = sorted({type(t).__name__ for t in r.atoms(sp.core.function.AppliedUndef)} - {"AT", "SEARCHSORTED", "SIZE", "CLIP"}) + \
        sorted(str(s_) for s_ in r.free_symbols - {v, x, u})
    ok = True if eq else (None if (unread or foreign or not roles) else False)
    chk.ob(R, key, ok, fi.where(), what + ("" if eq else " (found %s)%s" % (str(r)[:240], " [not interpreted: %s]" % ", ".join(map(str, foreign + unread))[:120] if (foreign or unread) else "")))


def _constructor_paths(repo, fi, given, method="accum", cumulative=False):
    """mini_forks of Generator.__init__ with every argument a symbol except the flags and rng (a symbol or None)"""
    bind = {p: sp.Symbol(p) for p in fi.params if p != "self" and not p.startswith("*")}
    bind.update({"method": method, "cumulative": cumulative, "rng": sp.Symbol("rng") if given else None})
    bind = {k: v for k, v in bind.items() if k in fi.params}
    return mini_forks(repo, fi.qualname, bind)


def _stored_generator(repo, fi):
    """(True / False / None, what was found) for: after Generator.__init__ self.rng is the `rng` argument when one is given and
    numpy.random.RandomState(seed) otherwise, whatever the other arguments are"""
    seed = sp.Symbol("seed")
    RS = Fn("numpy.random.RandomState")
    want = {True: (sp.Symbol("rng"),), False: (RS(seed), RS(Fn("KW_seed")(seed)))}
    found, verdicts = [], []
    for given in (True, False):
        for method in ("accum", "cut"):
            paths = _constructor_paths(repo, fi, given, method)
            if not paths:
                return None, "constructor paths not enumerated"
            for end, mv in paths:
                if end == "raised":
                    continue            # the arguments are refused
                got = mv.state.get("self.rng")
                what = "rng %s, method %r: %s" % ("given" if given else "None", method, got if end is None else "not evaluated: %s" % end)
                if what not in found:
                    found.append(what)
                right = isinstance(got, sp.Basic) and got in want[given]
                if end is None:
                    verdicts.append(right)
                elif "self.rng" in mv.state and mv.at is not None and not _stored_later(repo, fi, mv.at, "rng"):
                    verdicts.append(right)      # evaluated past the last statement that stores the attribute
                else:
                    verdicts.append(None)
    if not verdicts:
        return None, "no path of the constructor completes"
    if any(v is False for v in verdicts):
        return False, "; ".join(found)
    return (None if any(v is None for v in verdicts) else True), "; ".join(found)


def _grid_ends(t):
    """(first element, last element, number of elements, None) of a grid term read off its construction, or (None, None, None, why
    not); library facts: numpy.linspace(a, b, n) has n points from a to b, b included unless endpoint is false; numpy.arange(a, b,
    step) stops BEFORE b; numpy.arange(n) is 0 .. n-1; an affine map of a grid maps its ends"""
    n = fname(t)
    plain = [a for a in t.args if not fname(a).startswith("KW_")] if isinstance(t, sp.Basic) else []
    kws = {fname(a)[3:]: a.args[0] for a in t.args if fname(a).startswith("KW_")} if isinstance(t, sp.Basic) else {}
    if n == "numpy.linspace":
        names = ["start", "stop", "num", "endpoint"]
        if len(plain) > 4 or set(kws) - set(names) - {"dtype"} or any(k in kws for k in names[:len(plain)]):
            return None, None, None, "linspace arguments %s" % str(t)[:80]
        a = dict(zip(names, plain))
        a.update({k: v for k, v in kws.items() if k in names})
        if "start" not in a or "stop" not in a:
            return None, None, None, "linspace arguments %s" % str(t)[:80]
        num = a.get("num", sp.Integer(50))
        ep = a.get("endpoint", sp.Symbol("True"))
        if ep == sp.Symbol("True"):
            return a["start"], a["stop"], num, None
        if ep == sp.Symbol("False"):
            return a["start"], a["stop"] - (a["stop"] - a["start"]) / num, num, None
        return None, None, None, "linspace endpoint=%s" % ep
    if n == "numpy.arange" and not kws:
        if len(plain) == 1:
            return sp.Integer(0), plain[0] - 1, plain[0], None
        if len(plain) in (2, 3):
            return plain[0], "before", plain[1], None
    if isinstance(t, (sp.Add, sp.Mul)):
        grids = [a for a in t.args if a.free_symbols and _grid_ends(a)[3] is None]
        if len(grids) == 1:
            g = grids[0]
            rest = t.func(*[a for a in t.args if a is not g])
            if not any(fname(x) in ("numpy.linspace", "numpy.arange") for x in sp.preorder_traversal(rest)):
                first, last, num, _ = _grid_ends(g)
                if last == "before":
                    return None, None, None, "arithmetic on a half-open arange %s" % str(t)[:80]
                op = (lambda z: z + rest) if isinstance(t, sp.Add) else (lambda z: z * rest)
                return op(first), op(last), num, None
    return None, None, None, "grid construction %s" % str(t)[:100]


def _functional_grid(repo, fi):
    """(True / False / None, what was found) for: Generator.__init__ called with a function, no x=, and xrange= / nx= stores as
    self.xinput a grid whose first point is xrange[0], whose last point is xrange[1] and which has nx points"""
    xr, nx = sp.Symbol("xrange"), sp.Symbol("nx")
    bind = {p: sp.Symbol(p) for p in fi.params if p != "self" and not p.startswith("*")}
    bind.update({"x": None, "xrange": xr, "nx": nx, "method": "accum", "cumulative": False})
    bind = {k: v for k, v in bind.items() if k in fi.params}
    if not {"x", "xrange", "nx"} <= set(bind):
        return None, "the constructor does not take x=, xrange=, nx="
    paths = mini_forks(repo, fi.qualname, bind)
    if not paths:
        return None, "constructor paths not enumerated"
    lo, hi = AT_(xr, 0), AT_(xr, 1)
    verdicts, found = [], []
    for end, mv in paths:
        if end == "raised":
            continue            # (an array density without x= is refused)
        g = mv.state.get("self.xinput")
        if not isinstance(g, sp.Basic) or (end is not None and (mv.at is None or _stored_later(repo, fi, mv.at, "xinput"))):
            verdicts.append(None)
            found.append("grid not evaluated: %s" % (end if end is not None else g,))
            continue
        first, last, num, why = _grid_ends(g)
        found.append("self.xinput = %s" % str(g)[:160])
        if why is not None:
            verdicts.append(None)
            found[-1] += " (%s: not read)" % why
        elif last == "before":
            # arange(start, stop, step): every element is below stop
            if teq(num, hi):
                verdicts.append(False)
                found[-1] += ": numpy.arange stops before its stop value, so the grid does not contain xrange[1]"
            else:
                verdicts.append(None)
        else:
            oks = [teq(first, lo), teq(last, hi), teq(num, nx)]
            verdicts.append(all(oks))
            if not all(oks):
                found[-1] += ": its %s" % ", ".join("%s is %s" % (nm, str(v_)[:60]) for nm, v_, o in zip(("first point", "last point", "number of points"), (first, last, num), oks) if not o)
    if not verdicts:
        return None, "no path of the constructor accepts a function with xrange= and nx="
    if any(v is False for v in verdicts):
        return False, "; ".join(found)
    return (None if any(v is None for v in verdicts) else True), "; ".join(found)


def _stored_later(repo, fi, at, attr):
    """self.<attr> may be stored after the evaluation of the method fi stopped in statement `at`: a store at or below that
    statement, in another method of the class, or through setattr / __dict__"""
    cd = fi.module.classes.get(fi.cls)
    if cd is None:
        return True
    for x in ast.walk(cd):
        if isinstance(x, ast.Call) and call_name(x) in ("setattr", "delattr", "vars"):
            return True
        if isinstance(x, ast.Attribute) and x.attr in ("__dict__", "__setattr__"):
            return True
    for m in cd.body:
        for x in ast.walk(m):
            if isinstance(x, ast.Attribute) and x.attr == attr and isinstance(x.ctx, (ast.Store, ast.Del)):
                if m is not fi.node or x.lineno >= at.lineno:
                    return True
    return False


def _entry_flags(repo, q):
    """the literal flags (True / False / None / strings) the object holds whenever Generator.__init__ calls the method q: read off
    the constructor's data flow (`self.isfunc = False` precedes `self.initialize_points()` on the only path that calls it), the
    same on every path and for every kind of argument; {} when the constructor does not call q or is not evaluated"""
    fi = repo.func(RA + "Generator.__init__")
    seen = []
    for given in (True, False):
        for cumulative in (False, True):
            paths = _constructor_paths(repo, fi, given, "accum", cumulative)
            if not paths:
                return {}
            for end, mv in paths:
                hits = [st for name, st in mv.entries if name == q]
                if end is not None and end != "raised" and not hits:
                    return {}           # the path was not evaluated up to a possible call of q
                seen += hits
    if not seen:
        return {}
    out = {}
    for k, v in seen[0].items():
        if (v is None or isinstance(v, (bool, str))) and k not in ("self.method", "self.cumulative") \
                and all(k in st and type(st[k]) is type(v) and st[k] == v for st in seen):
            out[k] = v
    return out


def _raw_after_normalise(chk, fi, rule):
    """after `self.X = numpy.array(param, ...)` the raw parameter must not be consulted for .size/.shape/len()"""
    norm_of = {}
    for x in walk_no_nested(fi.node):
        if isinstance(x, ast.Assign) and isinstance(x.value, ast.Call) and call_name(x.value) in ("array", "atleast_1d", "atleast_2d", "asarray") and x.value.args \
                and isinstance(x.value.args[0], ast.Name) and x.value.args[0].id in fi.params:
            if norm(x.targets[0]) != x.value.args[0].id:
                norm_of[x.value.args[0].id] = (norm(x.targets[0]), x.lineno)
    n = 0
    for p, (tgt, ln) in norm_of.items():
        uses = [x for x in walk_no_nested(fi.node) if isinstance(x, ast.Attribute) and isinstance(x.value, ast.Name) and x.value.id == p and x.attr in ("size", "shape", "ndim", "dtype") and x.lineno > ln]
        n += 1
        chk.ob(rule, "%s::normalised-copy-used::%s" % (fi.qualname, p), not uses, fi.where(uses[0]) if uses else fi.where(),
               "`%s` is normalised into %s; later code must consult the normalised copy%s"
               % (p, tgt, "" if not uses else ": `%s` is read from the raw argument, which fails for the documented list arguments (AttributeError)" % norm(uses[0])))
    return n


def _resolve_rowadd(mv, t):
    """the loop form `for i in range(N): V[i, :] += m[i]` covers every row when N is the row count of V (or the length of m)"""
    def rows(x):
        n = fname(x)
        if n == "RESHAPE":
            return x.args[1]
        if n == "CHOL":
            return AT_(SHAPE(x.args[0]), 0)
        if n in ("ROWADD", "ROWADDN", "COLADD"):
            return rows(x.args[0])
        if n == "DOT":
            a, b = x.args
            r = rows(a)
            if r is None and (fname(a) == "CHOL" or a in mv.square):
                r = rows(b)
            return r
        return None
    if not isinstance(t, sp.Basic) or not t.args:
        return t
    t = t.func(*[_resolve_rowadd(mv, a) for a in t.args])
    if fname(t) == "ROWADDN":
        V, m, N = t.args
        # every row is visited when the count is the row count of V or the length of m (which the constructor / the length guard
        # make equal); passes driven by several iterables (zip) stop at the shortest, so each of them has to be one of these
        full = [x for x in (rows(V), LEN(V), AT_(SHAPE(V), 0), LEN(m), SIZE(m), AT_(SHAPE(m), 0)) if x is not None]
        if all(n in full for n in (N.args if fname(N) == "MINLEN" else [N])):
            return ROWADD(V, m)
    if isinstance(t, sp.Add):
        # the broadcast form `V + m.reshape(K, 1)` (also in place): a vector m laid out as a (K, 1) column is stretched over the
        # columns of the matrix V, so row i gets m[i] -- the same sum as the loop -- when K is the row count of V or the length of m
        # (any other K either fails in reshape or is not shown here to cover the rows: the term is left as it is, see _open_column)
        cols = [a for a in t.args if _is_column(mv, a)]
        if len(cols) == 1:
            m, K = cols[0].args[0], cols[0].args[1]
            V = sp.Add(*[a for a in t.args if a is not cols[0]])
            full = [x for x in (rows(V), LEN(m), SIZE(m), AT_(SHAPE(m), 0)) if x is not None]
            if mv.rank(V) == 2 and K in full:
                return ROWADD(V, m)
    return t


def _is_column(mv, a):
    """a is RESHAPE(m, K, 1) of a vector m: the (K, 1) column with the elements of m"""
    return fname(a) == "RESHAPE" and len(a.args) == 3 and a.args[2] == 1 and mv.rank(a.args[0]) == 1


def _open_column(mv, t):
    """t still adds a (K, 1) column of a vector to something, with a K that _resolve_rowadd did not relate to the rows of the other
    operand: what the broadcast does is not decided by the term rules"""
    return isinstance(t, sp.Basic) and any(isinstance(x, sp.Add) and any(_is_column(mv, a) for a in x.args) for x in sp.preorder_traversal(t))


# ---- how a term scales with one of its inputs ----------------------------------------------------------------------------------
# A lower-triangular factor M of cov (M M^T = cov) is positively homogeneous of degree 1/2 in cov: the factor of c*cov is sqrt(c) M
# for every c > 0.  The degree of a term is read off its structure (library facts: element / diagonal / triangle selections,
# transposes, reductions by sum / max / min and absolute values are homogeneous of degree 1 in their operand; square roots and the
# Cholesky factor halve the degree; products add degrees; shapes and sizes do not depend on the scale).
ANY_DEGREE = "any"          # the term is zero: homogeneous of every degree
SCALE_KEEPS = {"numpy.diag", "numpy.diagonal", "numpy.diagflat", "numpy.tril", "numpy.triu", "numpy.transpose", "numpy.atleast_1d", "numpy.atleast_2d",
               "numpy.abs", "numpy.absolute", "numpy.fabs", "numpy.asarray", "numpy.array", "numpy.ravel", "numpy.squeeze", "numpy.negative", "numpy.sum",
               "numpy.trace", "numpy.max", "numpy.min", "numpy.amax", "numpy.amin", "numpy.mean", "numpy.cumsum", "numpy.diff",
               "T", "AT", "SLICE", "ATCOL", "COL", "RESHAPE", "CAST", "CUMSUM", "DIFF", "ATTR_T", "ATTR_real",
               "M_copy", "M_diagonal", "M_ravel", "M_flatten", "M_squeeze", "M_transpose", "M_sum", "M_trace", "M_max", "M_min", "M_mean", "M_cumsum"}
SCALE_HALVES = {"numpy.sqrt", "math.sqrt", "CHOL", "scipy.linalg.sqrtm"}
SCALE_ADDS = {"DOT", "numpy.outer", "numpy.kron", "numpy.multiply", "numpy.inner"}
SCALE_FREE = {"SHAPE", "SIZE", "LEN", "numpy.shape", "numpy.ndim", "numpy.size", "ATTR_shape", "ATTR_size", "ATTR_ndim", "ATTR_dtype",
              "numpy.zeros_like", "numpy.ones_like", "numpy.empty_like", "numpy.isfinite", "numpy.isnan", "numpy.sign"}
TRUTH_REDUCERS = {"numpy.any", "numpy.all", "M_any", "M_all", "numpy.count_nonzero", "numpy.flatnonzero", "numpy.nonzero"}


def scale_degree(t, s):
    """d when the term t is positively homogeneous of degree d in the input s (t with c*s for s is c^d * t, every c > 0), ANY_DEGREE
    when t is zero, None when that is not read off the term"""
    t = sp.sympify(t)
    if t == 0:
        return ANY_DEGREE
    if not t.has(s):
        return sp.Integer(0)
    if t == s:
        return sp.Integer(1)
    n = fname(t)
    if n in SCALE_FREE:
        return sp.Integer(0)
    if isinstance(t, sp.Add):
        ds = [scale_degree(a, s) for a in t.args]
        if any(d is None for d in ds):
            return None
        ds = {d for d in ds if d != ANY_DEGREE}
        return ANY_DEGREE if not ds else (ds.pop() if len(ds) == 1 else None)
    if isinstance(t, sp.Mul):
        ds = [scale_degree(a, s) for a in t.args]
        if any(d is None for d in ds):
            return None
        return ANY_DEGREE if ANY_DEGREE in ds else sum(ds, sp.Integer(0))
    if isinstance(t, sp.Pow):
        d = scale_degree(t.args[0], s)
        if d is None or t.args[1].has(s) or not t.args[1].is_number:
            return None
        return d if d == ANY_DEGREE else d * t.args[1]
    if not t.args or any(a.has(s) for a in t.args[1:] if n not in SCALE_ADDS):
        return None
    if n in SCALE_KEEPS:
        return scale_degree(t.args[0], s)
    if n in SCALE_HALVES:
        d = scale_degree(t.args[0], s)
        return d if d in (None, ANY_DEGREE) else d / 2
    if n in SCALE_ADDS and len(t.args) == 2:
        ds = [scale_degree(a, s) for a in t.args]
        if any(d is None for d in ds):
            return None
        return ANY_DEGREE if ANY_DEGREE in ds else ds[0] + ds[1]
    if n == "numpy.linalg.inv":
        d = scale_degree(t.args[0], s)
        return d if d in (None, ANY_DEGREE) else -d
    return None


def scale_free_test(leaf, s):
    """the truth of a test leaf (Mini.test_leaves) is the same for s and c*s, every c > 0: a test of the kind of an object, the
    truth / any / all / non-zero count of a homogeneous term, a comparison of two terms of the same degree (zero has every degree)"""
    if leaf is None:
        return False
    if leaf[0] == "type":
        return True
    if leaf[0] == "truth":
        t = leaf[1]
        if fname(t) in TRUTH_REDUCERS and t.args and not any(a.has(s) for a in t.args[1:]):
            t = t.args[0]
        return scale_degree(t, s) is not None
    da, db = scale_degree(leaf[2], s), scale_degree(leaf[3], s)
    return da is not None and db is not None and (da == db or ANY_DEGREE in (da, db))


def _stored_factor(repo, fi, paths, cov_s):
    """(True / False / None, text) for: on every path of the constructor that accepts its arguments the stored M is the Cholesky
    factor of the stored covariance.  A path is M = cholesky(cov) itself, or -- behind a test the arguments leave open (a shortcut
    for covariances of a special form or size) -- another term: that one is refuted when it does not scale like a factor (degree
    1/2) although none of the tests on its path depends on the scale of cov; it is not decided otherwise"""
    if not paths:
        return None, "constructor paths not enumerated"
    verdicts, texts = [], []
    for end, mv in paths:
        if end == "raised":
            continue
        M, cv = mv.state.get("self.M"), mv.state.get("self.cov")
        tests = [mv.fork_leaves.get(k, ("?", [None])) for k in mv.fork]
        on = " and ".join("%s(%s)" % ("" if mv.fork[k] else "not ", mv.fork_leaves.get(k, ("?",))[0]) for k in mv.fork) or "every input"
        if end is not None and (not isinstance(M, sp.Basic) or mv.at is None or _stored_later(repo, fi, mv.at, "M")):
            verdicts.append(None)
            texts.append("for %s: not evaluated: %s" % (on, end))
            continue
        texts.append("for %s: self.M = %s, self.cov = %s" % (on, str(M)[:120], cv))
        if isinstance(M, sp.Basic) and M == CHOL(cov_s) and cv == cov_s:
            verdicts.append(True)
            continue
        if not mv.fork:
            verdicts.append(False)      # the one path there is: nothing but the factor of cov will do
            continue
        d = scale_degree(M, cov_s) if isinstance(M, sp.Basic) and cv == cov_s else None
        if d is not None and d != ANY_DEGREE and d != sp.Rational(1, 2) and all(scale_free_test(lf, cov_s) for _, leaves in tests for lf in leaves):
            verdicts.append(False)
            texts[-1] = ("M M^T = cov makes M scale with the square root of cov (the factor of c*cov is sqrt(c)*M); for %s -- tests that do not change when cov is "
                         "scaled -- the constructor stores self.M = %s, which scales like c^%s: it is not a factor of cov, the samples are not mean + L z" % (on, str(M)[:120], d))
            return False, texts[-1]
        verdicts.append(None)
    if not verdicts:
        return None, "no path of the constructor completes"
    if any(v is False for v in verdicts):
        return False, "; ".join(texts)
    return (None if any(v is None for v in verdicts) else True), "; ".join(texts)


def cholesky(chk, repo):
    R = "R19.chol"
    fi = repo.func(RA + "CholeskySampler.__init__")
    chk.analysed_unit(fi.qualname)
    n = _raw_after_normalise(chk, fi, R)
    chk.ob(R, fi.qualname + "::normalisations-found", n == 2, fi.where(), "mean and cov are normalised to arrays (%d)" % n)
    mean_s, cov_s, dist_s, n_s = sp.Symbol("mean"), sp.Symbol("cov"), sp.Symbol("dist"), sp.Symbol("n")
    v, st, _ = mini_run(repo, fi.qualname, {"mean": mean_s, "cov": cov_s, "dist": dist_s})
    v0, st0, _ = mini_run(repo, fi.qualname, {"mean": mean_s, "cov": cov_s, "dist": None})
    if isinstance(v, NoVerdict) or isinstance(v0, NoVerdict) or not isinstance(st.get("self.M"), sp.Basic):
        # tests the arguments leave open (a shortcut for covariances of a special form): every path is evaluated
        paths = mini_forks(repo, fi.qualname, {"mean": mean_s, "cov": cov_s, "dist": dist_s})
        paths0 = mini_forks(repo, fi.qualname, {"mean": mean_s, "cov": cov_s, "dist": None})
        okf, found = _stored_factor(repo, fi, paths, cov_s)
        chk.ob(R, fi.qualname + "::factor", okf, fi.where(), "M is the (lower-triangular) Cholesky factor of the stored covariance on every path of the constructor (%s)" % found)
        okd = None
        if paths and paths0:
            got = [(mv.state.get("self.dist"), want_) for ps, want_ in ((paths, dist_s), (paths0, sp.Symbol("numpy.random.randn"))) for end, mv in ps
                   if end != "raised" and (end is None or ("self.dist" in mv.state and mv.at is not None and not _stored_later(repo, fi, mv.at, "dist")))]
            if got and len(got) == len([1 for ps in (paths, paths0) for end, _ in ps if end != "raised"]):
                okd = all(g == w_ for g, w_ in got)
            elif any(g != w_ for g, w_ in got):
                okd = False
        chk.ob(R, fi.qualname + "::deviate-source", okd, fi.where(), "the deviate source is the one passed (default numpy.random.randn) on every path of the constructor")
    else:
        chk.ob(R, fi.qualname + "::factor", st.get("self.cov") == cov_s and st["self.M"] == CHOL(cov_s), fi.where(),
               "M is the (lower-triangular) Cholesky factor of the stored covariance (self.M = %s, self.cov = %s)" % (st["self.M"], st.get("self.cov")))
        chk.ob(R, fi.qualname + "::deviate-source", st.get("self.dist") == dist_s and st0.get("self.dist") == sp.Symbol("numpy.random.randn"), fi.where(),
               "the deviate source is the one passed (default numpy.random.randn): %s / %s" % (st.get("self.dist"), st0.get("self.dist")))
    # the object as the constructor leaves it, conversions kept (element types of what it stores)
    vc, stc, _ = mini_run(repo, fi.qualname, {"mean": mean_s, "cov": cov_s, "dist": dist_s}, casts=True)
    built = None if isinstance(vc, NoVerdict) or any(not isinstance(x, (sp.Basic, str, bool, tuple, type(None))) for x in stc.values()) else dict(stc)
    for q in (RA + "CholeskySampler.sample", RA + "cholesky_sample"):
        fi = repo.func(q)
        chk.analysed_unit(q)
        w = fi.where()
        method = "Sampler" in q
        if method:
            M, mean, dist, npar = sp.Symbol("self.M"), sp.Symbol("self.mean"), sp.Symbol("self.dist"), sp.Symbol("self.npar")
            bind = {"n": n_s}
        else:
            M, mean, dist, npar = CHOL(cov_s), sp.Symbol("means"), dist_s, AT_(SHAPE(cov_s), 0)
            bind = {"cov": cov_s, "n": n_s, "means": mean, "dist": dist}
        ranks = {sp.Symbol("self.M"): 2, mean: 1, cov_s: 2}

        def evaluate(b):
            val, _, mv = mini_run(repo, q, b, ranks=ranks)
            mv.square = {sp.Symbol("self.M")}
            if isinstance(val, sp.Basic):
                val = mv.tnorm(_resolve_rowadd(mv, val))
            return val, mv

        def ref(nn, with_mean=True):
            mv = Mini(repo, ranks)
            Rr = RESHAPE(APPLY(dist, npar * nn), npar, nn)
            V = DOT(M, Rr)
            return mv.tnorm(T_(ROWADD(V, mean) if with_mean else V)), Rr, mv.tnorm(T_(V))

        keys = [q + "::deviates", q + "::factor-times-deviates", q + "::mean-added-per-parameter", q + "::returns-transpose"] + ([] if method else [q + "::factor"])
        c, mv = evaluate(bind)
        key_t = q + "::values-not-narrowed"
        if not isinstance(c, sp.Basic):
            _none(chk, R, keys + [key_t], w, "sampler not evaluated: %s" % (c,))
            continue
        # element types: mean + M.r is a floating quantity; whatever the result passes through on its way out (a conversion, a
        # preallocated output array, an in-place update of one) must be able to hold it.  Decided on the term with the conversions
        # kept, over the abstract element types {holds a double, does not, the caller's own type}; the object state is the one the
        # constructor builds (so a constructor that converts the means to floating point discharges `dtype of self.mean`)
        inputs = {mean_s: "input:mean", cov_s: "input:cov", sp.Symbol("means"): "input:means"}
        cc, _, _ = mini_run(repo, q, bind, state=built if method else None, ranks=ranks, casts=True)
        if not isinstance(cc, sp.Basic):
            chk.ob(R, key_t, None, w, "element type of the result not followed: %s" % (cc,))
        else:
            verdicts = [real_data_cast(x, inputs) for x in value_casts(cc)]
            bad = [m for okc, m in verdicts if okc is False]
            und = [m for okc, m in verdicts if okc is None]
            chk.ob(R, key_t, False if bad else (None if und else True), w,
                   "the samples are mean + M.r as floating values: nothing between the arithmetic and the result converts them to an element type that "
                   "cannot hold them%s" % (": " + bad[0] if bad else (" (" + und[0] + ")" if und else " (%d conversion(s) on the way, each to a type that holds a double or to the value's own type)" % len(verdicts))))
        want, Rr, prod = ref(n_s)
        # npar*n standard deviates, drawn once from the deviate source, shaped (npar, n)
        drawn = applications(c, "APPLY")
        okd = len(drawn) == 1 and drawn[0] == APPLY(dist, npar * n_s) and c.has(Rr)
        chk.ob(R, keys[0], okd if drawn else None, w, "npar*n standard deviates drawn once from the deviate source, shaped (npar, n) (%s)" % [str(x) for x in drawn])
        dots = applications(c, "DOT")
        chk.ob(R, keys[1], (c.has(prod) or c.has(DOT(M, Rr))) if dots else None, w, "V = M . r (%s)" % [str(x)[:120] for x in dots])
        adds = [x for x in sp.preorder_traversal(c) if fname(x) in ("ROWADD", "ROWADDN", "COLADD")]
        if adds:
            # (n, npar) orientation: the mean runs along the columns; (npar, n) orientation (a missing transpose is the next rule's business): along the rows
            okm = len(adds) == 1 and adds[0] in (COLADD(prod, mean), ROWADD(DOT(M, Rr), mean))
        else:
            okm = None if c.has(mean) else False
        chk.ob(R, keys[2], okm, w, "row i gets mean[i] added (%s)" % ([str(x)[:160] for x in adds] or "the mean does not enter the result"))
        okr = teq(c, want)
        detail = str(c)[:200]
        if method:
            # without a count a single sample (the first row of the n = 1 result) is returned
            c1, _ = evaluate({"n": None})
            w1, R1, _ = ref(sp.Integer(1))
            alts = [AT_(w1, 0), DOT(M, APPLY(dist, npar)) + mean, COLADD(DOT(M, APPLY(dist, npar)), mean)]
            if not isinstance(c1, sp.Basic):
                okr = None if okr else False
                detail += "; n=None: %s" % (c1,)
            elif not any(teq(c1, a) for a in alts):
                okr = False
                detail += "; n=None returns %s" % str(c1)[:200]
        else:
            # without means nothing is added
            c0, _ = evaluate(dict(bind, means=None))
            w0 = ref(n_s, with_mean=False)[0]
            if not isinstance(c0, sp.Basic):
                okr = None if okr else False
                detail += "; means=None: %s" % (c0,)
            elif not teq(c0, w0):
                okr = False
                detail += "; means=None returns %s" % str(c0)[:200]
        if okr is False and (_open_column(mv, c) or (method and _open_column(mv, c1))):
            okr = None
            detail += "; a (K, 1) column is broadcast-added with a K not related to the rows of the other operand: not decided"
        chk.ob(R, keys[3], okr, w, "result is (n, npar): the transpose of M.r + mean (%s)" % detail)
        if not method:
            ch = applications(c, "CHOL")
            chk.ob(R, keys[4], (ch == [CHOL(cov_s)] or set(ch) == {CHOL(cov_s)}) if ch else None, w, "M = cholesky(cov) (%s)" % [str(x) for x in ch])
    cs = repo.func(RA + "cholesky_sample")
    chk.ob(R, cs.qualname + "::mean-length-checked", _length_guard(repo, cs, "means", "cov"), cs.where(), "a mean vector of the wrong length is rejected")


# ---- no value is carried from one call of a sampler function to the next -----------------------------------------------------
MUTATORS = {"append", "extend", "insert", "update", "setdefault", "clear", "pop", "popitem", "add", "remove", "discard", "__setitem__", "fill", "put",
            "sort", "reverse", "resize", "itemset", "appendleft", "move_to_end"}
MUTABLE_MAKERS = {"list", "dict", "set", "OrderedDict", "defaultdict", "deque", "WeakValueDictionary", "WeakKeyDictionary", "zeros", "empty", "ones", "array"}
STATE_FUNCS = (("R19.chol", RA + "cholesky_sample"), ("R19.cap", CO + "randcap"), ("R19.box", CO + "randsphere"), ("R19.ind", RA + "random_indices"))


def _root_name(e):
    while isinstance(e, (ast.Subscript, ast.Attribute, ast.Starred)):
        e = e.value
    return e.id if isinstance(e, ast.Name) else None


def _store_targets(st):
    """the expressions a statement (or a walrus) binds / overwrites"""
    if isinstance(st, ast.Assign):
        tg = list(st.targets)
    elif isinstance(st, (ast.AugAssign, ast.AnnAssign, ast.NamedExpr, ast.For, ast.AsyncFor)):
        tg = [st.target]
    elif isinstance(st, ast.Delete):
        tg = list(st.targets)
    elif isinstance(st, (ast.With, ast.AsyncWith)):
        tg = [i.optional_vars for i in st.items if i.optional_vars is not None]
    else:
        return []
    out = []
    while tg:
        t = tg.pop()
        if isinstance(t, (ast.Tuple, ast.List)):
            tg.extend(t.elts)
        else:
            out.append(t)
    return out


def _own_exprs(st):
    """the expressions a statement evaluates itself (not those of the statements nested in it)"""
    if isinstance(st, ast.stmt):
        return [v for f, v in ast.iter_fields(st) if isinstance(v, ast.expr)] + \
               [x for f, v in ast.iter_fields(st) if isinstance(v, list) for x in v if isinstance(x, ast.expr)] + \
               [i.context_expr for i in getattr(st, "items", []) if isinstance(i, ast.withitem)]
    return []


def _loads(e, names):
    return [x for x in ast.walk(e) if isinstance(x, ast.Name) and isinstance(x.ctx, ast.Load) and x.id in names]


def carried_state(fi):
    """does the value a plain function returns depend on something an earlier call of it left behind?

    Objects that outlive a call: module-level names (declared `global`, or module-level containers the function stores into /
    mutates), parameters whose default is a mutable object, attributes of the function object.  The function carries state when
    it writes such an object AND what it returns depends on a read of it, by data flow through the locals or by control (a
    branch on such a read decides what is bound / returned).  Returns (verdict, node, text):
      True   nothing written by the function outlives the call, or what outlives it never reaches the result
      False  the result depends on carried state and no read of it is keyed on the VALUES of this call's arguments (the
             arguments take part by object identity -- `is`, id() -- or not at all): the same array object with other contents,
             or simply a second call, is answered with what was computed for the first
      None   the carried state is looked up by something computed from the arguments' contents: whether that key determines the
             result is not decided here"""
    node, mod = fi.node, fi.module
    a = node.args
    params = {x.arg for x in a.posonlyargs + a.args + a.kwonlyargs} | {x.arg for x in (a.vararg, a.kwarg) if x is not None}
    glob = {n for x in walk_no_nested(node) if isinstance(x, (ast.Global, ast.Nonlocal)) for n in x.names}
    stmts = [x for x in walk_no_nested(node) if isinstance(x, (ast.stmt, ast.NamedExpr)) and x is not node]
    bound = {t.id for st in stmts for t in _store_targets(st) if isinstance(t, ast.Name)}
    bound |= {al.asname or al.name.split(".")[0] for st in stmts if isinstance(st, (ast.Import, ast.ImportFrom)) for al in st.names}
    comp = {t.id for x in walk_no_nested(node) if isinstance(x, ast.comprehension) for t in ast.walk(x.target) if isinstance(t, ast.Name)}
    local = (params | bound | comp) - glob
    modlevel = set(mod.consts)
    for st in walk_no_nested(mod.tree):
        for t in _store_targets(st):
            if isinstance(t, ast.Name):
                modlevel.add(t.id)
    mutable_default = set()
    pos = a.posonlyargs + a.args
    for p, d in list(zip(pos[len(pos) - len(a.defaults):], a.defaults)) + [(p, d) for p, d in zip(a.kwonlyargs, a.kw_defaults) if d is not None]:
        if isinstance(d, (ast.List, ast.Dict, ast.Set, ast.ListComp, ast.DictComp, ast.SetComp)) or (isinstance(d, ast.Call) and call_name(d) in MUTABLE_MAKERS):
            mutable_default.add(p.arg)

    def outlives(r):
        if r is None:
            return False
        if r in glob or r in mutable_default:
            return True
        if r in local:
            return False
        return r in modlevel or r == node.name

    written = {}
    for st in stmts:
        for t in _store_targets(st):
            if isinstance(t, ast.Name):
                if t.id in glob:
                    written.setdefault(t.id, st)
            elif outlives(_root_name(t)) and _root_name(t) not in mod.imports:
                written.setdefault(_root_name(t), st)
    for x in walk_no_nested(node):
        if isinstance(x, ast.Call) and isinstance(x.func, ast.Attribute) and x.func.attr in MUTATORS:
            r = _root_name(x.func.value)
            if outlives(r) and r not in mod.imports:
                written.setdefault(r, x)
    if not written:
        return True, None, "nothing the function writes outlives the call"
    # what depends on a read of the written objects: data flow through bindings, control through the tests that guard them
    tainted = set(written)
    guarded_returns = []
    changed = True
    while changed:
        changed = False
        guarded_returns = []
        for st in stmts:
            new = set()
            if isinstance(st, (ast.If, ast.While)) and _loads(st.test, tainted):
                for x in walk_no_nested(st):
                    new |= {_root_name(t) for t in _store_targets(x)} - {None}
                    if isinstance(x, ast.Return):
                        guarded_returns.append(x)
            elif isinstance(st, (ast.Try,)):
                pass
            elif any(_loads(e, tainted) for e in _own_exprs(st)) and not isinstance(st, (ast.If, ast.While)):
                new |= {_root_name(t) for t in _store_targets(st)} - {None}
            new = {n for n in new if n in local} - tainted
            if new:
                tainted |= new
                changed = True
    rets = [x for x in walk_no_nested(node) if isinstance(x, ast.Return)]
    hit = [r for r in rets if (r.value is not None and _loads(r.value, tainted)) or r in guarded_returns]
    # a function that stops at a guarded return also decides, by not returning there, what the later returns stand for
    if not hit and guarded_returns:
        hit = guarded_returns
    if not hit:
        return True, None, "%s outlive(s) the call but never reach(es) the result" % ", ".join("`%s`" % k for k in sorted(written))
    # how the reads of the carried objects are keyed on this call's arguments
    derived = set(params) - set(written)
    changed = True
    while changed:
        changed = False
        for st in stmts:
            if isinstance(st, (ast.If, ast.While)):
                continue
            if any(_loads(e, derived) for e in _own_exprs(st)):
                new = {_root_name(t) for t in _store_targets(st)} - {None} - derived - set(written)
                new = {n for n in new if n in local and n not in tainted}
                if new:
                    derived |= new
                    changed = True
    # the look-ups: tests that read a carried object, the index of an element read of one, the arguments of get/setdefault/pop on one
    reads = []
    for x in walk_no_nested(node):
        if isinstance(x, (ast.If, ast.While, ast.IfExp, ast.Assert)) and _loads(x.test, set(written)):
            reads.append(x.test)
        elif isinstance(x, ast.comprehension):
            reads += [c for c in x.ifs if _loads(c, set(written))]
        elif isinstance(x, ast.Subscript) and isinstance(x.ctx, ast.Load) and _root_name(x.value) in written:
            reads.append(x.slice)
        elif isinstance(x, ast.Call) and isinstance(x.func, ast.Attribute) and x.func.attr in ("get", "setdefault", "pop", "__getitem__", "__contains__") \
                and _root_name(x.func.value) in written:
            reads.append(x)
    by_value, by_identity = [], []
    for e in reads:
        ident = set()
        for x in ast.walk(e):
            if isinstance(x, ast.Compare) and all(isinstance(o, (ast.Is, ast.IsNot)) for o in x.ops):
                ident |= {id(o) for o in [x.left] + x.comparators if isinstance(o, ast.Name)}
            if isinstance(x, ast.Call) and call_name(x) == "id" and len(x.args) == 1 and isinstance(x.args[0], ast.Name):
                ident.add(id(x.args[0]))
        for nm in _loads(e, derived):
            (by_identity if id(nm) in ident else by_value).append((nm, e))
    first = reads[0] if reads else written[sorted(written)[0]]
    names = ", ".join("`%s`" % k for k in sorted(written))
    if by_value:
        return None, by_value[0][1], "what is returned depends on %s, kept from earlier calls and looked up through `%s`: whether that key determines the result is not decided" % (names, norm(by_value[0][1])[:80])
    how = ("the arguments take part only by object identity (`%s`)" % norm(by_identity[0][1])[:80]) if by_identity else "no read of it looks at this call's arguments"
    return False, first, "what is returned depends on %s, which an earlier call left behind, and %s: a call with the same array object holding other values (or simply a later call) " \
                         "is answered from what was computed before" % (names, how)


def no_carried_state(chk, repo):
    for rule, q in STATE_FUNCS:
        if not repo.has(q):
            continue
        fi = repo.func(q)
        ok, at, text = carried_state(fi)
        chk.ob(rule, q + "::nothing-carried-between-calls", ok, fi.where(at) if at is not None else fi.where(),
               "the result is a function of this call's arguments and the deviates drawn in it: %s" % text)


def _must_hold(test, label):
    """[(atom, polarity)] that are known when the branch on `test` is left by the edge `label`"""
    if isinstance(test, ast.UnaryOp) and isinstance(test.op, ast.Not):
        return _must_hold(test.operand, "F" if label == "T" else "T")
    if isinstance(test, ast.BoolOp) and ((isinstance(test.op, ast.And) and label == "T") or (isinstance(test.op, ast.Or) and label == "F")):
        out = []
        for v in test.values:
            out += _must_hold(v, label)
        return out
    return [(test, label == "T")]


def _length_guard(repo, fi, vec, mat):
    """True: some raise is reached only when len(vec) differs from the dimension of mat; False: no raise depends on vec at all;
    None: a rejection depending on vec exists but is not of a recognised form"""
    lens = {"len(%s)" % vec, "numpy.size(%s)" % vec, "numpy.asarray(%s).size" % vec, "numpy.array(%s).size" % vec, "numpy.asarray(%s).shape[0]" % vec}
    dims = {"%s.shape[0]" % mat, "%s.shape[1]" % mat, "len(%s)" % mat, "numpy.linalg.cholesky(%s).shape[0]" % mat}
    cfg = cfg_of(fi)
    view = cfg.view()
    mentions = wrong = False
    for rn in rules.raise_nodes(cfg):
        for b, lab in view.controlling_branches(rn):
            if b.kind != "branch":
                continue
            t = rules.expand(b.ast.test, fi.node)
            for atom, pos in _must_hold(t, lab):
                if isinstance(atom, ast.Compare) and len(atom.ops) == 1:
                    a, b_ = norm(atom.left), norm(atom.comparators[0])
                    if isinstance(atom.ops[0], (ast.Is, ast.IsNot)) and "None" in (a, b_):
                        continue        # `vec is not None` only says that there is something to check
                    if (a in lens and b_ in dims) or (b_ in lens and a in dims):
                        if (isinstance(atom.ops[0], ast.NotEq) and pos) or (isinstance(atom.ops[0], ast.Eq) and not pos):
                            return True
                        wrong = True    # the two lengths are compared, but not for being different
                        continue
                if vec in rules.names_in(atom):
                    mentions = True
    if wrong:
        return False
    if mentions:
        return None
    # the vector may be handed to a private helper that validates it
    for x in walk_no_nested(fi.node):
        if isinstance(x, ast.Call) and any(isinstance(a, ast.Name) and a.id == vec for a in list(x.args) + [k.value for k in x.keywords]):
            d = dotted_name(x.func)
            full = repo.resolve_name(fi.module, d) if d else None
            if full and repo.has(full) and any(isinstance(y, ast.Raise) for y in walk_no_nested(repo.func(full).node)):
                return None
    return False


def _choice_args(t):
    """{a, size, replace} of an application M_choice(recv, ...) (numpy signature choice(a, size=None, replace=True, p=None))"""
    out = {"recv": t.args[0]}
    names = ["a", "size", "replace", "p"]
    pos = 0
    for x in t.args[1:]:
        if fname(x).startswith("KW_"):
            out[fname(x)[3:]] = x.args[0]
        else:
            if pos >= len(names):
                return None
            out[names[pos]] = x
            pos += 1
    return out


def _choice_paths(repo, q, bind):
    """[(path text, choice arguments or None, value)] of every returning path of q"""
    out = []
    for atoms, v in mini_paths(repo, q, bind):
        ch = applications(v, "M_choice") if isinstance(v, sp.Basic) else []
        out.append((_path_text(atoms), _choice_args(ch[0]) if len(ch) == 1 and v == ch[0] else None, v))
    return out


def _largest_exact(info):
    """largest L such that every integer 0..L is a value of the element type (kind, bits)"""
    kind, bits = info
    if kind == "b":
        return 1
    if kind == "i":
        return 2 ** (bits - 1) - 1
    if kind == "u":
        return 2 ** bits - 1
    if kind == "c":
        bits //= 2
    return {16: 2 ** 11, 32: 2 ** 24, 64: 2 ** 53}.get(bits, 2 ** 64)


def index_cast(c, atoms, imax):
    """(True / False / None, text) for a conversion CAST(indices, dtype, where) of indices drawn from [0, imax) on the path described
    by `atoms` ({atom text: truth value}, relations in ATOM_RELS): the largest imax the path admits, minus one, must be a value of
    the type.  The generator returns 8-byte signed integers, so every type that holds those is wide enough whatever imax is"""
    v, d, where = c.args
    info = _dtype_info(d)
    if info is None:
        return None, "%s converts the indices to the element type `%s`: not decided" % (where, str(d)[:60])
    top = _largest_exact(info)
    if top >= 2 ** 63 - 1:
        return True, ""
    rels = [ATOM_RELS[k] if val else sp.Not(ATOM_RELS[k]) for k, val in atoms.items() if k in ATOM_RELS]
    if len(rels) != len(atoms):
        return None, "%s: path condition not followed" % where
    own = [r for r in rels if r.free_symbols == {imax}]
    mixed = [r for r in rels if imax in r.free_symbols and r.free_symbols != {imax}]
    x = sp.Symbol("imax_", real=True)
    try:
        S = sp.And(*[r.subs(imax, x) for r in own]).as_set() if own else sp.S.Reals
        if S is sp.S.EmptySet:
            return True, ""                # no imax takes this path
        sup = S.sup
        most = None if sup is sp.oo else (sp.floor(sup) if S.contains(sup) == True else sp.ceiling(sup) - 1)      # noqa: E712
    except Exception as ex:
        return None, "%s: range of imax on the path not solved (%s)" % (where, type(ex).__name__)
    if most is not None and most - 1 <= top:
        return True, ""
    if mixed:
        return None, "%s: imax is constrained together with other arguments on the path (%s): not decided" % (where, _path_text(atoms))
    wit = most if most is not None else top + 2
    return False, ("%s converts the drawn indices to %s%d-bit %s (largest value %d) %s; that path admits imax %s, e.g. imax = %d draws "
                   "indices up to %d, which the type does not hold: they wrap around (negative or reduced modulo 2**%d) and leave [0, imax)"
                   % (where, "" if info[0] != "b" else "boolean / ", info[1], {"i": "signed integers", "u": "unsigned integers", "b": "values", "f": "floating point",
                                                                              "c": "complex floating point"}[info[0]], top,
                      "on the path taken when " + _path_text(atoms) if atoms else "on a path taken for every input",
                      "up to %d" % most if most is not None else "without an upper limit", wit, wit - 1, info[1]))


def indices(chk, repo):
    """the verdicts hold for EVERY returning path: a test on the inputs that the literal flag values do not decide (`nrand > imax`,
    `imax < 0`, ...) is explored both ways, paths ending in raise are refusals and constrain nothing"""
    R = "R19.ind"
    fi = repo.func(RA + "random_indices")
    chk.analysed_unit(fi.qualname)
    w = fi.where()
    imax, nrand, gen, seed = sp.Symbol("imax"), sp.Symbol("nrand"), sp.Symbol("rng"), sp.Symbol("seed")
    allp = []
    unrec = False
    for uq in (True, False):
        paths = _choice_paths(repo, fi.qualname, {"imax": imax, "nrand": nrand, "unique": uq, "rng": gen, "seed": seed})
        allp += paths
        want = sp.Symbol(str(not uq))
        wrong = [(t, a) for t, a, _ in paths if a is not None and a.get("replace", sp.Symbol("True")) != want]
        lost = [(t, v) for t, a, v in paths if a is None]
        key = "%s[unique=%s]::replace" % (fi.qualname, uq)
        if wrong:
            t, a = wrong[0]
            chk.ob(R, key, False, w, "unique=%s must draw with replace=%s whatever imax and nrand are: on the path where %s the call is choice(..., replace=%s)%s"
                   % (uq, not uq, t, a.get("replace", "the default True"),
                      " (a request for more distinct indices than the range holds is answered with repeats instead of being refused)" if uq else ""))
        elif lost or not paths:
            unrec = True
            chk.ob(R, key, None, w, "the result is not one <generator>.choice(...) application%s" % (": on the path where %s: %s" % lost[0] if lost else ": no returning path"))
        else:
            chk.ob(R, key, True, w, "unique=%s draws with replace=%s on each of the %d returning path(s)" % (uq, not uq, len(paths)))
    if unrec:
        chk.ob(R, fi.qualname + "::choice-on-generator", None, w, "choice application not recognised")
    else:
        bad = [(t, a) for t, a, _ in allp if not (a["recv"] == gen and a.get("a") == imax and a.get("size") == nrand and "p" not in a)]
        chk.ob(R, fi.qualname + "::choice-on-generator", not bad, w, "indices are rng.choice(imax, size=nrand, replace=replace): range [0,imax), requested count%s"
               % ("" if not bad else " (where %s: %s)" % (bad[0][0], {k: str(v) for k, v in bad[0][1].items()})))
    # element type of the result: the drawn indices are integers in [0, imax); a conversion of them (astype, array(.., dtype=), a typed
    # output array) must be to a type that holds imax-1 for every imax the path admits, otherwise they wrap and leave the range
    verdicts = []
    for uq in (True, False):
        for atoms, v in mini_paths(repo, fi.qualname, {"imax": imax, "nrand": nrand, "unique": uq, "rng": gen, "seed": seed}, casts=True):
            if not isinstance(v, sp.Basic):
                verdicts.append((None, "on the path where %s the result is not followed: %s" % (_path_text(atoms), v)))
                continue
            verdicts += [index_cast(x, atoms, imax) for x in value_casts(v) if applications(x.args[0], "M_choice")]
    bad = [m for okc, m in verdicts if okc is False]
    und = [m for okc, m in verdicts if okc is None]
    chk.ob(R, fi.qualname + "::index-type-holds-range", False if bad else (None if und else True), w,
           "the indices stay in [0, imax) for every imax: a conversion of the drawn indices is to an integer type that holds imax-1 on the path it is made on%s"
           % (": " + bad[0] if bad else (" (" + und[0] + ")" if und else " (%d conversion(s))" % len(verdicts))))
    paths = _choice_paths(repo, fi.qualname, {"imax": imax, "nrand": nrand, "unique": True, "rng": None, "seed": seed})
    if not paths or any(not (isinstance(v, sp.Basic) and len(applications(v, "M_choice")) == 1) for _, _, v in paths):
        chk.ob(R, fi.qualname + "::seeded-fallback", None, w, "choice application not recognised: %s" % ([str(v)[:160] for _, _, v in paths],))
    else:
        seeded = (Fn("numpy.random.default_rng")(seed), Fn("numpy.random.default_rng")(Fn("KW_seed")(seed)))
        recvs = [applications(v, "M_choice")[0].args[0] for _, _, v in paths]
        chk.ob(R, fi.qualname + "::seeded-fallback", all(r in seeded for r in recvs), w, "without a generator a new one is seeded from seed= (%s)" % recvs[0])
