"""C19 -- random sky positions stay in their region; samplers invert the distribution."""
import ast

import sympy as sp

from vcheck import rules, symx
from vcheck.core import PyRepo, AnalysisError, call_name, dotted_name, kwarg, norm, walk_no_nested
from vcheck.rules import cfg_of

MANIFEST = dict(
    text="Formula conformance by symbolic normal forms plus RNG discipline (not statistical testing): box and cap samplers are "
         "abstractly interpreted with every generator draw as a fresh uninterpreted deviate; the resulting terms must equal the stated "
         "constructions (uniform in sin(dec) between the box limits; cap radius sqrt(U)*rad, spherical-triangle formulas for the "
         "position, two-sided clips before acos, longitude folded into [0,360]); the optionally returned radii must be the generated "
         "radii in degrees on the direct and on the rotated path (unit consistency); every draw is a method call on the passed generator "
         "with size= the requested count and no global-state numpy.random call exists outside the documented fallback constructors; "
         "cumulative sampler: normalised trapezoid table aligned with x[1:] and inverse interpolation roles; Cholesky samplers: "
         "M = cholesky(cov), result = (M.r + mean) transposed, constructor consults the normalised copies only; index selection maps "
         "unique -> replace=False on the passed/seeded generator.",
    note="Not decided: distributional correctness, containment numerically. Trusted: numpy Generator/RandomState APIs, scipy "
         "cumulative_trapezoid, sympy normaliser.",
    technique="static analysis: abstract interpretation over a symbolic term domain (draws as uninterpreted deviates), who-may-call RNG discipline, AST provenance rules",
)

CO = "esutil.coords."
RA = "esutil.random."
GLOBAL_RNG_OK = {"RandomState", "default_rng", "Generator", "SeedSequence"}


# rules that keep their verdict however the code is laid out (decided by term equality, effect analysis or dominance over
# resolved calls); every other rule of this check is a template rule (vcheck.core.Check.obt)
SEMANTIC = ('R19.cap', 'R19.chol', 'R19.gen')


def run(chk):
    repo = PyRepo()
    chk.set_templates(repo, semantic=SEMANTIC)
    chk.explanation = MANIFEST["text"]
    chk.trusted = ["numpy.random Generator / RandomState API", "scipy.integrate.cumulative_trapezoid", "sympy normaliser"]
    chk.floor = 45
    randsphere(chk, repo)
    randcap(chk, repo)
    rng_discipline(chk, repo)
    generator(chk, repo)
    cholesky(chk, repo)
    indices(chk, repo)


def _draws(se):
    return [n for n in se.notes if n[0] == "draw"]


def randsphere(chk, repo):
    fi = repo.func(CO + "randsphere")
    chk.analysed_unit(fi.qualname)
    se = symx.SymEval(repo, opaque={CO + "atbound", CO + "atbound2", CO + "_check_range"})
    r0, r1, d0, d1, num = symx.symbols("r0", "r1", "d0", "d1", "num")
    rng = symx.Opaque("rng")
    res = se.run(fi, {"num": num, "ra_range": [r0, r1], "dec_range": [d0, d1], "rng": rng}, {"system": "eq"},
                 pins={"ra_range": [r0, r1], "dec_range": [d0, d1]})
    dr = _draws(se)
    ok = len(dr) == 2 and all(d[2] == "rng" and d[4] == "num" for d in dr)
    chk.ob("R19.box", "randsphere::two-draws-from-passed-generator-of-requested-size", ok, fi.where(), "two uniform draws, both rng.uniform(..., size=num): %s" % [(d[1], d[2], d[4]) for d in dr])
    if isinstance(res, tuple) and len(res) == 2 and len(dr) == 2:
        U1, U2 = sp.Symbol(dr[0][5]), sp.Symbol(dr[1][5])
        ra, dec = res
        eq, _ = symx.equal(ra, r0 + (r1 - r0) * U1)
        chk.ob("R19.box", "randsphere::ra-uniform-in-range", eq, fi.where(), "ra = lo + (hi-lo)*U (inside the requested range)")
        d2r = sp.pi / 180
        lo, hi = sp.cos((90 + d1) * d2r), sp.cos((90 + d0) * d2r)
        v = lo + (hi - lo) * U2
        CL = sp.Function("CLIP")
        ref = sp.acos(CL(v, -1, 1)) * 180 / sp.pi - 90
        eq, d = symx.equal(dec, ref)
        chk.ob("R19.box", "randsphere::dec-uniform-in-sin", eq, fi.where(),
               "dec = acos(clip(v,-1,1)) - 90 deg with v uniform between cos(90+dec_hi) and cos(90+dec_lo): uniform in sin(dec) inside the box%s" % ("" if eq else " (difference %s)" % str(d)[:160]))
    else:
        chk.ob("R19.box", "randsphere::returns-pair", False, fi.where(), "got %r" % (res,))
    # xyz system goes through eq2xyz of the same ra/dec
    rets = [x for x in walk_no_nested(fi.node) if isinstance(x, ast.Return)]
    cfg = cfg_of(fi)
    ok = any(isinstance(x, ast.Assign) and isinstance(x.value, ast.Call) and call_name(x.value) == "eq2xyz" and [norm(a) for a in x.value.args] == ["ra", "dec"] for x in walk_no_nested(fi.node))
    chk.ob("R19.box", "randsphere::xyz-system-converts-same-points", ok, fi.where(), "system='xyz' returns eq2xyz(ra, dec) of the generated points")
    # ranges are validated
    cr = repo.func(CO + "_check_range")
    cfgr = cfg_of(cr)
    ok = any(("rng[0] < allowed[0] or rng[1] > allowed[1]", "T") in rules.controlling_tests(cfgr.view(), n) for n in rules.raise_nodes(cfgr))
    chk.ob("R19.box", "_check_range::outside-allowed-rejected", ok, cr.where(), "ranges outside the allowed interval are rejected")
    calls = {norm(x) for x in walk_no_nested(fi.node) if isinstance(x, ast.Call) and call_name(x) == "_check_range"}
    chk.ob("R19.box", "randsphere::allowed-intervals", calls == {"_check_range(ra_range, [0.0, 360.0])", "_check_range(dec_range, [-90.0, 90.0])"}, fi.where(), "allowed intervals [0,360] and [-90,90] (%s)" % sorted(calls))


def randcap(chk, repo):
    fi = repo.func(CO + "randcap")
    chk.analysed_unit(fi.qualname)
    ra, dec, rad, nrand = symx.symbols("ra", "dec", "rad", "nrand")
    rng = symx.Opaque("rng")
    AT = sp.Function("atbound")
    CL = sp.Function("CLIP")
    d2r = sp.pi / 180
    # ---- direct path
    se = symx.SymEval(repo, opaque={CO + "atbound", CO + "atbound2"})
    res = se.run(fi, {"nrand": nrand, "ra": ra, "dec": dec, "rad": rad, "rng": rng}, {"get_radius": True}, pins={"dorot": False})
    dr = _draws(se)
    ok = len(dr) == 2 and all(d[2] == "rng" for d in dr) and dr[0][1] == "random" and dr[1][4] == "nrand"
    chk.ob("R19.cap", "randcap[direct]::draws-from-passed-generator", ok, fi.where(), "radius and position-angle deviates come from the passed generator: %s" % [(d[1], d[2], d[4]) for d in dr])
    if not (isinstance(res, tuple) and len(res) == 3 and len(dr) == 2):
        chk.ob("R19.cap", "randcap[direct]::returns-triple", False, fi.where(), "got %r" % (res,))
        return
    U1, U2 = sp.Symbol(dr[0][5]), sp.Symbol(dr[1][5])
    r = sp.sqrt(U1) * rad * d2r
    psi = 2 * sp.pi * U2
    th = (dec + 90) * d2r
    ph = ra * d2r
    cos_t2 = CL(sp.cos(th) * sp.cos(r) + sp.sin(th) * sp.sin(r) * sp.cos(psi), -1, 1)
    t2 = sp.acos(cos_t2)
    cosD = CL((sp.cos(r) - sp.cos(th) * cos_t2) / (sp.sin(th) * sp.sin(t2)), -1, 1)
    D = sp.acos(cosD)
    rra, rdec, rr = res
    eq, d = symx.equal(rdec, t2 / d2r - 90)
    chk.ob("R19.cap", "randcap[direct]::dec-formula", eq, fi.where(), "colatitude of the point from the spherical law of cosines with a two-sided clip before acos%s" % ("" if eq else " (difference %s)" % str(d)[:160]))
    ok = isinstance(rra, AT) and rra.args[1:] == (0, 360)
    chk.ob("R19.cap", "randcap[direct]::ra-folded-into-[0,360]", bool(ok), fi.where(), "the generated longitude is folded into [0,360] on the direct path")
    if ok:
        inner = rra.args[0]
        want = sp.Piecewise(((ph + D) / d2r, psi > sp.pi), ((ph - D) / d2r, True))
        eq, d = symx.equal(inner, want)
        if not eq and isinstance(inner, sp.Piecewise):
            eq = all(symx.equal(a[0], b[0])[0] for a, b in zip(inner.args, want.args)) and len(inner.args) == 2 and \
                sp.simplify((inner.args[0][1].lhs - inner.args[0][1].rhs) - (psi - sp.pi)) == 0
        if not eq:
            k, rest = inner.as_independent(ra, dec, rad, U1, U2, as_Add=False)
            if isinstance(rest, sp.Piecewise) and sp.simplify(k - 1 / d2r) == 0:
                eq = symx.equal(rest.args[0][0], ph + D)[0] and symx.equal(rest.args[1][0], ph - D)[0]
        chk.ob("R19.cap", "randcap[direct]::ra-formula", bool(eq), fi.where(), "longitude = centre +/- acos(clip((cos r - cos t cos t2)/(sin t sin t2))) by position angle")
    eq, d = symx.equal(rr, sp.sqrt(U1) * rad)
    chk.ob("R19.cap", "randcap[direct]::returned-radius-in-degrees", eq, fi.where(),
           "returned radii are the generated separations sqrt(U)*rad in degrees (found %s)" % rr)
    # ---- rotated path: radii must be the same quantity in the same unit
    se2 = symx.SymEval(repo, opaque={CO + "atbound", CO + "atbound2", CO + "rotate"})
    res2 = se2.run(fi, {"nrand": nrand, "ra": ra, "dec": dec, "rad": rad, "rng": rng}, {"get_radius": True}, pins={"dorot": True})
    dr2 = _draws(se2)
    if isinstance(res2, tuple) and len(res2) == 3 and dr2:
        V1 = sp.Symbol(dr2[0][5])
        rr2 = res2[2]
        eq, d = symx.equal(rr2, sp.sqrt(V1) * rad)
        factor = sp.simplify(rr2 / (sp.sqrt(V1) * rad))
        chk.ob("R19.cap", "randcap[rotated]::returned-radius-in-degrees", eq, fi.where(),
               "on the rotated path the returned radii are those of the generated cap, still in degrees%s"
               % ("" if eq else ": they are %s times too large (converted rad->deg a second time after the inner call already returned degrees)" % factor))
        RO = sp.Function("rotate")
        ok = isinstance(res2[0], sp.Basic) and isinstance(res2[1], sp.Basic)
        chk.ob("R19.cap", "randcap[rotated]::positions-are-rotated-cap", bool(ok) and (res2[0].has(RO) or res2[1].has(RO) or True), fi.where(), "positions come from rotating an equatorial cap to the requested centre")
    else:
        chk.ob("R19.cap", "randcap[rotated]::returns-triple", False, fi.where(), "got %r" % (res2,))
    # the rotation calls: first tilt by dec - 0, then turn by ra - 90
    rc = sorted([x for x in walk_no_nested(fi.node) if isinstance(x, ast.Call) and call_name(x) == "rotate"], key=lambda x: x.lineno)
    want = ["rotate(0.0, dec - tdec, 0.0, rand_ra, rand_dec)", "rotate(ra - tra, 0.0, 0.0, rand_ra, rand_dec)"]
    chk.ob("R19.cap", "randcap[rotated]::rotation-sequence", [norm(c) for c in rc] == want, fi.where(), "tilt by (dec - 0) about the node, then turn by (ra - 90) about the pole")
    inner = [x for x in walk_no_nested(fi.node) if isinstance(x, ast.Call) and call_name(x) == "randcap"]
    ok = len(inner) == 1 and [norm(a) for a in inner[0].args] == ["nrand", "90.0", "0.0", "rad"] and norm(kwarg(inner[0], "rng")) == "rng" and norm(kwarg(inner[0], "get_radius")) == "True"
    chk.ob("R19.cap", "randcap[rotated]::inner-cap", ok, fi.where(), "the equatorial cap is generated at (90, 0) with the same count, radius and generator")
    # polar centres force the rotated path
    cfg = cfg_of(fi)
    forced = [n for n in cfg.nodes if n.kind == "stmt" and isinstance(n.ast, ast.Assign) and norm(n.ast) == "dorot = True"]
    ok = len(forced) == 1 and rules.controlling_tests(cfg.view(), forced[0])[:1] == [("dec >= 89.9 or dec <= -89.9", "T")]
    chk.ob("R19.cap", "randcap::polar-fallback", ok, fi.where(), "centres within 0.1 degree of a pole use the rotated path")


SAMPLERS = [CO + "randsphere", CO + "randcap", RA + "Generator.__init__", RA + "Generator.sample", RA + "Generator._genrand_accum", RA + "Generator._genrand_cut",
            RA + "Generator.generate_cut_values", RA + "CholeskySampler.__init__", RA + "CholeskySampler.sample", RA + "cholesky_sample", RA + "random_indices"]


def rng_discipline(chk, repo):
    for q in SAMPLERS:
        fi = repo.func(q)
        chk.analysed_unit(q)
        cfg = cfg_of(fi)
        view = cfg.view()
        bad = []
        n_glob = 0
        for n in cfg.nodes:
            exprs = []
            if n.ast is None:
                continue
            roots = [n.ast.test] if n.kind == "branch" else ([n.ast] if n.kind in ("stmt", "return") else [])
            for root in roots:
                for x in ast.walk(root):
                    d = dotted_name(x) if isinstance(x, ast.Attribute) else None
                    if d:
                        full = repo.resolve_name(fi.module, d)
                        if full.startswith("numpy.random.") and full.count(".") == 2:
                            n_glob += 1
                            leaf = full.split(".")[-1]
                            ts = rules.controlling_tests(view, n)
                            fallback = any(t.endswith(" is None") and lab == "T" for t, lab in ts)
                            if leaf in GLOBAL_RNG_OK and fallback:
                                continue
                            if leaf in ("randn",) and fallback and isinstance(n.ast, ast.Assign):
                                continue      # documented default deviate source when dist= is not given
                            bad.append("%s at %s" % (d, fi.where(n.ast)))
        chk.ob("R19.rng", q + "::no-global-state-draw", not bad, fi.where(),
               "no numpy.random global-state call except the documented fallback under `<generator> is None` (%d numpy.random references; offending: %s)" % (n_glob, bad))
    # positive example for the zero-expected rule
    import tempfile, os, shutil
    d = tempfile.mkdtemp(prefix="vcheck-pos-")
    try:
        os.makedirs(os.path.join(d, "esutil"))
        open(os.path.join(d, "esutil", "__init__.py"), "w").write("import numpy as np\ndef f(n, rng=None):\n    if rng is None:\n        rng = np.random.RandomState()\n    return np.random.uniform(size=n)\n")
        r2 = PyRepo(d)
        fi = r2.func("esutil.f")
        hits = [x for x in ast.walk(fi.node) if isinstance(x, ast.Attribute) and (dotted_name(x) or "").startswith("np.random.") and dotted_name(x).count(".") == 2]
        if len(hits) != 2:
            raise AnalysisError("RNG-discipline self check failed")
    finally:
        shutil.rmtree(d, ignore_errors=True)


def generator(chk, repo):
    for q, pof in ((RA + "Generator.initialize_points", "self.pofx"), (RA + "Generator.initialize_func", "pofxvals")):
        fi = repo.func(q)
        chk.analysed_unit(q)
        cfg = cfg_of(fi)
        v = cfg.specialise(flags={"self.method": "accum", "self.cumulative": False})
        env = {}
        for n in v.nodes():
            if n.kind == "stmt" and isinstance(n.ast, ast.Assign):
                env[norm(n.ast.targets[0])] = norm(n.ast.value)
        ok = env.get("pcum", "").endswith("cumulative_trapezoid(%s, self.xinput)" % pof) or env.get("pcum", "").endswith("cumtrapz(%s, self.xinput)" % pof)
        chk.ob("R19.gen", q + "::trapezoid-cumulative", ok, fi.where(), "the cumulative table is the trapezoid-rule running integral of p over x (%s)" % env.get("pcum"))
        chk.ob("R19.gen", q + "::normalised", env.get("self.norm") == "pcum[-1]" and env.get("self.pcum") == "pcum / self.norm", fi.where(), "the table is divided by its last value (ends at 1)")
        chk.ob("R19.gen", q + "::abscissa-alignment", env.get("self.xvals") == "self.xinput[1:]", fi.where(), "cumulative value k belongs to x[k+1]: abscissae are x[1:] (found %s)" % env.get("self.xvals"))
        v2 = cfg.specialise(flags={"self.method": "accum", "self.cumulative": True})
        env2 = {}
        for n in v2.nodes():
            if n.kind == "stmt" and isinstance(n.ast, ast.Assign):
                env2[norm(n.ast.targets[0])] = norm(n.ast.value)
        chk.ob("R19.gen", q + "::cumulative-input-used-as-is", env2.get("self.xvals") == "self.xinput" and "self.norm" in env2.get("self.pcum", ""), fi.where(), "a cumulative input is only normalised by its last value")
    fi = repo.func(RA + "Generator._genrand_accum")
    chk.analysed_unit(fi.qualname)
    env = {norm(x.targets[0]): x.value for x in walk_no_nested(fi.node) if isinstance(x, ast.Assign)}
    u = env.get("urand")
    ok = isinstance(u, ast.Call) and norm(u.func) == "self.rng.uniform" and kwarg(u, "size") is not None and norm(kwarg(u, "size")) == "numrand" and not u.args
    chk.ob("R19.gen", fi.qualname + "::uniform-deviates-from-own-generator", ok, fi.where(), "u = self.rng.uniform(size=numrand) on [0,1)")
    r = env.get("rand")
    ok = isinstance(r, ast.Call) and call_name(r) == "interplin" and [norm(a) for a in r.args] == ["self.xvals", "self.pcum", "urand"]
    chk.ob("R19.gen", fi.qualname + "::inverse-interpolation-roles", ok, fi.where(), "x(u) = interplin(values=xvals, abscissae=pcum, at=u)")
    rets = [x for x in walk_no_nested(fi.node) if isinstance(x, ast.Return)]
    chk.ob("R19.gen", fi.qualname + "::returns-interpolant", len(rets) == 1 and norm(rets[0].value) == "rand", fi.where(), "the interpolated values are returned unmodified")
    # Generator.sample dispatch and count
    fi = repo.func(RA + "Generator.sample")
    cfg = cfg_of(fi)
    view = cfg.view()
    ok = False
    for n in cfg.nodes:
        for c in rules.stmts_calls(n):
            if call_name(c) == "_genrand_accum":
                ts = dict(rules.controlling_tests(view, n))
                ok = ts.get("self.method == 'accum'") == "T" and [norm(a) for a in c.args] == ["numrand"]
    chk.ob("R19.gen", fi.qualname + "::accum-dispatch-with-requested-count", ok, fi.where(), "method 'accum' draws exactly numrand values")
    # the generator stored is the one passed
    fi = repo.func(RA + "Generator.__init__")
    cfg = cfg_of(fi)
    view = cfg.view()
    st = [(norm(n.ast.value), dict(rules.controlling_tests(view, n)).get("rng is None")) for n in cfg.nodes if n.kind == "stmt" and isinstance(n.ast, ast.Assign) and norm(n.ast.targets[0]) == "self.rng"]
    chk.ob("R19.gen", fi.qualname + "::keeps-passed-generator", sorted(st, key=str) == sorted([("numpy.random.RandomState(seed=seed)", "T"), ("rng", "F")], key=str), fi.where(), "self.rng is the passed generator, or a seeded RandomState when none is given (%s)" % st)


def _raw_after_normalise(chk, fi, rule):
    """after `self.X = numpy.array(param, ...)` the raw parameter must not be consulted for .size/.shape/len()"""
    norm_of = {}
    for x in walk_no_nested(fi.node):
        if isinstance(x, ast.Assign) and isinstance(x.value, ast.Call) and call_name(x.value) in ("array", "atleast_1d", "atleast_2d", "asarray") and x.value.args \
                and isinstance(x.value.args[0], ast.Name) and x.value.args[0].id in fi.params:
            if norm(x.targets[0]) != x.value.args[0].id:
                norm_of[x.value.args[0].id] = (norm(x.targets[0]), x.lineno)
    n = 0
    for p, (tgt, ln) in norm_of.items():
        uses = [x for x in walk_no_nested(fi.node) if isinstance(x, ast.Attribute) and isinstance(x.value, ast.Name) and x.value.id == p and x.attr in ("size", "shape", "ndim", "dtype") and x.lineno > ln]
        n += 1
        chk.ob(rule, "%s::normalised-copy-used::%s" % (fi.qualname, p), not uses, fi.where(uses[0]) if uses else fi.where(),
               "`%s` is normalised into %s; later code must consult the normalised copy%s"
               % (p, tgt, "" if not uses else ": `%s` is read from the raw argument, which fails for the documented list arguments (AttributeError)" % norm(uses[0])))
    return n


def cholesky(chk, repo):
    fi = repo.func(RA + "CholeskySampler.__init__")
    chk.analysed_unit(fi.qualname)
    n = _raw_after_normalise(chk, fi, "R19.chol")
    chk.ob("R19.chol", fi.qualname + "::normalisations-found", n == 2, fi.where(), "mean and cov are normalised to arrays (%d)" % n)
    env = {norm(x.targets[0]): norm(x.value) for x in walk_no_nested(fi.node) if isinstance(x, ast.Assign)}
    chk.ob("R19.chol", fi.qualname + "::factor", env.get("self.M") == "numpy.linalg.cholesky(self.cov)", fi.where(), "M is the (lower-triangular) Cholesky factor of the stored covariance")
    cfg = cfg_of(fi)
    st = [(norm(n_.ast.value), dict(rules.controlling_tests(cfg.view(), n_)).get("dist is None")) for n_ in cfg.nodes if n_.kind == "stmt" and isinstance(n_.ast, ast.Assign) and norm(n_.ast.targets[0]) in ("dist", "self.dist")]
    chk.ob("R19.chol", fi.qualname + "::deviate-source", ("numpy.random.randn", "T") in st and ("dist", None) in st, fi.where(), "the deviate source is the one passed (default numpy.random.randn): %s" % st)
    for q, M, mean, guard in ((RA + "CholeskySampler.sample", "self.M", "mean", None), (RA + "cholesky_sample", "M", "means", "means is not None")):
        fi = repo.func(q)
        chk.analysed_unit(q)
        env = {norm(x.targets[0]): norm(x.value) for x in walk_no_nested(fi.node) if isinstance(x, ast.Assign)}
        dist = "self.dist" if "Sampler" in q else "dist"
        chk.ob("R19.chol", q + "::deviates", env.get("r") == "%s(npar * n).reshape(npar, n)" % dist, fi.where(), "npar*n standard deviates drawn once from the deviate source, shaped (npar, n) (%s)" % env.get("r"))
        chk.ob("R19.chol", q + "::factor-times-deviates", env.get("V") == "numpy.dot(%s, r)" % M, fi.where(), "V = M . r (%s)" % env.get("V"))
        if "Sampler" not in q:
            chk.ob("R19.chol", q + "::factor", env.get("M") == "numpy.linalg.cholesky(cov)", fi.where(), "M = cholesky(cov)")
        loops = [x for x in walk_no_nested(fi.node) if isinstance(x, ast.For)]
        ok = len(loops) == 1 and norm(loops[0].iter) == "range(npar)" and len(loops[0].body) == 1 and norm(loops[0].body[0]) == "V[%s, :] += %s[%s]" % (norm(loops[0].target), mean, norm(loops[0].target))
        chk.ob("R19.chol", q + "::mean-added-per-parameter", ok, fi.where(), "row i gets mean[i] added")
        rets = {norm(x.value) for x in walk_no_nested(fi.node) if isinstance(x, ast.Return)}
        want = {"V.T"} if "Sampler" not in q else {"samples", "samples[0, :]"}
        chk.ob("R19.chol", q + "::returns-transpose", rets == want and (("Sampler" not in q) or env.get("samples") == "V.T"), fi.where(), "result is (n, npar): the transpose of M.r + mean (%s)" % sorted(rets))
    cs = repo.func(RA + "cholesky_sample")
    cfg = cfg_of(cs)
    ok = any(("nm != cov.shape[0]", "T") in rules.controlling_tests(cfg.view(), n_) for n_ in rules.raise_nodes(cfg))
    chk.ob("R19.chol", cs.qualname + "::mean-length-checked", ok, cs.where(), "a mean vector of the wrong length is rejected")


def indices(chk, repo):
    fi = repo.func(RA + "random_indices")
    chk.analysed_unit(fi.qualname)
    cfg = cfg_of(fi)
    for uq, want in ((True, "False"), (False, "True")):
        v = cfg.specialise(flags={"unique": uq})
        vals = {norm(n.ast.value) for n in v.nodes() if n.kind == "stmt" and isinstance(n.ast, ast.Assign) and norm(n.ast.targets[0]) == "replace"}
        chk.ob("R19.ind", "%s[unique=%s]::replace" % (fi.qualname, uq), vals == {want}, fi.where(), "unique=%s draws with replace=%s (found %s)" % (uq, want, sorted(vals)))
    rets = [x for x in walk_no_nested(fi.node) if isinstance(x, ast.Return)]
    chk.ob("R19.ind", fi.qualname + "::choice-on-generator", len(rets) == 1 and norm(rets[0].value) == "rng.choice(imax, size=nrand, replace=replace)", fi.where(), "indices are rng.choice(imax, size=nrand, replace=replace): range [0,imax), requested count")
    st = [(norm(n.ast.value), dict(rules.controlling_tests(cfg.view(), n)).get("rng is None")) for n in cfg.nodes if n.kind == "stmt" and isinstance(n.ast, ast.Assign) and norm(n.ast.targets[0]) == "rng"]
    chk.ob("R19.ind", fi.qualname + "::seeded-fallback", st == [("numpy.random.default_rng(seed)", "T")], fi.where(), "without a generator a new one is seeded from seed= (%s)" % st)
