"""C19 -- random sky positions stay in their region; samplers invert the distribution."""
import ast

import sympy as sp

from vcheck import rules, symx
from vcheck.core import PyRepo, AnalysisError, call_name, dotted_name, kwarg, norm, walk_no_nested
from vcheck.rules import cfg_of

MANIFEST = dict(
    text="Formula conformance by symbolic normal forms plus RNG discipline (not statistical testing): box and cap samplers are "
         "abstractly interpreted with every generator draw as a fresh uninterpreted deviate; the resulting terms must equal the stated "
         "constructions (uniform in sin(dec) between the box limits; cap radius sqrt(U)*rad, spherical-triangle formulas for the "
         "position, two-sided clips before acos, longitude folded into [0,360]); the optionally returned radii must be the generated "
         "radii in degrees on the direct and on the rotated path (unit consistency); every draw is a method call on the passed generator "
         "with size= the requested count and no global-state numpy.random call exists outside the documented fallback constructors; "
         "cumulative sampler: normalised trapezoid table aligned with x[1:] and inverse interpolation roles; Cholesky samplers: "
         "M = cholesky(cov), result = (M.r + mean) transposed, constructor consults the normalised copies only; index selection maps "
         "unique -> replace=False on the passed/seeded generator.",
    note="Not decided: distributional correctness, containment numerically. Trusted: numpy Generator/RandomState APIs, scipy "
         "cumulative_trapezoid, sympy normaliser.",
    technique="static analysis: abstract interpretation over a symbolic term domain (draws as uninterpreted deviates), who-may-call RNG discipline, AST provenance rules",
)

CO = "esutil.coords."
RA = "esutil.random."
GLOBAL_RNG_OK = {"RandomState", "default_rng", "Generator", "SeedSequence"}


# rules that keep their verdict however the code is laid out (decided by term equality, effect analysis or dominance over
# resolved calls); every other rule of this check is a template rule (vcheck.core.Check.obt)
SEMANTIC = ('R19.cap', 'R19.chol', 'R19.gen')


def run(chk):
    repo = PyRepo()
    chk.set_templates(repo, semantic=SEMANTIC)
    chk.explanation = MANIFEST["text"]
    chk.trusted = ["numpy.random Generator / RandomState API", "scipy.integrate.cumulative_trapezoid", "sympy normaliser"]
    chk.floor = 45
    randsphere(chk, repo)
    randcap(chk, repo)
    rng_discipline(chk, repo)
    generator(chk, repo)
    cholesky(chk, repo)
    indices(chk, repo)


def _draws(se):
    return [n for n in se.notes if n[0] == "draw"]


def randsphere(chk, repo):
    fi = repo.func(CO + "randsphere")
    chk.analysed_unit(fi.qualname)
    se = symx.SymEval(repo, opaque={CO + "atbound", CO + "atbound2", CO + "_check_range"})
    r0, r1, d0, d1, num = symx.symbols("r0", "r1", "d0", "d1", "num")
    rng = symx.Opaque("rng")
    res = se.run(fi, {"num": num, "ra_range": [r0, r1], "dec_range": [d0, d1], "rng": rng}, {"system": "eq"},
                 pins={"ra_range": [r0, r1], "dec_range": [d0, d1]})
    dr = _draws(se)
    ok = len(dr) == 2 and all(d[2] == "rng" and d[4] == "num" for d in dr)
    chk.ob("R19.box", "randsphere::two-draws-from-passed-generator-of-requested-size", ok, fi.where(), "two uniform draws, both rng.uniform(..., size=num): %s" % [(d[1], d[2], d[4]) for d in dr])
    if isinstance(res, tuple) and len(res) == 2 and len(dr) == 2:
        U1, U2 = sp.Symbol(dr[0][5]), sp.Symbol(dr[1][5])
        ra, dec = res
        eq, _ = symx.equal(ra, r0 + (r1 - r0) * U1)
        chk.ob("R19.box", "randsphere::ra-uniform-in-range", eq, fi.where(), "ra = lo + (hi-lo)*U (inside the requested range)")
        d2r = sp.pi / 180
        lo, hi = sp.cos((90 + d1) * d2r), sp.cos((90 + d0) * d2r)
        v = lo + (hi - lo) * U2
        CL = sp.Function("CLIP")
        ref = sp.acos(CL(v, -1, 1)) * 180 / sp.pi - 90
        eq, d = symx.equal(dec, ref)
        chk.ob("R19.box", "randsphere::dec-uniform-in-sin", eq, fi.where(),
               "dec = acos(clip(v,-1,1)) - 90 deg with v uniform between cos(90+dec_hi) and cos(90+dec_lo): uniform in sin(dec) inside the box%s" % ("" if eq else " (difference %s)" % str(d)[:160]))
    else:
        chk.ob("R19.box", "randsphere::returns-pair", False, fi.where(), "got %r" % (res,))
    # xyz system goes through eq2xyz of the same ra/dec
    se_x = symx.SymEval(repo, opaque={CO + "atbound", CO + "atbound2", CO + "_check_range", CO + "eq2xyz"})
    ok = None
    try:
        resx = se_x.run(fi, {"num": num, "ra_range": [r0, r1], "dec_range": [d0, d1], "rng": rng}, {"system": "xyz"},
                        pins={"ra_range": [r0, r1], "dec_range": [d0, d1]})
        comps = list(resx) if isinstance(resx, tuple) else [resx]
        if isinstance(res, tuple) and len(res) == 2 and comps and all(isinstance(c, sp.Basic) and getattr(c.func, "__name__", "").startswith("eq2xyz") for c in comps):
            names = [c.func.__name__ for c in comps]
            ok = names in (["eq2xyz"], ["eq2xyz_0", "eq2xyz_1", "eq2xyz_2"]) and \
                all(len(c.args) == 2 and symx.equal(c.args[0], res[0])[0] and symx.equal(c.args[1], res[1])[0] for c in comps)
    except symx.Unsupported:
        ok = None
    chk.ob("R19.box", "randsphere::xyz-system-converts-same-points", ok, fi.where(), "system='xyz' returns eq2xyz(ra, dec) of the generated points")
    # ranges are validated
    cr = repo.func(CO + "_check_range")
    cfgr = cfg_of(cr)
    ok = any(("rng[0] < allowed[0] or rng[1] > allowed[1]", "T") in rules.controlling_tests(cfgr.view(), n) for n in rules.raise_nodes(cfgr))
    chk.ob("R19.box", "_check_range::outside-allowed-rejected", ok, cr.where(), "ranges outside the allowed interval are rejected")
    calls = {norm(x) for x in walk_no_nested(fi.node) if isinstance(x, ast.Call) and call_name(x) == "_check_range"}
    chk.ob("R19.box", "randsphere::allowed-intervals", calls == {"_check_range(ra_range, [0.0, 360.0])", "_check_range(dec_range, [-90.0, 90.0])"}, fi.where(), "allowed intervals [0,360] and [-90,90] (%s)" % sorted(calls))


# --------------------------------------------------------------------------
# helpers for the cap sampler
# --------------------------------------------------------------------------

DRAW_METHODS = ("uniform", "random", "random_sample", "normal", "standard_normal")
UNIFORM_FAMILY = ("uniform", "random", "random_sample")     # deviates on [0,1) (uniform: scaled by its low/high, which symx applies)
POLE = sp.Rational(899, 10)


def _value_names(x):
    """names read as values in expression x (callee expressions left out)"""
    skip = set()
    for c in ast.walk(x):
        if isinstance(c, ast.Call):
            skip |= {id(y) for y in ast.walk(c.func)}
    return {n.id for n in ast.walk(x) if isinstance(n, ast.Name) and id(n) not in skip}


def _polar_predicates(repo, fi, param):
    """the maximal boolean expressions of fi that depend on nothing but the centre latitude `param` (comparisons of it, or of its
    absolute value, with literals): [(node, sympy set of latitudes where it holds or None)]"""
    out = []
    covered = set()
    lat = sp.Symbol(param, real=True)
    for x in walk_no_nested(fi.node):
        if id(x) in covered or not isinstance(x, (ast.BoolOp, ast.Compare, ast.UnaryOp)):
            continue
        if isinstance(x, ast.UnaryOp) and not isinstance(x.op, ast.Not):
            continue
        if _value_names(x) != {param} or not any(isinstance(y, ast.Compare) for y in ast.walk(x)):
            continue
        if any(isinstance(y, ast.Call) and call_name(y) not in ("abs", "fabs", "absolute") for y in ast.walk(x)):
            continue
        if any(isinstance(y, (ast.Attribute, ast.Subscript)) and not any(isinstance(c, ast.Call) and y in ast.walk(c.func) for c in ast.walk(x)) for y in ast.walk(x)):
            continue
        covered |= {id(y) for y in ast.walk(x)}
        where = None
        try:
            env = symx.Env(symx.SymEval(repo), fi, fi.module, {param: lat}, {})
            t = env.truth(x)
            if isinstance(t, bool):
                where = sp.S.Reals if t else sp.S.EmptySet
            elif isinstance(t, sp.Basic):
                where = t.as_set()
        except Exception:
            where = None
        out.append((x, where))
    return out


def _rel_key(c):
    """canonical form of a relational: (kind, normalised lhs-rhs); a positive constant factor does not matter"""
    if isinstance(c, (sp.StrictGreaterThan, sp.GreaterThan)):
        d, kind = c.lhs - c.rhs, type(c).__name__
    elif isinstance(c, sp.StrictLessThan):
        d, kind = c.rhs - c.lhs, "StrictGreaterThan"
    elif isinstance(c, sp.LessThan):
        d, kind = c.rhs - c.lhs, "GreaterThan"
    elif isinstance(c, (sp.Eq, sp.Ne)):
        d, kind = c.lhs - c.rhs, type(c).__name__
    else:
        return ("cond", sp.srepr(c))
    d = sp.expand(d)
    try:
        syms = sorted(d.free_symbols, key=str)
        lc = sp.Poly(d, *syms).LC() if syms else sp.Integer(1)
        if lc.is_number and lc != 0:
            if lc.is_positive:
                d = sp.expand(d / lc)
            elif kind in ("Equality", "Unequality"):
                d = sp.expand(d / lc)
            else:
                d = sp.expand(d / -lc)
    except Exception:
        pass
    return (kind, sp.srepr(d))


def _cond_atoms(e, acc):
    if isinstance(e, sp.Piecewise):
        for v, c in e.args:
            _cond_rels(c, acc)
            _cond_atoms(v, acc)
    elif isinstance(e, sp.Basic):
        for a in e.args:
            _cond_atoms(a, acc)


def _cond_rels(c, acc):
    if c is sp.true or c is sp.false:
        return
    if isinstance(c, sp.Rel):
        k = _rel_key(c)
        if k not in acc:
            acc.append(k)
        _cond_atoms(c.lhs, acc)
        _cond_atoms(c.rhs, acc)
    elif isinstance(c, (sp.And, sp.Or, sp.Not)):
        for a in c.args:
            _cond_rels(a, acc)
    else:
        k = ("cond", sp.srepr(c))
        if k not in acc:
            acc.append(k)


def _cond_value(c, val):
    if c is sp.true or c == True:      # noqa
        return True
    if c is sp.false or c == False:    # noqa
        return False
    if isinstance(c, sp.And):
        return all(_cond_value(a, val) for a in c.args)
    if isinstance(c, sp.Or):
        return any(_cond_value(a, val) for a in c.args)
    if isinstance(c, sp.Not):
        return not _cond_value(c.args[0], val)
    return val[_rel_key(c) if isinstance(c, sp.Rel) else ("cond", sp.srepr(c))]


def _select(e, val):
    """e with every Piecewise replaced by the arm chosen under the truth assignment val"""
    if isinstance(e, sp.Piecewise):
        for v, c in e.args:
            if _cond_value(c, val):
                return _select(v, val)
        return sp.nan
    if isinstance(e, sp.Basic) and e.args and e.has(sp.Piecewise):
        return e.func(*[_select(a, val) for a in e.args])
    return e


def cases_equal(a, b):
    """equality of two terms containing element-wise selections (Piecewise): compared arm by arm under every truth assignment of
    the (canonicalised) selecting conditions, so that where(c, x+y, x-y) and x + where(c, 1, -1)*y are the same term"""
    a, b = sp.sympify(a), sp.sympify(b)
    atoms = []
    _cond_atoms(a, atoms)
    _cond_atoms(b, atoms)
    if not atoms:
        return symx.equal(a, b)[0]
    if len(atoms) > 4:
        return symx.equal(a, b)[0]
    import itertools
    for bits in itertools.product((True, False), repeat=len(atoms)):
        val = dict(zip(atoms, bits))
        if not symx.equal(_select(a, val), _select(b, val))[0]:
            return False
    return True


def _draw_sites(repo, fi, roles, seen=None):
    """every generator-draw call site reachable from fi, following calls into package functions with the roles of the parameters
    carried along (roles: parameter name -> 'gen' | 'count'): [(where, method, receiver role, size role)]"""
    seen = set() if seen is None else seen
    key = (fi.qualname, tuple(sorted(roles.items())))
    if key in seen:
        return []
    seen.add(key)
    # a role is lost when the name is re-bound, except by the documented `if <gen> is None: <gen> = ...` fallback
    cfg = cfg_of(fi)
    view = cfg.view()
    roles = dict(roles)
    for n in cfg.nodes:
        if n.ast is None or n.kind not in ("stmt", "loop", "with"):
            continue
        d, _ = cfg.defs_uses(n)
        for v in d:
            if v in roles:
                ts = rules.controlling_tests(view, n)
                if roles[v] == "gen" and any(t == "%s is None" % v and lab == "T" for t, lab in ts):
                    continue
                roles[v] = "rebound"
    out = []
    for x in walk_no_nested(fi.node):
        if not isinstance(x, ast.Call):
            continue
        f = x.func
        if isinstance(f, ast.Attribute) and f.attr in DRAW_METHODS and not (dotted_name(f) and repo.resolve_name(fi.module, dotted_name(f)).startswith(("numpy.", "math.", "scipy."))):
            recv = rules.expand(f.value, fi.node)
            size = kwarg(x, "size")
            if size is None:
                pos = 2 if f.attr in ("uniform", "normal") else 0
                size = x.args[pos] if len(x.args) > pos else None
            size = rules.expand(size, fi.node) if size is not None else None
            out.append((fi.where(x), f.attr,
                        roles.get(recv.id) if isinstance(recv, ast.Name) else None,
                        roles.get(size.id) if isinstance(size, ast.Name) else None))
            continue
        d = dotted_name(f)
        full = repo.resolve_name(fi.module, d) if d else None
        if full and repo.has(full):
            tgt = repo.func(full)
            params = [p for p in tgt.params if not p.startswith("*")]
            sub = {}
            for p, a in zip(params, x.args):
                a = rules.expand(a, fi.node)
                if isinstance(a, ast.Name) and roles.get(a.id) in ("gen", "count"):
                    sub[p] = roles[a.id]
            for k in x.keywords:
                a = rules.expand(k.value, fi.node)
                if k.arg and isinstance(a, ast.Name) and roles.get(a.id) in ("gen", "count"):
                    sub[k.arg] = roles[a.id]
            if "gen" in sub.values():
                out += _draw_sites(repo, tgt, sub, seen)
    return out


def _try_run(se, fi, args, flags):
    try:
        return se.run(fi, args, flags), None
    except symx.Unsupported as e:
        return None, str(e)


def _is_triple(res):
    return isinstance(res, tuple) and len(res) == 3 and all(isinstance(x, sp.Basic) for x in res)


def randcap(chk, repo):
    fi = repo.func(CO + "randcap")
    chk.analysed_unit(fi.qualname)
    ra, dec, rad, nrand = symx.symbols("ra", "dec", "rad", "nrand")
    rng = symx.Opaque("rng")
    AT = sp.Function("atbound")
    CL = sp.Function("CLIP")
    d2r = sp.pi / 180
    R = "R19.cap"
    w = fi.where()
    # ---- which path is taken: the polar test is a predicate of the centre latitude alone
    preds = _polar_predicates(repo, fi, "dec")
    polar_set = sp.Union(sp.Interval(-sp.oo, -POLE), sp.Interval(POLE, sp.oo))
    assume_direct = {}
    polar_ok = None
    if preds and all(s is not None for _, s in preds):
        polar_ok = True
        for node, s in preds:
            if s == polar_set:
                assume_direct["text:" + norm(node)] = False
            elif s == sp.Interval.open(-POLE, POLE):
                assume_direct["text:" + norm(node)] = True
            else:
                polar_ok = False
                assume_direct["text:" + norm(node)] = not (sp.Integer(90) in s)
    args = {"nrand": nrand, "ra": ra, "dec": dec, "rad": rad, "rng": rng}

    def unrec(keys, why):
        for k in keys:
            chk.ob(R, k, None, w, why)

    DIRECT = ["randcap[direct]::draws-from-passed-generator", "randcap[direct]::dec-formula", "randcap[direct]::ra-folded-into-[0,360]",
              "randcap[direct]::ra-formula", "randcap[direct]::returned-radius-in-degrees"]
    ROTATED = ["randcap[rotated]::returned-radius-in-degrees", "randcap[rotated]::positions-are-rotated-cap", "randcap[rotated]::rotation-sequence",
               "randcap[rotated]::inner-cap"]
    if not assume_direct:
        unrec(DIRECT + ROTATED + ["randcap::polar-fallback"], "no test of the centre latitude alone selects between the direct and the rotated construction: path selection not recognised")
        return
    # ---- RNG provenance: every draw reachable from randcap is a method call on the passed generator with size = the requested count
    sites = _draw_sites(repo, fi, {"rng": "gen", "nrand": "count"})
    prov = bool(sites) and all(g == "gen" and c == "count" for _, _, g, c in sites)
    # ---- direct path
    se = symx.SymEval(repo, opaque={CO + "atbound", CO + "atbound2"})
    se.assume = dict(assume_direct)
    res, err = _try_run(se, fi, dict(args, dorot=False), {"get_radius": True})
    dr = _draws(se)
    rra = rdec = None
    if err is not None or not isinstance(res, tuple):
        unrec(DIRECT, "direct path not evaluated: %s" % (err or "result %r" % (res,)))
    elif len(res) != 3:
        chk.ob(R, "randcap[direct]::returns-triple", False, w, "get_radius=True must return (ra, dec, radius); got %d values" % len(res))
    else:
        ok = len(dr) == 2 and all(d[1] in UNIFORM_FAMILY for d in dr) and prov
        chk.ob(R, "randcap[direct]::draws-from-passed-generator", ok if sites else None, w,
               "exactly two uniform deviates (radius, position angle), every draw a method of the passed generator with size = the requested count: "
               "evaluated draws %s; draw sites %s" % ([(d[1], d[2], d[4]) for d in dr], sites))
        if len(dr) != 2 or not _is_triple(res):
            unrec(DIRECT[1:], "direct path: %d deviates, result %s" % (len(dr), str(res)[:120]))
        else:
            U1, U2 = sp.Symbol(dr[0][5]), sp.Symbol(dr[1][5])
            r = sp.sqrt(U1) * rad * d2r
            psi = 2 * sp.pi * U2
            th = (dec + 90) * d2r
            ph = ra * d2r
            cos_t2 = CL(sp.cos(th) * sp.cos(r) + sp.sin(th) * sp.sin(r) * sp.cos(psi), -1, 1)
            t2 = sp.acos(cos_t2)
            cosD = CL((sp.cos(r) - sp.cos(th) * cos_t2) / (sp.sin(th) * sp.sin(t2)), -1, 1)
            D = sp.acos(cosD)
            rra, rdec, rr = res
            eq, d = symx.equal(rdec, t2 / d2r - 90)
            chk.ob(R, "randcap[direct]::dec-formula", eq, w, "colatitude of the point from the spherical law of cosines with a two-sided clip before acos%s" % ("" if eq else " (difference %s)" % str(d)[:160]))
            ok = isinstance(rra, AT) and rra.args[1:] == (0, 360)
            chk.ob(R, "randcap[direct]::ra-folded-into-[0,360]", bool(ok), w, "the generated longitude is folded into [0,360] on the direct path")
            inner = rra.args[0] if isinstance(rra, AT) else rra
            want = sp.Piecewise(((ph + D) / d2r, psi > sp.pi), ((ph - D) / d2r, True))
            eq = cases_equal(inner, want)
            chk.ob(R, "randcap[direct]::ra-formula", bool(eq), w, "longitude = centre +/- acos(clip((cos r - cos t cos t2)/(sin t sin t2))) by position angle")
            eq, d = symx.equal(rr, sp.sqrt(U1) * rad)
            chk.ob(R, "randcap[direct]::returned-radius-in-degrees", eq, w,
                   "returned radii are the generated separations sqrt(U)*rad in degrees (found %s)" % rr)
    # ---- rotated path: radii must be the same quantity in the same unit; positions are the equatorial cap, tilted then turned
    se2 = symx.SymEval(repo, opaque={CO + "atbound", CO + "atbound2", CO + "rotate"})
    se2.assume = dict(assume_direct)
    res2, err = _try_run(se2, fi, dict(args, dorot=True), {"get_radius": True})
    dr2 = _draws(se2)
    if err is not None or not isinstance(res2, tuple):
        unrec(ROTATED, "rotated path not evaluated: %s" % (err or "result %r" % (res2,)))
        res2 = None
    elif len(res2) != 3:
        chk.ob(R, "randcap[rotated]::returns-triple", False, w, "get_radius=True must return (ra, dec, radius); got %d values" % len(res2))
        res2 = None
    elif not dr2 or not _is_triple(res2):
        unrec(ROTATED, "rotated path: %d deviates, result %s" % (len(dr2), str(res2)[:120]))
        res2 = None
    else:
        V1 = sp.Symbol(dr2[0][5])
        rr2 = res2[2]
        eq, d = symx.equal(rr2, sp.sqrt(V1) * rad)
        factor = sp.simplify(rr2 / (sp.sqrt(V1) * rad))
        chk.ob(R, "randcap[rotated]::returned-radius-in-degrees", eq, w,
               "on the rotated path the returned radii are those of the generated cap, still in degrees%s"
               % ("" if eq else ": they are %s times too large (converted rad->deg a second time after the inner call already returned degrees)" % factor))
        # positions: rotate(ra - 90, 0, 0, *rotate(0, dec - 0, 0, X, Y)) with (X, Y) the direct construction at (90, 0)
        shape = _rotation_shape(res2[0], res2[1])
        if shape is None:
            unrec(ROTATED[1:], "the rotated positions are not two nested applications of rotate(): %s" % str(res2[0])[:160])
        else:
            outer, inner_, X, Y = shape
            chk.ob(R, "randcap[rotated]::positions-are-rotated-cap", True, w, "positions come from rotating a generated cap to the requested centre")
            if outer is None:
                chk.ob(R, "randcap[rotated]::rotation-sequence", False, w,
                       "tilt by (dec - 0) about the node, then turn by (ra - 90) about the pole: a single rotate%s is applied instead" % (inner_,))
            else:
                ok = all(symx.equal(a, b)[0] for a, b in zip(inner_, (0, dec, 0))) and all(symx.equal(a, b)[0] for a, b in zip(outer, (ra - 90, 0, 0)))
                chk.ob(R, "randcap[rotated]::rotation-sequence", ok, w,
                       "tilt by (dec - 0) about the node, then turn by (ra - 90) about the pole (found rotate%s after rotate%s)" % (outer, inner_))
            if rra is None or len(dr2) != 2:
                chk.ob(R, "randcap[rotated]::inner-cap", None if rra is None else False, w,
                       "the equatorial cap is the direct construction at (90, 0) with the same count, radius and generator (%d deviates)" % len(dr2))
            else:
                sub = {ra: 90, dec: 0, sp.Symbol(dr[0][5]): sp.Symbol(dr2[0][5]), sp.Symbol(dr[1][5]): sp.Symbol(dr2[1][5])}
                ok = all(d[1] in UNIFORM_FAMILY for d in dr2) and prov and cases_equal(X, rra.subs(sub, simultaneous=True)) and cases_equal(Y, rdec.subs(sub, simultaneous=True))
                chk.ob(R, "randcap[rotated]::inner-cap", bool(ok), w, "the equatorial cap is the direct construction at (90, 0) with the same count, radius and generator")
    # ---- polar centres force the rotated path
    if polar_ok is None or res2 is None:
        chk.ob(R, "randcap::polar-fallback", None, w, "polar test or rotated path not recognised")
    elif not polar_ok:
        chk.ob(R, "randcap::polar-fallback", False, w, "centres within 0.1 degree of a pole use the rotated path: the latitude test holds on %s" % [str(s) for _, s in preds])
    else:
        ok = True
        why = ""
        for pole in (90, -90, POLE, -POLE):
            se3 = symx.SymEval(repo, opaque={CO + "atbound", CO + "atbound2", CO + "rotate"})
            res3, err = _try_run(se3, fi, dict(args, dec=sp.sympify(pole), dorot=False), {"get_radius": True})
            if err is not None or not _is_triple(res3):
                ok, why = None, "centre latitude %s not evaluated: %s" % (pole, err or res3)
                break
            if not all(symx.equal(a, b.subs(dec, pole))[0] for a, b in zip(res3, res2)):
                ok, why = False, "at centre latitude %s the result is not the rotated construction" % pole
                break
        chk.ob(R, "randcap::polar-fallback", ok, w, "centres within 0.1 degree of a pole use the rotated path %s" % why)


def _rotation_shape(pa, pb):
    """(outer angles or None, inner angles, X, Y) when (pa, pb) are the two components of rotate(o, *rotate(i, X, Y)) or of one
    rotate(i, X, Y); None when they are not rotate applications"""
    def comp(t, k):
        return isinstance(t, sp.Basic) and getattr(t.func, "__name__", "") == "rotate_%d" % k and len(t.args) == 5
    if not (comp(pa, 0) and comp(pb, 1) and pa.args == pb.args):
        return None
    a = pa.args
    if comp(a[3], 0) and comp(a[4], 1) and a[3].args == a[4].args:
        b = a[3].args
        return tuple(a[:3]), tuple(b[:3]), b[3], b[4]
    return None, tuple(a[:3]), a[3], a[4]


SAMPLERS = [CO + "randsphere", CO + "randcap", RA + "Generator.__init__", RA + "Generator.sample", RA + "Generator._genrand_accum", RA + "Generator._genrand_cut",
            RA + "Generator.generate_cut_values", RA + "CholeskySampler.__init__", RA + "CholeskySampler.sample", RA + "cholesky_sample", RA + "random_indices"]


def rng_discipline(chk, repo):
    for q in SAMPLERS:
        fi = repo.func(q)
        chk.analysed_unit(q)
        cfg = cfg_of(fi)
        view = cfg.view()
        bad = []
        n_glob = 0
        for n in cfg.nodes:
            exprs = []
            if n.ast is None:
                continue
            roots = [n.ast.test] if n.kind == "branch" else ([n.ast] if n.kind in ("stmt", "return") else [])
            for root in roots:
                for x in ast.walk(root):
                    d = dotted_name(x) if isinstance(x, ast.Attribute) else None
                    if d:
                        full = repo.resolve_name(fi.module, d)
                        if full.startswith("numpy.random.") and full.count(".") == 2:
                            n_glob += 1
                            leaf = full.split(".")[-1]
                            ts = rules.controlling_tests(view, n)
                            fallback = any(t.endswith(" is None") and lab == "T" for t, lab in ts)
                            if leaf in GLOBAL_RNG_OK and fallback:
                                continue
                            if leaf in ("randn",) and fallback and isinstance(n.ast, ast.Assign):
                                continue      # documented default deviate source when dist= is not given
                            bad.append("%s at %s" % (d, fi.where(n.ast)))
        chk.ob("R19.rng", q + "::no-global-state-draw", not bad, fi.where(),
               "no numpy.random global-state call except the documented fallback under `<generator> is None` (%d numpy.random references; offending: %s)" % (n_glob, bad))
    # positive example for the zero-expected rule
    import tempfile, os, shutil
    d = tempfile.mkdtemp(prefix="vcheck-pos-")
    try:
        os.makedirs(os.path.join(d, "esutil"))
        open(os.path.join(d, "esutil", "__init__.py"), "w").write("import numpy as np\ndef f(n, rng=None):\n    if rng is None:\n        rng = np.random.RandomState()\n    return np.random.uniform(size=n)\n")
        r2 = PyRepo(d)
        fi = r2.func("esutil.f")
        hits = [x for x in ast.walk(fi.node) if isinstance(x, ast.Attribute) and (dotted_name(x) or "").startswith("np.random.") and dotted_name(x).count(".") == 2]
        if len(hits) != 2:
            raise AnalysisError("RNG-discipline self check failed")
    finally:
        shutil.rmtree(d, ignore_errors=True)


def generator(chk, repo):
    for q, pof in ((RA + "Generator.initialize_points", "self.pofx"), (RA + "Generator.initialize_func", "pofxvals")):
        fi = repo.func(q)
        chk.analysed_unit(q)
        cfg = cfg_of(fi)
        v = cfg.specialise(flags={"self.method": "accum", "self.cumulative": False})
        env = {}
        for n in v.nodes():
            if n.kind == "stmt" and isinstance(n.ast, ast.Assign):
                env[norm(n.ast.targets[0])] = norm(n.ast.value)
        ok = env.get("pcum", "").endswith("cumulative_trapezoid(%s, self.xinput)" % pof) or env.get("pcum", "").endswith("cumtrapz(%s, self.xinput)" % pof)
        chk.ob("R19.gen", q + "::trapezoid-cumulative", ok, fi.where(), "the cumulative table is the trapezoid-rule running integral of p over x (%s)" % env.get("pcum"))
        chk.ob("R19.gen", q + "::normalised", env.get("self.norm") == "pcum[-1]" and env.get("self.pcum") == "pcum / self.norm", fi.where(), "the table is divided by its last value (ends at 1)")
        chk.ob("R19.gen", q + "::abscissa-alignment", env.get("self.xvals") == "self.xinput[1:]", fi.where(), "cumulative value k belongs to x[k+1]: abscissae are x[1:] (found %s)" % env.get("self.xvals"))
        v2 = cfg.specialise(flags={"self.method": "accum", "self.cumulative": True})
        env2 = {}
        for n in v2.nodes():
            if n.kind == "stmt" and isinstance(n.ast, ast.Assign):
                env2[norm(n.ast.targets[0])] = norm(n.ast.value)
        chk.ob("R19.gen", q + "::cumulative-input-used-as-is", env2.get("self.xvals") == "self.xinput" and "self.norm" in env2.get("self.pcum", ""), fi.where(), "a cumulative input is only normalised by its last value")
    fi = repo.func(RA + "Generator._genrand_accum")
    chk.analysed_unit(fi.qualname)
    env = {norm(x.targets[0]): x.value for x in walk_no_nested(fi.node) if isinstance(x, ast.Assign)}
    u = env.get("urand")
    ok = isinstance(u, ast.Call) and norm(u.func) == "self.rng.uniform" and kwarg(u, "size") is not None and norm(kwarg(u, "size")) == "numrand" and not u.args
    chk.ob("R19.gen", fi.qualname + "::uniform-deviates-from-own-generator", ok, fi.where(), "u = self.rng.uniform(size=numrand) on [0,1)")
    r = env.get("rand")
    ok = isinstance(r, ast.Call) and call_name(r) == "interplin" and [norm(a) for a in r.args] == ["self.xvals", "self.pcum", "urand"]
    chk.ob("R19.gen", fi.qualname + "::inverse-interpolation-roles", ok, fi.where(), "x(u) = interplin(values=xvals, abscissae=pcum, at=u)")
    rets = [x for x in walk_no_nested(fi.node) if isinstance(x, ast.Return)]
    chk.ob("R19.gen", fi.qualname + "::returns-interpolant", len(rets) == 1 and norm(rets[0].value) == "rand", fi.where(), "the interpolated values are returned unmodified")
    # Generator.sample dispatch and count
    fi = repo.func(RA + "Generator.sample")
    cfg = cfg_of(fi)
    view = cfg.view()
    ok = False
    for n in cfg.nodes:
        for c in rules.stmts_calls(n):
            if call_name(c) == "_genrand_accum":
                ts = dict(rules.controlling_tests(view, n))
                ok = ts.get("self.method == 'accum'") == "T" and [norm(a) for a in c.args] == ["numrand"]
    chk.ob("R19.gen", fi.qualname + "::accum-dispatch-with-requested-count", ok, fi.where(), "method 'accum' draws exactly numrand values")
    # the generator stored is the one passed
    fi = repo.func(RA + "Generator.__init__")
    cfg = cfg_of(fi)
    view = cfg.view()
    st = [(norm(n.ast.value), dict(rules.controlling_tests(view, n)).get("rng is None")) for n in cfg.nodes if n.kind == "stmt" and isinstance(n.ast, ast.Assign) and norm(n.ast.targets[0]) == "self.rng"]
    chk.ob("R19.gen", fi.qualname + "::keeps-passed-generator", sorted(st, key=str) == sorted([("numpy.random.RandomState(seed=seed)", "T"), ("rng", "F")], key=str), fi.where(), "self.rng is the passed generator, or a seeded RandomState when none is given (%s)" % st)


def _raw_after_normalise(chk, fi, rule):
    """after `self.X = numpy.array(param, ...)` the raw parameter must not be consulted for .size/.shape/len()"""
    norm_of = {}
    for x in walk_no_nested(fi.node):
        if isinstance(x, ast.Assign) and isinstance(x.value, ast.Call) and call_name(x.value) in ("array", "atleast_1d", "atleast_2d", "asarray") and x.value.args \
                and isinstance(x.value.args[0], ast.Name) and x.value.args[0].id in fi.params:
            if norm(x.targets[0]) != x.value.args[0].id:
                norm_of[x.value.args[0].id] = (norm(x.targets[0]), x.lineno)
    n = 0
    for p, (tgt, ln) in norm_of.items():
        uses = [x for x in walk_no_nested(fi.node) if isinstance(x, ast.Attribute) and isinstance(x.value, ast.Name) and x.value.id == p and x.attr in ("size", "shape", "ndim", "dtype") and x.lineno > ln]
        n += 1
        chk.ob(rule, "%s::normalised-copy-used::%s" % (fi.qualname, p), not uses, fi.where(uses[0]) if uses else fi.where(),
               "`%s` is normalised into %s; later code must consult the normalised copy%s"
               % (p, tgt, "" if not uses else ": `%s` is read from the raw argument, which fails for the documented list arguments (AttributeError)" % norm(uses[0])))
    return n


def cholesky(chk, repo):
    fi = repo.func(RA + "CholeskySampler.__init__")
    chk.analysed_unit(fi.qualname)
    n = _raw_after_normalise(chk, fi, "R19.chol")
    chk.ob("R19.chol", fi.qualname + "::normalisations-found", n == 2, fi.where(), "mean and cov are normalised to arrays (%d)" % n)
    env = {norm(x.targets[0]): norm(x.value) for x in walk_no_nested(fi.node) if isinstance(x, ast.Assign)}
    chk.ob("R19.chol", fi.qualname + "::factor", env.get("self.M") == "numpy.linalg.cholesky(self.cov)", fi.where(), "M is the (lower-triangular) Cholesky factor of the stored covariance")
    cfg = cfg_of(fi)
    st = [(norm(n_.ast.value), dict(rules.controlling_tests(cfg.view(), n_)).get("dist is None")) for n_ in cfg.nodes if n_.kind == "stmt" and isinstance(n_.ast, ast.Assign) and norm(n_.ast.targets[0]) in ("dist", "self.dist")]
    chk.ob("R19.chol", fi.qualname + "::deviate-source", ("numpy.random.randn", "T") in st and ("dist", None) in st, fi.where(), "the deviate source is the one passed (default numpy.random.randn): %s" % st)
    for q, M, mean, guard in ((RA + "CholeskySampler.sample", "self.M", "mean", None), (RA + "cholesky_sample", "M", "means", "means is not None")):
        fi = repo.func(q)
        chk.analysed_unit(q)
        env = {norm(x.targets[0]): norm(x.value) for x in walk_no_nested(fi.node) if isinstance(x, ast.Assign)}
        dist = "self.dist" if "Sampler" in q else "dist"
        chk.ob("R19.chol", q + "::deviates", env.get("r") == "%s(npar * n).reshape(npar, n)" % dist, fi.where(), "npar*n standard deviates drawn once from the deviate source, shaped (npar, n) (%s)" % env.get("r"))
        chk.ob("R19.chol", q + "::factor-times-deviates", env.get("V") == "numpy.dot(%s, r)" % M, fi.where(), "V = M . r (%s)" % env.get("V"))
        if "Sampler" not in q:
            chk.ob("R19.chol", q + "::factor", env.get("M") == "numpy.linalg.cholesky(cov)", fi.where(), "M = cholesky(cov)")
        loops = [x for x in walk_no_nested(fi.node) if isinstance(x, ast.For)]
        ok = len(loops) == 1 and norm(loops[0].iter) == "range(npar)" and len(loops[0].body) == 1 and norm(loops[0].body[0]) == "V[%s, :] += %s[%s]" % (norm(loops[0].target), mean, norm(loops[0].target))
        chk.ob("R19.chol", q + "::mean-added-per-parameter", ok, fi.where(), "row i gets mean[i] added")
        rets = {norm(x.value) for x in walk_no_nested(fi.node) if isinstance(x, ast.Return)}
        want = {"V.T"} if "Sampler" not in q else {"samples", "samples[0, :]"}
        chk.ob("R19.chol", q + "::returns-transpose", rets == want and (("Sampler" not in q) or env.get("samples") == "V.T"), fi.where(), "result is (n, npar): the transpose of M.r + mean (%s)" % sorted(rets))
    cs = repo.func(RA + "cholesky_sample")
    cfg = cfg_of(cs)
    ok = any(("nm != cov.shape[0]", "T") in rules.controlling_tests(cfg.view(), n_) for n_ in rules.raise_nodes(cfg))
    chk.ob("R19.chol", cs.qualname + "::mean-length-checked", ok, cs.where(), "a mean vector of the wrong length is rejected")


def indices(chk, repo):
    fi = repo.func(RA + "random_indices")
    chk.analysed_unit(fi.qualname)
    cfg = cfg_of(fi)
    for uq, want in ((True, "False"), (False, "True")):
        v = cfg.specialise(flags={"unique": uq})
        vals = {norm(n.ast.value) for n in v.nodes() if n.kind == "stmt" and isinstance(n.ast, ast.Assign) and norm(n.ast.targets[0]) == "replace"}
        chk.ob("R19.ind", "%s[unique=%s]::replace" % (fi.qualname, uq), vals == {want}, fi.where(), "unique=%s draws with replace=%s (found %s)" % (uq, want, sorted(vals)))
    rets = [x for x in walk_no_nested(fi.node) if isinstance(x, ast.Return)]
    chk.ob("R19.ind", fi.qualname + "::choice-on-generator", len(rets) == 1 and norm(rets[0].value) == "rng.choice(imax, size=nrand, replace=replace)", fi.where(), "indices are rng.choice(imax, size=nrand, replace=replace): range [0,imax), requested count")
    st = [(norm(n.ast.value), dict(rules.controlling_tests(cfg.view(), n)).get("rng is None")) for n in cfg.nodes if n.kind == "stmt" and isinstance(n.ast, ast.Assign) and norm(n.ast.targets[0]) == "rng"]
    chk.ob("R19.ind", fi.qualname + "::seeded-fallback", st == [("numpy.random.default_rng(seed)", "T")], fi.where(), "without a generator a new one is seeded from seed= (%s)" % st)
